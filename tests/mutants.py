"""Self-test mutants: (id, file, old text, new text, expected 'Cxx.Ry' or None for
behaviour-preserving variants that must stay silent)."""
M = []


def m(mid, file, old, new, expect, props=None, nth=None):
    M.append({"id": mid, "file": file, "old": old, "new": new, "expect": expect, "props": props, "nth": nth})


def revert(mid, commit, expect):
    """Mutant = the tree with one 'fix:' commit of /repo reverted (the original defect)."""
    M.append({"id": mid, "revert": commit, "expect": expect, "props": None, "file": None, "old": None, "new": None, "nth": None})


def patch(mid, path, expect, props=None):
    """Mutant = /repo with a unified diff (path relative to /verif) applied."""
    M.append({"id": mid, "patch": path, "expect": expect, "props": props, "file": None, "old": None, "new": None, "nth": None})


# ---- the repaired defects must be reported again if they come back
revert("f1-migrate-polarity", "dc24079", "C13.R3")
revert("f4-basic-wait-break", "4b9324e", "C01.R7")
revert("f6-stale-pool-counter", "cef111f", "C06.R3")
revert("f8-suspend-to-running", "f4622e6", "C02.R5")

# ---- C07
m("c07-push-unlocked", "src/pool/fifo.c",
  """    ABTD_spinlock_acquire(&p_data->mutex);
    thread_queue_push_tail(&p_data->queue, p_thread);
    ABTD_spinlock_release(&p_data->mutex);
}""",
  """    ABTD_spinlock_acquire(&p_data->mutex);
    ABTD_spinlock_release(&p_data->mutex);
    thread_queue_push_tail(&p_data->queue, p_thread);
}""", "C07.R1")
m("c07-is-empty-not-set", "src/pool/thread_queue.h",
  """        p_queue->num_threads = 0;
            ABTD_atomic_release_store_int(&p_queue->is_empty, 1);
        } else {
            p_thread->p_prev->p_next = p_thread->p_next;
            p_thread->p_next->p_prev = p_thread->p_prev;
            p_queue->p_tail""",
  """        p_queue->num_threads = 0;
        } else {
            p_thread->p_prev->p_next = p_thread->p_next;
            p_thread->p_next->p_prev = p_thread->p_prev;
            p_queue->p_tail""", "C07.R2")
m("c07-fifo-push-head", "src/pool/fifo_wait.c",
  """    pthread_mutex_lock(&p_data->mutex);
    thread_queue_push_tail(&p_data->queue, p_thread);
    pthread_cond_signal(&p_data->cond);""",
  """    pthread_mutex_lock(&p_data->mutex);
    thread_queue_push_head(&p_data->queue, p_thread);
    pthread_cond_signal(&p_data->cond);""", "C07.R4")
m("c07-fifo-wait-no-signal", "src/pool/fifo_wait.c",
  """    thread_queue_push_tail(&p_data->queue, p_thread);
    pthread_cond_signal(&p_data->cond);
    pthread_mutex_unlock(&p_data->mutex);""",
  """    thread_queue_push_tail(&p_data->queue, p_thread);
    pthread_mutex_unlock(&p_data->mutex);
    pthread_cond_signal(&p_data->cond);""", "C07.R6")
m("c07-randws-priv-flag-flipped", "src/pool/randws.c",
  """    ABTI_thread *p_thread = ABTI_unit_get_thread_from_builtin_unit(unit);
    if (context & POOL_CONTEXT_PUSH_HEAD) {
        thread_queue_push_head(&p_data->queue, p_thread);
    } else {
        thread_queue_push_tail(&p_data->queue, p_thread);
    }
}""",
  """    ABTI_thread *p_thread = ABTI_unit_get_thread_from_builtin_unit(unit);
    if (!(context & POOL_CONTEXT_PUSH_HEAD)) {
        thread_queue_push_head(&p_data->queue, p_thread);
    } else {
        thread_queue_push_tail(&p_data->queue, p_thread);
    }
}""", "C07.R4")
m("c07-neg-rename-local", "src/pool/fifo.c",
  """    data_t *p_data = pool_get_data_ptr(p_pool->data);
    ABTI_thread *p_thread = ABTI_unit_get_thread_from_builtin_unit(unit);
    ABTD_spinlock_acquire(&p_data->mutex);
    thread_queue_push_tail(&p_data->queue, p_thread);
    ABTD_spinlock_release(&p_data->mutex);""",
  """    data_t *p_d = pool_get_data_ptr(p_pool->data);
    ABTI_thread *p_thread = ABTI_unit_get_thread_from_builtin_unit(unit);
    ABTD_spinlock_acquire(&p_d->mutex);
    thread_queue_push_tail(&p_d->queue, p_thread);
    ABTD_spinlock_release(&p_d->mutex);""", None, props=["C07"])
# ---- C05 / C19
m("c05-unlock-before-cond-lock", "src/include/abti_cond.h",
  """    ABTD_spinlock_acquire(&p_cond->lock);

    if (p_cond->p_waiter_mutex == NULL) {
        p_cond->p_waiter_mutex = p_mutex;
    } else {
        if (p_cond->p_waiter_mutex != p_mutex) {
            ABTD_spinlock_release(&p_cond->lock);
            return ABT_ERR_INV_MUTEX;
        }
    }

    ABTI_mutex_unlock(*pp_local, p_mutex);""",
  """    ABTI_mutex_unlock(*pp_local, p_mutex);
    ABTD_spinlock_acquire(&p_cond->lock);

    if (p_cond->p_waiter_mutex == NULL) {
        p_cond->p_waiter_mutex = p_mutex;
    } else {
        if (p_cond->p_waiter_mutex != p_mutex) {
            ABTD_spinlock_release(&p_cond->lock);
            return ABT_ERR_INV_MUTEX;
        }
    }
""", "C05.R1")
m("c05-signal-next-after-wake", "src/include/abti_waitlist.h",
  """        /* After updating p_thread->state, p_thread can be updated and
         * freed. */
        p_waitlist->p_head = p_next;
        if (!p_next)
            p_waitlist->p_tail = NULL;""",
  """        /* After updating p_thread->state, p_thread can be updated and
         * freed. */
        p_waitlist->p_head = p_next;""", "C05.R3")
m("c19-timeout-without-lock", "src/include/abti_waitlist.h",
  """            double cur_time = ABTI_get_wtime();
            if (cur_time >= target_time) {
                ABTD_spinlock_acquire(p_lock);
                goto timeout;
            }
            ABTI_ythread_yield(""",
  """            double cur_time = ABTI_get_wtime();
            if (cur_time >= target_time) {
                goto timeout;
            }
            ABTI_ythread_yield(""", "C19.R1")
m("c19-enqueue-no-prev", "src/include/abti_waitlist.h",
  """        p_waitlist->p_tail->p_next = &thread;
        thread.p_prev = p_waitlist->p_tail;""",
  """        p_waitlist->p_tail->p_next = &thread;
        thread.p_prev = NULL;""", "C19.R3")
# ---- C04
m("c04-broadcast-before-release", "src/include/abti_mutex.h",
  """    ABTD_spinlock_release(&p_mutex->lock);
    /* Operations of waitlist must be done while taking waiter_lock. */
    ABTI_waitlist_broadcast(p_local, &p_mutex->waitlist);
    ABTD_spinlock_release(&p_mutex->waiter_lock);""",
  """    /* Operations of waitlist must be done while taking waiter_lock. */
    ABTI_waitlist_broadcast(p_local, &p_mutex->waitlist);
    ABTD_spinlock_release(&p_mutex->lock);
    ABTD_spinlock_release(&p_mutex->waiter_lock);""", "C04.R1")
m("c04-no-recheck", "src/include/abti_mutex.h",
  """        /* Maybe the mutex lock has been already released.  Check it. */
        if (!ABTD_spinlock_try_acquire(&p_mutex->lock)) {
            /* Lock has been taken. */
            ABTD_spinlock_release(&p_mutex->waiter_lock);
            break;
        }
""", "", "C04.R2")
m("c04-release-outside-waiter-lock", "src/include/abti_mutex.h",
  """    ABTD_spinlock_acquire(&p_mutex->waiter_lock);
    ABTD_spinlock_release(&p_mutex->lock);
    /* Operations of waitlist""",
  """    ABTD_spinlock_release(&p_mutex->lock);
    ABTD_spinlock_acquire(&p_mutex->waiter_lock);
    /* Operations of waitlist""", "C04.R1")
m("c04-owner-cleared-late", "src/include/abti_mutex.h",
  """            p_mutex->owner_id = 0;
            ABTI_mutex_unlock_no_recursion(p_local, p_mutex);""",
  """            ABTI_mutex_unlock_no_recursion(p_local, p_mutex);
            p_mutex->owner_id = 0;""", "C04.R4")
m("c04-trylock-owner-unconditional", "src/include/abti_mutex.h",
  """            if (abt_errno == ABT_SUCCESS) {
                ABTI_ASSERT(p_mutex->nesting_cnt == 0);
                p_mutex->owner_id = self_id;
            }
            return abt_errno;""",
  """            p_mutex->owner_id = self_id;
            return abt_errno;""", "C04.R4")
m("c04-unlock-se-wrong-fn", "src/mutex.c",
  """    ABTI_mutex_unlock(p_local, p_mutex);
    return ABT_SUCCESS;""",
  """    ABTI_mutex_unlock_no_recursion(p_local, p_mutex);
    return ABT_SUCCESS;""", "C04.R6", nth=2)
m("c04-wait-release-before-link", "src/include/abti_waitlist.h",
  """        /* Add p_thread to the list. */
        p_ythread->thread.p_next = NULL;
        if (p_waitlist->p_head == NULL) {
            p_waitlist->p_head = &p_ythread->thread;
        } else {
            p_waitlist->p_tail->p_next = &p_ythread->thread;
        }
        p_waitlist->p_tail = &p_ythread->thread;

        /* Suspend the current ULT */""",
  """        /* Add p_thread to the list. */
        p_ythread->thread.p_next = NULL;
        ABTD_spinlock_release(p_lock);
        if (p_waitlist->p_head == NULL) {
            p_waitlist->p_head = &p_ythread->thread;
        } else {
            p_waitlist->p_tail->p_next = &p_ythread->thread;
        }
        p_waitlist->p_tail = &p_ythread->thread;
        ABTD_spinlock_acquire(p_lock);

        /* Suspend the current ULT */""", "C04.R3")
# ---- C08
m("c08-reset-after-unlock", "src/barrier.c",
  """        ABTI_waitlist_broadcast(p_local, &p_barrier->waitlist);
        /* Reset counter */
        p_barrier->counter = 0;
        ABTD_spinlock_release(&p_barrier->lock);""",
  """        ABTI_waitlist_broadcast(p_local, &p_barrier->waitlist);
        ABTD_spinlock_release(&p_barrier->lock);
        /* Reset counter */
        p_barrier->counter = 0;""", "C08.R1")
# ---- C09
m("c09-ready-after-broadcast", "src/eventual.c",
  """        p_eventual->ready = ABT_TRUE;
        /* Wake up all waiting ULTs */
        ABTI_waitlist_broadcast(p_local, &p_eventual->waitlist);""",
  """        /* Wake up all waiting ULTs */
        ABTI_waitlist_broadcast(p_local, &p_eventual->waitlist);
        p_eventual->ready = ABT_TRUE;""", "C09.R1")
m("c09-callback-after-publish", "src/futures.c",
  """    if (counter == num_compartments && p_future->p_callback != NULL) {
        (*p_future->p_callback)(p_future->array);
    }

    ABTD_atomic_release_store_size(&p_future->counter, counter);
""",
  """    ABTD_atomic_release_store_size(&p_future->counter, counter);

    if (counter == num_compartments && p_future->p_callback != NULL) {
        (*p_future->p_callback)(p_future->array);
    }
""", "C09.R3")
# ---- C10
m("c10-reader-waits-for-readers", "src/rwlock.c",
  """    while (p_rwlock->write_flag && abt_errno == ABT_SUCCESS) {""",
  """    while ((p_rwlock->write_flag || p_rwlock->reader_count) && abt_errno == ABT_SUCCESS) {""", "C10.R2")
m("c10-writer-ignores-readers", "src/rwlock.c",
  """    while ((p_rwlock->write_flag || p_rwlock->reader_count) &&
           abt_errno == ABT_SUCCESS) {""",
  """    while (p_rwlock->write_flag && abt_errno == ABT_SUCCESS) {""", "C10.R2")
m("c10-unlock-no-broadcast-reader", "src/rwlock.c",
  """        p_rwlock->reader_count--;
    }
    ABTI_cond_broadcast(p_local, &p_rwlock->cond);""",
  """        p_rwlock->reader_count--;
        if (p_rwlock->reader_count > 0) {
            ABTI_mutex_unlock(p_local, &p_rwlock->mutex);
            return ABT_SUCCESS;
        }
    }
    ABTI_cond_broadcast(p_local, &p_rwlock->cond);""", "C10.R3")
# ---- C02
m("c02-asm-swap-pops", "src/arch/fcontext/fcontext_x86_64_sysv_elf_gas.S",
  """    popq  %r12  /* restrore R12 */
    popq  %r13  /* restrore R13 */""",
  """    popq  %r13  /* restrore R13 */
    popq  %r12  /* restrore R12 */""", "C02.A2", nth=2)
m("c02-publish-before-blocked", "src/ythread.c",
  """    ABTD_atomic_release_store_int(&p_prev->thread.state,
                                  ABT_THREAD_STATE_BLOCKED);
    /* Release the lock. */
    ABTD_spinlock_release(p_lock);""",
  """    /* Release the lock. */
    ABTD_spinlock_release(p_lock);
    ABTD_atomic_release_store_int(&p_prev->thread.state,
                                  ABT_THREAD_STATE_BLOCKED);""", "C02.R3")
m("c02-arg-read-after-blocked", "src/ythread.c",
  """    ABTI_ythread *p_prev = p_arg->p_prev;
    ABTD_spinlock *p_lock = p_arg->p_lock;""",
  """    ABTI_ythread *p_prev = p_arg->p_prev;
#define p_lock (p_arg->p_lock)""", "C02.R3")
m("c02-yield-push-before-switch", "src/include/abti_ythread.h",
  """    if (kind == ABTI_YTHREAD_YIELD_KIND_USER) {
        ABTI_ythread_switch_to_parent_internal(""",
  """    if (kind == ABTI_YTHREAD_YIELD_KIND_USER) {
        ABTI_pool_add_thread(&p_self->thread, ABT_POOL_CONTEXT_OP_THREAD_YIELD);
        ABTI_ythread_switch_to_parent_internal(""", "C02.R2")
m("c02-wrapper-swapped-ctx", "src/include/abtd_fcontext.h",
  """    switch_fcontext(&p_new->ctx, &p_old->ctx);""",
  """    switch_fcontext(&p_old->ctx, &p_new->ctx);""", "C02.R1")
revert("f2-malloc-stack-free-base", "163ff12", "C15.R1")
revert("f5-create-many-handle", "9ac9003", "C18.R1")
revert("f7-sched-key-commit-point", "2b51379", "C18.R3")
m("c18-leak-on-error-path", "src/pool/fifo_wait.c",
  """        pthread_mutex_destroy(&p_data->mutex);
        ABTU_free(p_data);
        return ABT_ERR_SYS;""",
  """        pthread_mutex_destroy(&p_data->mutex);
        return ABT_ERR_SYS;""", "C18.R2")
m("c18-ladder-stage-skipped", "src/stream.c",
  """    if (init_stage >= 2) {
        p_sched->used = ABTI_SCHED_NOT_USED;
        ABTI_mem_finalize_local(p_newxstream);
    }""",
  """    if (init_stage >= 3) {
        p_sched->used = ABTI_SCHED_NOT_USED;
        ABTI_mem_finalize_local(p_newxstream);
    }""", "C18.R2")
revert("f3-consume-int-overflow", "7a69f37", "C20.R4")

# ---- seeded changes that led to new rules (kept as regression mutants)
patch("s-c18b-revive-commit-early", "seeded/C18-B/patch.diff", "C18.R6")
patch("s-c06d-release-conditional", "seeded/C06-D/patch.diff", "C06.R9")
patch("s-c03c-join-many-break", "seeded/C03-C/patch.diff", "C03.R7")
patch("s-c04c-nesting-narrowed", "seeded/C04-C/patch.diff", "C04.R4")
patch("s-c08c-futex-sample-late", "seeded/C08-C/patch.diff", "C08.X3")
patch("s-c08d-fallback-tag-late", "seeded/C08-D/patch.diff", "C08.R3")
patch("s-c04d-cond-relock-no-recursion", "seeded/C04-D/patch.diff", "C04.R10")
patch("s-c12b-join-no-wait", "seeded/C12-B/patch.diff", "C12.R6")
patch("s-c15c-undo-wrong-size", "seeded/C15-C/patch.diff", "C15.R5")
patch("s-c15d-user-stack-rounded", "seeded/C15-D/patch.diff", "C15.R5")
patch("s-c16c-dtor-walk-break", "seeded/C16-C/patch.diff", "C16.R4")
patch("s-c16d-key-id-start", "seeded/C16-D/patch.diff", "C16.R5")
patch("s-c17d-main-sched-not-marked", "seeded/C17-D/patch.diff", "C17.R7")
patch("s-c18c-frees-callers-pools", "seeded/C18-C/patch.diff", "C18.R8")
patch("s-c18d-default-sched-leak", "seeded/C18-D/patch.diff", "C18.R2")
patch("s-c20c-type-under-val", "seeded/C20-C/patch.diff", "C20.R6")
patch("s-c20d-wrong-type-limit", "seeded/C20-D/patch.diff", "C20.R7")
patch("s-c01e-randws-victim-range", "seeded/C01-E/patch.diff", "C01.R14")
patch("s-c01f-batch-push-index", "seeded/C01-F/patch.diff", "C01.R15")
patch("s-c07f-batch-push-count", "seeded/C07-F/patch.diff", "C07.R7")
patch("s-c04e-owner-is-stream", "seeded/C04-E/patch.diff", "C04.R11")
patch("s-c10e-reader-count-narrow", "seeded/C10-E/patch.diff", "C10.X5")
patch("s-c11e-self-target-ub-assert", "seeded/C11-E/patch.diff", "C11.R8")
patch("s-c08f-barrier-free-no-lock", "seeded/C08-F/patch.diff", "C08.X4")
patch("s-c19f-fini-before-check", "seeded/C19-F/patch.diff", "C19.X4")
patch("s-c16f-table-size-zero", "seeded/C16-F/patch.diff", "C16.R6")
patch("s-c17e-stale-next-link", "seeded/C17-E/patch.diff", "C17.R8")
patch("s-c19e-deadline-before-pop", "seeded/C19-E/patch.diff", "C19.R4")
patch("s-c18f-lock-held-on-error", "seeded/C18-F/patch.diff", "C18.X4")
patch("s-c01h-task-request-not-reset", "seeded/C01-H/patch.diff", "C01.R16")
patch("s-c02h-arg-read-after-push", "seeded/C02-H/patch.diff", "C02.R3")
patch("s-c07h-stale-wrap-link", "seeded/C07-H/patch.diff", "C07.R8")
patch("s-c08g-local-stream-not-cleared", "seeded/C08-G/patch.diff", "C08.R6")
patch("s-c09g-reset-reinits-waitlist", "seeded/C09-G/patch.diff", "C09.X6")
patch("s-c10h-stale-stream-copy", "seeded/C10-H/patch.diff", "C10.R5")
patch("s-c11h-handle-after-switch", "seeded/C11-H/patch.diff", "C11.R11")
patch("s-c12h-unset-request-bang", "seeded/C12-H/patch.diff", "C12.R10")
patch("s-c13h-callback-needs-migratable", "seeded/C13-H/patch.diff", "C13.R9")
patch("s-c14h-pop-many-bound", "seeded/C14-H/patch.diff", "C14.R7")
patch("s-c15h-bucket-shift-short", "seeded/C15-H/patch.diff", "C15.R7")
patch("s-c16h-revive-clears-keytable", "seeded/C16-H/patch.diff", "C16.R7")
patch("s-c18h-detach-without-release", "seeded/C18-H/patch.diff", "C18.R9")
patch("s-c20g-delete-before-validate", "seeded/C20-G/patch.diff", "C20.R9")
patch("s-c20h-pow2-32bit-bound", "seeded/C20-H/patch.diff", "C20.R8")

# round-5 seeds that every check missed on first contact (ids -I/-J)
patch("s-c02i-blocking-helper-given-copy", "seeded/C02-I/patch.diff", "C02.R10")
patch("s-c07j-push-head-back-link", "seeded/C07-J/patch.diff", "C07.R9")
patch("s-c09i-counter-init-one-branch", "seeded/C09-I/patch.diff", "C09.X7")
patch("s-c13i-loop-reads-pool0", "seeded/C13-I/patch.diff", "C13.R8")
patch("s-c13j-request-word-equality", "seeded/C13-J/patch.diff", "C13.R10")
patch("s-c14i-push-many-element0", "seeded/C14-I/patch.diff", "C14.X8")
patch("s-c15i-unregister-strict-only", "seeded/C15-I/patch.diff", "C15.R8")
patch("s-c15j-unsafe-lifo-push", "seeded/C15-J/patch.diff", "C15.R2")
patch("s-c16i-ktable-block-too-large", "seeded/C16-I/patch.diff", "C16.R8")
patch("s-c17i-rank-minus-one", "seeded/C17-I/patch.diff", "C17.R11")
patch("s-c18i-cleanup-skips-pool0", "seeded/C18-I/patch.diff", "C18.X8")
patch("s-c20i-append-behind-head", "seeded/C20-I/patch.diff", "C20.R10")
patch("s-c20j-signed-overflow-test", "seeded/C20-J/patch.diff", "C20.R3")

# ---- X7 / X8 (hand-made, next to the seeds above)
m("x7-barrier-counter-uninit", "src/barrier.c",
  """    p_newbarrier->num_waiters = arg_num_waiters;
    p_newbarrier->counter = 0;
    ABTI_waitlist_init(&p_newbarrier->waitlist);
    /* Return value */""",
  """    p_newbarrier->num_waiters = arg_num_waiters;
    ABTI_waitlist_init(&p_newbarrier->waitlist);
    /* Return value */""", "C08.X7")
m("x7-cond-waiter-mutex-uninit", "src/include/abti_cond.h",
  """    ABTD_spinlock_clear(&p_cond->lock);
    p_cond->p_waiter_mutex = NULL;
    ABTI_waitlist_init(&p_cond->waitlist);""",
  """    ABTD_spinlock_clear(&p_cond->lock);
    ABTI_waitlist_init(&p_cond->waitlist);""", "C05.X7")
m("x7-sched-replace-waiter-uninit", "src/sched/sched.c",
  """    p_sched->p_replace_sched = NULL;
    p_sched->p_replace_waiter = NULL;""",
  """    p_sched->p_replace_sched = NULL;""", "C06.X7")
m("x7-neutral-init-order", "src/barrier.c",
  """    ABTD_spinlock_clear(&p_newbarrier->lock);
    p_newbarrier->num_waiters = arg_num_waiters;
    p_newbarrier->counter = 0;""",
  """    p_newbarrier->counter = 0;
    p_newbarrier->num_waiters = arg_num_waiters;
    ABTD_spinlock_clear(&p_newbarrier->lock);""", None, props=["C08", "C18"])

# ---- X9
m("x9-num-blocked-load-store", "src/include/abti_pool.h",
  """    ABTD_atomic_fetch_add_int32(&p_pool->num_blocked, 1);""",
  """    ABTD_atomic_release_store_int32(&p_pool->num_blocked,
                                    ABTD_atomic_acquire_load_int32(
                                        &p_pool->num_blocked) + 1);""", "C06.X9")

# round-6 seeds that every check missed on first contact (ids -K/-L)
patch("s-c03k-downcast-null-test", "seeded/C03-K/patch.diff", "C03.R12")
patch("s-c12l-exit-guard-main-sched", "seeded/C12-L/patch.diff", "C12.R5")
patch("s-c14k-builtin-unit-shortcut", "seeded/C14-K/patch.diff", "C14.R10")
patch("s-c18k-partial-bucket-full-count", "seeded/C18-K/patch.diff", "C18.R11")
patch("s-c19k-timespec-int64", "seeded/C19-K/patch.diff", "C19.R9")
patch("s-c20k-packed-stride", "seeded/C20-K/patch.diff", "C20.R11")
patch("s-c14l-stale-pool-push", "seeded/C14-L/patch.diff", "C14.R11")
patch("s-c04k-futex-sample-after-release", "seeded/C04-K/patch.diff", "C04.X3")

# round-7 seeds (ids -M) that every check missed on first contact
patch("s-c01m-sched-total-size", "seeded/C01-M/patch.diff", "C01.R22")
patch("s-c07m-pool-size-counts-blocked", "seeded/C07-M/patch.diff", "C07.R10")
patch("s-c14m-direct-pool-store", "seeded/C14-M/patch.diff", "C14.R12")
patch("s-c16m-ktable-nonnull-only", "seeded/C16-M/patch.diff", "C16.R10")
patch("s-c13m-attr-init-drops-callback", "seeded/C13-M/patch.diff", "C13.R13")

# round-7 (second half, ids -N)
patch("s-c05n-timespec-div-for-mod", "seeded/C05-N/patch.diff", "C05.R8")
patch("s-c09n-future-test-off-by-one", "seeded/C09-N/patch.diff", "C09.R7")
patch("s-c06n-remove-leaves-flag", "seeded/C06-N/patch.diff", "C06.R10")
