# Offline setup: builds the libTooling fact extractor used by every check.
LLVM_CXXFLAGS := $(shell llvm-config-14 --cxxflags)
LLVM_LIBS := /usr/lib/llvm-14/lib/libclang-cpp.so.14 /usr/lib/llvm-14/lib/libLLVM-14.so

setup: build/abtfacts

build/abtfacts: tools/abtfacts.cc
	mkdir -p build evidence replays
	clang++ $(LLVM_CXXFLAGS) -fno-rtti -O1 tools/abtfacts.cc -o build/abtfacts $(LLVM_LIBS)

clean:
	rm -rf build replays

.PHONY: setup clean
