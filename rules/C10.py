"""C10 -- reader-writer lock (structural part).

Phrased over canonical facts: tests are identified by `Record::field` labels (polarity and local names do
not matter), the error code of the wait by *what it holds* (the result of ABTI_cond_wait or the initial
ABT_SUCCESS), accesses of the protected state by `rd`/`st` tokens."""
import re

from abtverif import canon, seq
from abtverif.seq import idx, is_call, show, has_if
from . import common, C04, C05

EXPLANATION = (
    "Decides on every path of rdlock / wrlock / unlock that reader_count and write_flag are read and written only "
    "while the rwlock's internal mutex is held and that the mutex is released on every exit including the error "
    "exits (R1); that a reader waits only for write_flag while a writer waits for write_flag or reader_count, that "
    "each wait is an ABTI_cond_wait on the rwlock's own condition and mutex, and that the state change "
    "(reader_count++ / write_flag = 1) happens only after the wait loop was left with its condition false and no "
    "error (R2); that unlock clears write_flag or decrements reader_count and then broadcasts on the condition "
    "before releasing the mutex (R3).  The mutex and condition variable it is built on are decided by C04/C05, "
    "whose core rules are re-evaluated here.  Progress of a blocked writer under a continuous stream of readers "
    "is not decided.")
DECLINED = ["progress of a blocked writer under a continuous reader stream (fairness)"]
ASSUMPTIONS = ["C04 and C05 rules (re-evaluated as part of this check)"]
RULES_DOC = dict(common.SHARED_DOC)
RULES_DOC.update({
    "R1": "reader_count / write_flag are accessed only under ABTI_rwlock::mutex; every exit has released it",
    "R2": "reader waits on write_flag only, writer on write_flag||reader_count; state change only after the loop exits with its condition false and no error",
    "R3": "unlock: state change, then ABTI_cond_broadcast on the rwlock's condition, then mutex unlock",
    "R4": "C04.R1/R2 (mutex unlock order, re-check before enqueue) and C05.R1/R2 (atomic release-and-wait, signal under lock) hold",
})
VARIANTS = ["simple_mutex", "active_wait"]
MX = "&ABTI_rwlock::mutex"
CV = "&ABTI_rwlock::cond"
WF, RC = "ABTI_rwlock::write_flag", "ABTI_rwlock::reader_count"


def _holds_wait_result(F, name):
    """Is `name` a local of F that is only ever assigned 0 (ABT_SUCCESS) or the result of ABTI_cond_wait,
    at least once the latter?  (Flow-insensitive; used when too many definitions reach a test for the
    canonical label to enumerate them.)"""
    if any(p["n"] == name for p in F.params):
        return False
    vals = []
    for nd in F.nodes:
        if not nd:
            continue
        for v, rhs in canon._assigned_var(F, nd):
            if v == name:
                vals.append(rhs)
    ok = bool(vals)
    waits = 0
    for rhs in vals:
        if not isinstance(rhs, int) or rhs < 0:
            ok = False
            continue
        rn = F.nodes[F.strip(rhs)]
        if rn.get("k") == "call" and rn.get("fn") == "ABTI_cond_wait":
            waits += 1
        elif not (rn.get("cv") == 0 and rn.get("k") != "ref"):
            ok = False
    return ok and waits >= 1


def _cond(t, F=None, node=None):
    """Canonical labels: 'writer' = write_flag != 0, 'readers' = reader_count != 0, 'wait-err' = the error
    code of the last ABTI_cond_wait (or the initial ABT_SUCCESS) != 0.  Constant tests (`if (1 && ...)` of
    the error-check macros) are dropped; every other test keeps its canonical text."""
    if t == WF:
        return "writer"
    if t == RC or t == "0 < " + RC:
        return "readers"
    if t in ("0", "1"):
        return None
    alts = t[1:-1].split(" | ") if t.startswith("{") and t.endswith("}") else [t]
    if any(a.startswith("ABTI_cond_wait(") for a in alts) and all(a == "0" or a.startswith("ABTI_cond_wait(") for a in alts):
        return "wait-err"
    if F is not None and re.match(r"^\w+$", t) and _holds_wait_result(F, t):
        return "wait-err"
    return "other:" + t


def _held(toks, i):
    held = False
    for t in toks[:i]:
        if t[0] == "call" and t[1] == "ABTI_mutex_lock" and t[2][-1] == MX:
            held = True
        elif t[0] == "call" and t[1] == "ABTI_mutex_unlock" and t[2][-1] == MX:
            held = False
    return held


def _sel():
    return seq.Sel(calls={"ABTI_mutex_lock", "ABTI_mutex_unlock", "ABTI_cond_wait", "ABTI_cond_broadcast"},
                   fields={"reader_count", "write_flag"}, reads={WF, RC},
                   conds=_cond, locks=False, canon=True)


def rule_R1_R2(P, rep):
    for fn, writer in (("ABT_rwlock_rdlock", False), ("ABT_rwlock_wrlock", True)):
        F = P.fn(fn, "src/rwlock.c")
        ps = [p for p in seq.sequences(F, _sel(), max_repeat=2, max_len=80) if p[1] == "ret"]
        n_ok = 0
        waits_seen = False
        for toks, kind, rv, rtxt in ps:
            why1, why2 = [], []
            acc = [i for i, t in enumerate(toks) if (t[0] == "if" and (t[1] in ("writer", "readers") or WF in t[1] or RC in t[1])) or
                   t[0] in ("st", "rd")]
            locked = [i for i, t in enumerate(toks) if t[0] == "call" and t[1] == "ABTI_mutex_lock"]
            if not locked:
                if rv == 0 or acc:
                    why1.append("path without the mutex succeeds or touches the state")
                rep.ob("R1", "%s early error path -> %s" % (fn, rtxt), not why1, "; ".join(why1), loc=F.file,
                       site="%s/early/%s" % (fn, rtxt))
                continue
            if any(not _held(toks, i) for i in acc):
                why1.append("reader_count/write_flag accessed outside the mutex")
            if _held(toks, len(toks)):
                why1.append("returns holding the internal mutex")
            rep.ob("R1", "%s path -> %s: state accessed under the mutex, mutex released at exit" % (fn, rtxt),
                   not why1, "; ".join(why1), loc=F.file, site="%s/locked/%s/%s" % (fn, rtxt, len(toks)))
            # R2
            waits = idx(toks, is_call("ABTI_cond_wait"))
            for w in waits:
                waits_seen = True
                if toks[w][2][1:] != (CV, MX):
                    why2.append("waits on %s" % (toks[w][2],))
                if not _held(toks, w):
                    why2.append("cond wait without the mutex")
            stores = [t for t in toks if t[0] == "st"]
            conds = [t for t in toks if t[0] == "if" and t[1] in ("writer", "readers")]
            # every condition evaluated while the mutex is held must be one of the documented wait conditions
            allowed = {"writer", "wait-err"} | ({"readers"} if writer else set())
            extra = sorted(set(t[1][6:] if t[1].startswith("other:") else RC for i, t in enumerate(toks)
                               if t[0] == "if" and _held(toks, i) and t[1] not in allowed))
            if extra:
                why2.append("%s also waits on %s (a %s must wait %s)" % (
                    "writer" if writer else "reader", extra, "writer" if writer else "reader",
                    "only for write_flag or reader_count" if writer else "only while a writer holds the lock"))
            if any(t[1] == "readers" for t in conds) and not writer:
                why2.append("a reader waits for other readers")
            if writer and not any(t[1] == "readers" for t in conds) and \
                    all(t[2] is False for t in conds):
                why2.append("a writer does not test reader_count")
            if rv == 0:
                n_ok += 1
                want = [("ABTI_rwlock::write_flag", "=", 1)] if writer else [("ABTI_rwlock::reader_count", "++", None)]
                if [(t[1], t[2], t[3]) for t in stores] != want:
                    why2.append("success path stores %s, expected %s" % ([(t[1], t[2], t[3]) for t in stores], want))
                else:
                    st = [i for i, t in enumerate(toks) if t[0] == "st"][0]
                    # the last evaluation of the wait condition before the store must be false for every conjunct
                    last_flag = [t for t in toks[:st] if t[0] == "if" and t[1] == "writer"]
                    if not last_flag or last_flag[-1][2] is not False:
                        why2.append("lock granted while write_flag may be set")
                    if writer:
                        last_rc = [t for t in toks[:st] if t[0] == "if" and t[1] == "readers"]
                        if not last_rc or last_rc[-1][2] is not False:
                            why2.append("write lock granted while readers may hold the lock")
                    if waits and waits[-1] > st:
                        why2.append("waits after taking the lock")
                    if not has_if(toks[:st], "wait-err", False) and waits:
                        why2.append("state changed without testing the wait's error code")
            else:
                if stores:
                    why2.append("error path changes the lock state")
            rep.ob("R2", "%s path -> %s [%s]" % (fn, rtxt, show(toks)[:260]), not why2, "; ".join(why2), loc=F.file,
                   site="%s/%s/%s" % (fn, rtxt, show(toks)[:200]))
        rep.need(n_ok >= 1 and waits_seen, "%s: no success path or no waiting path" % fn)
    rep.min_instances("R2", 6)


def rule_R3(P, rep):
    F = P.fn("ABT_rwlock_unlock", "src/rwlock.c")
    kinds = set()
    for toks, kind, rv, rtxt in seq.sequences(F, _sel()):
        if kind != "ret" or rv != 0:
            continue
        why = []
        stores = [(i, t) for i, t in enumerate(toks) if t[0] == "st"]
        bc = idx(toks, is_call("ABTI_cond_broadcast"))
        un = [i for i, t in enumerate(toks) if t[0] == "call" and t[1] == "ABTI_mutex_unlock"]
        if has_if(toks, "writer", True):
            k = "writer"
            want = ("ABTI_rwlock::write_flag", "=", 0)
        else:
            k = "reader"
            want = ("ABTI_rwlock::reader_count", "--", None)
        kinds.add(k)
        if len(stores) != 1 or (stores[0][1][1], stores[0][1][2], stores[0][1][3]) != want:
            why.append("stores %s, expected %s" % ([s[1][1:4] for s in stores], want))
        if len(bc) != 1 or len(un) != 1:
            why.append("must broadcast once and unlock once")
        elif stores:
            if not (stores[0][0] < bc[0] < un[0]):
                why.append("order must be state change < broadcast < mutex unlock")
            if toks[bc[0]][2][-1] != CV:
                why.append("broadcast on %s" % (toks[bc[0]][2],))
            if not _held(toks, stores[0][0]) or not _held(toks, bc[0]):
                why.append("state change or broadcast outside the mutex")
        rep.ob("R3", "rwlock_unlock %s [%s]" % (k, show(toks)), not why, "; ".join(why), loc=F.file,
               site="rwlock_unlock/%s" % k)
    rep.ob("R3", "rwlock_unlock distinguishes writer and reader release", kinds == {"writer", "reader"}, str(kinds),
           loc=F.file, site="rwlock_unlock/kinds")


def rule_R4(P, rep):
    sub = type(rep)(rep.prop, rep.tier, rep.variant)
    simple = P.variant == "simple_mutex"
    C04.rule_R1(P, sub, simple)
    C04.rule_R2(P, sub, simple)
    C05.rule_R1(P, sub)
    C05.rule_R2(P, sub)
    for o in sub.obligations:
        rep.ob("R4", "[%s] %s" % (o["rule"].replace("R", "C04/C05 R"), o["instance"]), o["ok"], o["detail"], o["loc"],
               site="R4/" + o["instance"][:200])


def run(P, rep, tier):
    common.run_shared(P, rep, which=("X2", "X3"))
    rule_R1_R2(P, rep)
    rule_R3(P, rep)
    rule_R4(P, rep)
