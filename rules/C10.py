"""C10 -- reader-writer lock (structural part).

Phrased over canonical facts: tests are identified by `Record::field` labels (polarity and local names do
not matter), the error code of the wait by *what it holds* (the result of ABTI_cond_wait or the initial
ABT_SUCCESS), accesses of the protected state by `rd`/`st` tokens."""
import re

from abtverif import canon, seq
from abtverif.seq import idx, is_call, show, has_if
from . import common, C04, C05

EXPLANATION = (
    "Decides on every path of rdlock / wrlock / unlock that reader_count and write_flag are read and written only "
    "while the rwlock's internal mutex is held and that the mutex is released on every exit including the error "
    "exits (R1); that a reader waits only for write_flag while a writer waits for write_flag or reader_count, that "
    "each wait is an ABTI_cond_wait on the rwlock's own condition and mutex, and that the state change "
    "(reader_count++ / write_flag = 1) happens only after the wait loop was left with its condition false and no "
    "error (R2); that unlock clears write_flag or decrements reader_count and then broadcasts on the condition "
    "before releasing the mutex (R3).  The mutex and condition variable it is built on are decided by C04/C05, "
    "whose core rules are re-evaluated here.  Progress of a blocked writer under a continuous stream of readers "
    "is not decided.")
DECLINED = ["progress of a blocked writer under a continuous reader stream (fairness)"]
ASSUMPTIONS = ["C04 and C05 rules (re-evaluated as part of this check)"]
RULES_DOC = dict(common.SHARED_DOC)
RULES_DOC["X7"] = common.X7_DOC
RULES_DOC["X4"] = common.X4_DOC
RULES_DOC["X5"] = common.X5_DOC
RULES_DOC["R6"] = "= C11.R6: a locker that blocked inside the rwlock's mutex or condition variable continues with the stream it was resumed on (the wait helpers write *pp_local back on every return)"
RULES_DOC["R9"] = "= C06.R9: pool reference counts are exact for user-owned pools too (a stale num_scheds == 2 makes a later stream ignore a blocked locker and stop)"
RULES_DOC["R8"] = "= C05.R4: the broadcast that releases lockers wakes the futex whenever ANY released waiter is an external thread or tasklet (the flag accumulates over the list)"
RULES_DOC["R7"] = "= C06.R5: the scheduler serving a blocked locker's pool does not stop while the locker is blocked, for every shared access mode of the pool: the unlock that releases it pushes it to a pool that is still consumed"
RULES_DOC["R5"] = "= C06.R1-R4 and C11.R10: a locker that blocks is counted on the pool it will be resumed on, and the condition wait re-locks with the stream it was resumed on (no stale copy of the caller's stream)"
RULES_DOC.update({
    "R1": "reader_count / write_flag are accessed only under ABTI_rwlock::mutex; every exit has released it",
    "R2": "reader waits on write_flag only, writer on write_flag||reader_count; state change only after the loop exits with its condition false and no error",
    "R3": "unlock: state change, then ABTI_cond_broadcast on the rwlock's condition, then mutex unlock",
    "R4": "C04.R1/R2 (mutex unlock order, re-check before enqueue) and C05.R1/R2 (atomic release-and-wait, signal under lock) hold",
})
VARIANTS = ["simple_mutex", "active_wait"]
MX = "&ABTI_rwlock::mutex"
CV = "&ABTI_rwlock::cond"
WF, RC = "ABTI_rwlock::write_flag", "ABTI_rwlock::reader_count"


def _holds_wait_result(F, name):
    """Is `name` a local of F that is only ever assigned 0 (ABT_SUCCESS) or the result of ABTI_cond_wait,
    at least once the latter?  (Flow-insensitive; used when too many definitions reach a test for the
    canonical label to enumerate them.)"""
    if any(p["n"] == name for p in F.params):
        return False
    vals = []
    for nd in F.nodes:
        if not nd:
            continue
        k = nd.get("k")
        if k == "decl":
            vals += [v.get("init") for v in nd["vars"] if v["n"] == name]
        elif k == "bin" and nd.get("asg"):
            ln = F.nodes[F.strip(nd["lh"])]
            if ln.get("k") == "ref" and ln["n"] == name:
                vals.append(nd["rh"] if nd["op"] == "=" else None)
        elif k == "un" and nd["op"] in ("post++", "post--", "pre++", "pre--", "&"):
            en = F.nodes[F.strip(nd["e"])]
            if en.get("k") == "ref" and en["n"] == name:
                vals.append(None)       # modified in place or its address escapes
    ok = bool(vals)
    waits = 0
    for rhs in vals:
        if not isinstance(rhs, int) or rhs < 0:
            ok = False
            continue
        rn = F.nodes[F.strip(rhs)]
        if rn.get("k") == "call" and rn.get("fn") == "ABTI_cond_wait":
            waits += 1
        elif not (rn.get("cv") == 0 and rn.get("k") != "ref"):
            ok = False
    return ok and waits >= 1


class _NotCombo(Exception):
    pass


_ATOM = {WF: "writer", RC: "readers"}


def _combo_eval(F, i, env):
    """Three-valued value (True / False / None = unknown) of a boolean combination of `write_flag != 0` and
    `reader_count != 0` given the truth of these two atoms in `env` ({'writer': bool, 'readers': bool});
    raises _NotCombo when expression i is anything else."""
    i = F.strip(i)
    nd = F.nodes[i]
    k = nd.get("k")
    if k == "mem":
        fo = F.field_of(i)
        lab = _ATOM.get("%s::%s" % fo) if fo else None
        if lab is None:
            raise _NotCombo()
        return env.get(lab)
    if k == "un" and nd["op"] == "!":
        v = _combo_eval(F, nd["e"], env)
        return None if v is None else (not v)
    if k == "call" and nd.get("fn") in ("__builtin_expect", "ABTU_likely", "ABTU_unlikely") and nd.get("a"):
        return _combo_eval(F, nd["a"][0], env)
    if k == "bin" and nd["op"] in ("||", "&&"):
        a, b = _combo_eval(F, nd["lh"], env), _combo_eval(F, nd["rh"], env)
        dom = nd["op"] == "||"
        if a is dom or b is dom:
            return dom
        return None if (a is None or b is None) else (not dom)
    if k == "bin" and nd["op"] in ("==", "!=", ">", "<"):
        lh, rh = nd["lh"], nd["rh"]
        if nd["op"] == "<":
            lh, rh = rh, lh
        if F.nodes[F.strip(rh)].get("cv") == 0 and F.nodes[F.strip(rh)].get("k") != "ref":
            v = _combo_eval(F, lh, env)     # x != 0, x > 0 (unsigned counters / flags), x == 0
            return None if v is None else (v if nd["op"] != "==" else (not v))
        raise _NotCombo()
    if k == "cond":
        tv, ev = F.nodes[F.strip(nd["th"])].get("cv"), F.nodes[F.strip(nd["el"])].get("cv")
        if tv is not None and ev is not None and bool(tv) != bool(ev):
            v = _combo_eval(F, nd["c"], env)
            return None if v is None else (v if tv else (not v))
        raise _NotCombo()
    raise _NotCombo()


def _combo_fields(F, i):
    return sorted(set(_ATOM["%s::%s" % F.field_of(j)] for j in F.descendants(F.strip(i))
                      if F.nodes[j].get("k") == "mem" and F.field_of(j) and "%s::%s" % F.field_of(j) in _ATOM))


def _combo_def(F, node):
    """(expression, neg) when the condition atom `node` tests a local (`x`, `!x`, `x == 0`, `x != 0`) that
    stands for a boolean combination of the two state atoms: locals are followed through their single
    reaching definition (a helper's flattened result `ret_<helper>`, a temporary holding the wait
    condition).  The atom is true iff the expression is true != neg.  None otherwise."""
    i = F.strip(node)
    neg = False
    while True:
        nd = F.nodes[i]
        k = nd.get("k")
        if k == "un" and nd["op"] == "!":
            neg = not neg
            i = F.strip(nd["e"])
        elif k == "call" and nd.get("fn") in ("__builtin_expect", "ABTU_likely", "ABTU_unlikely") and nd.get("a"):
            i = F.strip(nd["a"][0])
        elif k == "bin" and nd["op"] in ("==", "!="):
            zero = [x for x in (nd["lh"], nd["rh"]) if F.nodes[F.strip(x)].get("cv") == 0 and F.nodes[F.strip(x)].get("k") != "ref"]
            if len(zero) != 1:
                return None
            if nd["op"] == "==":
                neg = not neg
            i = F.strip(nd["rh"] if zero[0] == nd["lh"] else nd["lh"])
        else:
            break
    hops = 0
    while F.nodes[i].get("k") == "ref" and F.nodes[i].get("dk") == "var" and hops < 4:
        d = canon.reaching_def(F, F.nodes[i]["n"], i)
        if not isinstance(d, int):
            return None
        i = F.strip(d)
        hops += 1
    if hops == 0:
        return None
    try:
        _combo_eval(F, i, {})
    except _NotCombo:
        return None
    return (i, neg) if _combo_fields(F, i) else None


def _expand(F, toks):
    """The path engine does not correlate a local that holds `a || b` (or `(a || b) ? TRUE : FALSE`) with the
    branches taken while it was computed, so it enumerates paths on which the local disagrees with its own
    operands.  Such paths are infeasible: return None for them.  On feasible paths every test of such a
    local is followed by synthetic atom tests for the operands whose value it implies (an operand that was
    evaluated as data, not as a branch, e.g. the right operand of `held = a || b`)."""
    out = []
    for k, t in enumerate(toks):
        out.append(t)
        if not (t[0] == "if" and t[1].startswith("combo@")):
            continue
        d = int(t[1][6:].split(":")[0])
        desc = set(F.descendants(d))
        # the atom branches of the most recent evaluation of the defining expression: (rd, if) token pairs
        j = k - 1
        while j >= 0 and not (toks[j][0] == "rd" and toks[j][-1] in desc):
            j -= 1
        env = {}
        while j >= 0:
            if toks[j][0] == "rd" and toks[j][-1] in desc:
                nxt = toks[j + 1] if j + 1 < k else None
                if nxt is not None and nxt[0] == "if" and nxt[1] == _ATOM.get(toks[j][1]):
                    env.setdefault(nxt[1], nxt[2])
                j -= 1
            elif toks[j][0] == "if" and toks[j][1] in ("writer", "readers") and j >= 1 and toks[j - 1][0] == "rd" and \
                    toks[j - 1][-1] in desc:
                j -= 1
            else:
                break
        fields = _combo_fields(F, d)
        unknown = [f for f in fields if f not in env]
        sols = []
        for bits in range(1 << len(unknown)):
            e = dict(env)
            for n, f in enumerate(unknown):
                e[f] = bool(bits >> n & 1)
            if _combo_eval(F, d, e) == t[2]:
                sols.append(e)
        if not sols:
            return None
        for f in unknown:
            vals = set(e[f] for e in sols)
            if len(vals) == 1:
                out.append(("if", f, vals.pop(), t[3]))
    return out


def _cond(t, F=None, node=None):
    """Canonical labels: 'writer' = write_flag != 0, 'readers' = reader_count != 0, 'wait-err' = the error
    code of the last ABTI_cond_wait (or the initial ABT_SUCCESS) != 0.  Constant tests (`if (1 && ...)` of
    the error-check macros) are dropped; every other test keeps its canonical text."""
    if t == WF:
        return "writer"
    if t == RC or t == "0 < " + RC:
        return "readers"
    if t in ("0", "1"):
        return None
    alts = t[1:-1].split(" | ") if t.startswith("{") and t.endswith("}") else [t]
    if any(a.startswith("ABTI_cond_wait(") for a in alts) and all(a == "0" or a.startswith("ABTI_cond_wait(") for a in alts):
        return "wait-err"
    if F is not None and re.match(r"^\w+$", t) and _holds_wait_result(F, t):
        return "wait-err"
    if F is not None and node is not None:
        cd = _combo_def(F, node)
        if cd is not None:
            # a local holding a boolean combination of the state atoms; the token's truth is that of the
            # combination (seq reports truth-of-the-canonical-label; undo its flip and apply ours)
            d, neg = cd
            return ("combo@%d:%s" % (d, "+".join(_combo_fields(F, d))), canon.cond(F, node)[1] != neg)
    return "other:" + t


def _held(toks, i):
    held = False
    for t in toks[:i]:
        if t[0] == "call" and t[1] == "ABTI_mutex_lock" and t[2][-1] == MX:
            held = True
        elif t[0] == "call" and t[1] == "ABTI_mutex_unlock" and t[2][-1] == MX:
            held = False
    return held


def _norm(t):
    """(path, op, value) of a store token with the spellings of +1 / -1 unified: x++, ++x, x += 1, x = x + 1."""
    path, op, v = t[1], t[2], t[3]
    if (op == "+=" and v == 1) or (op == "=" and str(v) in ("%s + 1" % path, "1 + %s" % path)):
        return (path, "++", None)
    if (op == "-=" and v == 1) or (op == "=" and str(v) == "%s - 1" % path):
        return (path, "--", None)
    return (path, op, v)


_SHORT = {"ABTI_mutex_lock": "lock", "ABTI_mutex_unlock": "unlock", "ABTI_cond_wait": "wait", "ABTI_cond_broadcast": "bcast"}


def _sig(toks):
    """Compact, name-free signature of a path (obligation identity)."""
    out = []
    for t in toks:
        if t[0] == "call":
            out.append(_SHORT.get(t[1], t[1]))
        elif t[0] == "if":
            lab = t[1][6:] if t[1].startswith("other:") else ("combo:" + t[1].split(":", 1)[1] if t[1].startswith("combo@") else t[1])
            out.append("[%s%s]" % ("" if t[2] else "!", lab))
        elif t[0] == "st":
            out.append("%s %s %s" % (t[1].split("::")[-1], t[2], t[3]))
    return " ".join(out)


def _sel():
    return seq.Sel(calls={"ABTI_mutex_lock", "ABTI_mutex_unlock", "ABTI_cond_wait", "ABTI_cond_broadcast"},
                   fields={"reader_count", "write_flag"}, reads={WF, RC},
                   conds=_cond, locks=False, canon=True)


def rule_R1_R2(P, rep):
    for fn, writer in (("ABT_rwlock_rdlock", False), ("ABT_rwlock_wrlock", True)):
        F = P.fn(fn, "src/rwlock.c")
        ps = [p for p in seq.sequences(F, _sel(), max_repeat=2, max_len=80) if p[1] == "ret"]
        n_ok = 0
        waits_seen = False
        for toks, kind, rv, rtxt in ps:
            toks = _expand(F, toks)
            if toks is None:
                continue        # infeasible: a local disagrees with the operands it was computed from
            why1, why2 = [], []
            acc = [i for i, t in enumerate(toks) if (t[0] == "if" and (t[1] in ("writer", "readers") or WF in t[1] or RC in t[1])) or
                   t[0] in ("st", "rd")]
            locked = [i for i, t in enumerate(toks) if t[0] == "call" and t[1] == "ABTI_mutex_lock"]
            if not locked:
                if rv == 0 or acc:
                    why1.append("path without the mutex succeeds or touches the state")
                rep.ob("R1", "%s early error path -> %s" % (fn, rtxt), not why1, "; ".join(why1), loc=F.file,
                       site="%s/early/%s" % (fn, rtxt))
                continue
            if any(not _held(toks, i) for i in acc):
                why1.append("reader_count/write_flag accessed outside the mutex")
            if _held(toks, len(toks)):
                why1.append("returns holding the internal mutex")
            rep.ob("R1", "%s path -> %s: state accessed under the mutex, mutex released at exit" % (fn, rtxt),
                   not why1, "; ".join(why1), loc=F.file, site="%s/locked/%s/%s" % (fn, rtxt, len(toks)))
            # R2
            waits = idx(toks, is_call("ABTI_cond_wait"))
            for w in waits:
                waits_seen = True
                if toks[w][2][1:] != (CV, MX):
                    why2.append("waits on %s" % (toks[w][2],))
                if not _held(toks, w):
                    why2.append("cond wait without the mutex")
            stores = [t for t in toks if t[0] == "st"]
            conds = [t for t in toks if t[0] == "if" and t[1] in ("writer", "readers")]
            # every condition evaluated while the mutex is held must be one of the documented wait conditions
            allowed = {"writer", "wait-err"} | ({"readers"} if writer else set())

            def ok_test(lab):
                if lab.startswith("combo@"):    # a combination of allowed atoms is allowed
                    return set(lab.split(":", 1)[1].split("+")) <= allowed
                return lab in allowed
            extra = sorted(set(t[1][6:] if t[1].startswith("other:") else t[1].split(":")[-1] for i, t in enumerate(toks)
                               if t[0] == "if" and _held(toks, i) and not ok_test(t[1])))
            if extra:
                why2.append("%s also waits on %s (a %s must wait %s)" % (
                    "writer" if writer else "reader", extra, "writer" if writer else "reader",
                    "only for write_flag or reader_count" if writer else "only while a writer holds the lock"))
            if any(t[1] == "readers" for t in conds) and not writer:
                why2.append("a reader waits for other readers")
            if writer and not any(t[1] == "readers" for t in conds) and \
                    all(t[2] is False for t in conds):
                why2.append("a writer does not test reader_count")
            if rv == 0:
                n_ok += 1
                want = [("ABTI_rwlock::write_flag", "=", 1)] if writer else [("ABTI_rwlock::reader_count", "++", None)]
                if [_norm(t) for t in stores] != want:
                    why2.append("success path stores %s, expected %s" % ([_norm(t) for t in stores], want))
                else:
                    st = [i for i, t in enumerate(toks) if t[0] == "st"][0]
                    # the last evaluation of the wait condition before the store must be false for every conjunct
                    last_flag = [t for t in toks[:st] if t[0] == "if" and t[1] == "writer"]
                    if not last_flag or last_flag[-1][2] is not False:
                        why2.append("lock granted while write_flag may be set")
                    if writer:
                        last_rc = [t for t in toks[:st] if t[0] == "if" and t[1] == "readers"]
                        if not last_rc or last_rc[-1][2] is not False:
                            why2.append("write lock granted while readers may hold the lock")
                    if waits and waits[-1] > st:
                        why2.append("waits after taking the lock")
                    if not has_if(toks[:st], "wait-err", False) and waits:
                        why2.append("state changed without testing the wait's error code")
            else:
                if stores:
                    why2.append("error path changes the lock state")
            rep.ob("R2", "%s path -> %s [%s]" % (fn, rv if rv is not None else "error code of the wait", _sig(toks)[:600]),
                   not why2, "; ".join(why2), loc=F.file,
                   site="%s/%s/%s" % (fn, rv if rv is not None else "err", _sig(toks)[:600]))
        rep.need(n_ok >= 1 and waits_seen, "%s: no success path or no waiting path" % fn)
    rep.min_instances("R2", 6)


def rule_R3(P, rep):
    F = P.fn("ABT_rwlock_unlock", "src/rwlock.c")
    kinds = set()
    for toks, kind, rv, rtxt in seq.sequences(F, _sel()):
        if kind != "ret" or rv != 0:
            continue
        toks = _expand(F, toks)
        if toks is None:
            continue
        why = []
        stores = [(i, t) for i, t in enumerate(toks) if t[0] == "st"]
        bc = idx(toks, is_call("ABTI_cond_broadcast"))
        un = [i for i, t in enumerate(toks) if t[0] == "call" and t[1] == "ABTI_mutex_unlock"]
        if has_if(toks, "writer", True):
            k = "writer"
            want = ("ABTI_rwlock::write_flag", "=", 0)
        else:
            k = "reader"
            want = ("ABTI_rwlock::reader_count", "--", None)
        kinds.add(k)
        if len(stores) != 1 or _norm(stores[0][1]) != want:
            why.append("stores %s, expected %s" % ([s[1][1:4] for s in stores], want))
        if len(bc) != 1 or len(un) != 1:
            why.append("must broadcast once and unlock once")
        elif stores:
            if not (stores[0][0] < bc[0] < un[0]):
                why.append("order must be state change < broadcast < mutex unlock")
            if toks[bc[0]][2][-1] != CV:
                why.append("broadcast on %s" % (toks[bc[0]][2],))
            if not _held(toks, stores[0][0]) or not _held(toks, bc[0]):
                why.append("state change or broadcast outside the mutex")
        rep.ob("R3", "rwlock_unlock %s [%s]" % (k, show(toks)), not why, "; ".join(why), loc=F.file,
               site="rwlock_unlock/%s" % k)
    rep.ob("R3", "rwlock_unlock distinguishes writer and reader release", kinds == {"writer", "reader"}, str(kinds),
           loc=F.file, site="rwlock_unlock/kinds")


def rule_R4(P, rep):
    sub = type(rep)(rep.prop, rep.tier, rep.variant)
    simple = P.variant == "simple_mutex"
    C04.rule_R1(P, sub, simple)
    C04.rule_R2(P, sub, simple)
    C05.rule_R1(P, sub)
    C05.rule_R2(P, sub)
    for o in sub.obligations:
        rep.ob("R4", "[%s] %s" % (o["rule"].replace("R", "C04/C05 R"), o["instance"]), o["ok"], o["detail"], o["loc"],
               site="R4/" + o["instance"][:200])


def run(P, rep, tier):
    common.rule_X7(P, rep, records=('ABTI_rwlock',))
    common.rule_widths(P, rep, [('ABTI_rwlock', 'reader_count')])
    common.rule_X4(P, rep)
    common.run_shared(P, rep, which=("X2", "X3"))
    rule_R1_R2(P, rep)
    rule_R3(P, rep)
    rule_R4(P, rep)
    from . import C06, C11
    common.borrow(rep, P, C06.rule_R1_R3_R4, "R5")
    common.borrow(rep, P, C06.rule_R2, "R5")
    common.borrow(rep, P, C11.rule_R10, "R5")
    common.borrow(rep, P, C11.rule_R6, "R6")
    common.borrow(rep, P, C06.rule_R5, "R7")
    from . import C05
    common.borrow(rep, P, C05.rule_R4, "R8", active_wait=(getattr(rep, "variant", None) == "active_wait"))
    from . import c06_refs
    common.borrow(rep, P, c06_refs.rule_R9, "R9")
