"""C12 -- work-unit lifecycle state machine (structural part)."""
import re

from abtverif import canon, cfg, seq
from abtverif.seq import idx, is_call, show, has_if
from . import common, C02
from .C03 import _Sel, _field_of, _lvalue_field_of

EXPLANATION = (
    "Decides who may move a work unit between lifecycle states and where requests are honoured.  R1 (role-based "
    "census of all stores to the state field): TERMINATED is written only by ABTI_thread_terminate; BLOCKED only by "
    "post-switch callbacks (after the context is saved) or into a stack-allocated wait-list dummy; RUNNING only "
    "where a switch/run of that unit follows on every path, or by the primary initialisation; READY only by "
    "creation/revival, by the push helper (followed by the push) and by wait-list wake-ups.  R2: only the scheduler's "
    "tasklet arm, the two exit callbacks, cancellation handling and the root launcher terminate a unit.  R3: "
    "cancellation is honoured exactly at scheduling points (ABTI_ythread_schedule and the yield-family callbacks "
    "pass allow_termination = TRUE), never while suspending (suspend-family callbacks pass FALSE: a unit that is "
    "blocking must not be terminated and then marked BLOCKED), and cancellation releases the joiner before "
    "terminating.  R4: revival resets state, request, last stream, parent and context before its single push and is "
    "reached from the API only behind a TERMINATED test.  R5: ABT_thread_exit / ABT_self_exit reach the noreturn "
    "exit primitive on every non-error path.  Timing ('no later than its next scheduling point') is not decided.")
DECLINED = ["'no later than its next scheduling point' as a timing statement",
            "allocation balance at finalize (structural part under C15/C18)"]
ASSUMPTIONS = ["C02/C11 for the switch primitives"]
RULES_DOC = dict(common.SHARED_DOC)
RULES_DOC["X9"] = common.X9_DOC
RULES_DOC["R6"] = "= C03.R1: a join returns only after it observed TERMINATED (a unit is never reported joined, and then freed or revived, while it is still running)"
RULES_DOC["R7"] = "= C06.R1/R3/R4: every post-switch callback, including its cancel arm, leaves the blocked-unit counter balanced (a unit that terminates in a callback is not counted as blocked for ever)"
RULES_DOC["R8"] = "= C01.R5: a unit cancelled in a yield-family callback is not pushed back (TERMINATED is final)"
RULES_DOC["R9"] = "= C02.R5: every switch primitive release-stores RUNNING into the unit it switches to before the switch (a unit never executes while its state says READY)"
RULES_DOC["X4"] = common.X4_DOC
RULES_DOC["R10"] = "request bits: ABTI_thread_set_request ORs the given bits in, ABTI_thread_unset_request ANDs with their complement (~req): clearing one request never clears another that is still pending (a migration that completes does not erase a cancellation)"
RULES_DOC["R14"] = "= C03.R7: the *_many routines reach every non-NULL handle of the array: units listed behind a NULL slot are TERMINATED when join_many returns (and can be revived)"
RULES_DOC["R13"] = "= C13.R2: serving a migration request clears exactly the MIGRATE bit (ABTI_thread_unset_request), once: a cancel or join request posted in the meantime stays pending"
RULES_DOC["R12"] = "request words are sets of bits: every branch on ABTI_thread::request / ABTI_sched::request tests bits with & -- never compares the whole word with one request constant (a pending join or cancel would hide a migration request, and vice versa)"
RULES_DOC["R11"] = "= C03.R4: a joiner that is not a ULT (external thread, tasklet) is released through its futex; exit and resume_joiner agree on how such a joiner is recognised"
RULES_DOC.update({
    "R1": "role-based census of every store to ABTI_thread::state",
    "R2": "callers of ABTI_thread_terminate are the five terminating roles",
    "R3": "cancel points: allow_termination TRUE at scheduling/yield points, FALSE in suspend callbacks; cancel releases the joiner first",
    "R4": "revive resets the unit before its single push and is guarded by a TERMINATED test at the API",
    "R5": "ABT_thread_exit / ABT_self_exit reach ABTI_ythread_exit on every non-error path",
})
VARIANTS = ["no_ext_thread", "active_wait", "tool_interface"]
YH = "src/include/abti_ythread.h"

SWITCHERS = {"ABTI_ythread_switch_to_sibling_internal", "ABTI_ythread_jump_to_sibling_internal",
             "ABTI_ythread_switch_to_child_internal", "ABTI_ythread_context_jump_with_call"}
CREATORS = {"ythread_create", "task_create", "thread_revive"}
WAKERS = {"ABTI_waitlist_signal", "ABTI_waitlist_broadcast"}
TERMINATORS = {"ABTI_ythread_schedule", "ABTI_ythread_callback_exit", "ABTI_ythread_callback_resume_exit_to",
               "ABTI_thread_handle_request_cancel", "xstream_launch_root_ythread"}


# Rules are phrased over canonical facts (abtverif.canon): condition labels independent of polarity and
# of the names of locals, call arguments through canon.expr / canon.rooted, constants looked through
# locals.  Only record/field names, callee names, enumerators and parameter names (from F.params) occur.

_STATE_TEST = re.compile(r"^ABTD_atomic_(\w+?)_load_int\(&(?:ABTI_thread::state|ABTI_ythread::thread\.state)\) == (\w+)$")


_DEPTH = 6   # locals are looked through up to this many copies (canon's default of 3 is too short for alias chains)


def _cargs(F, tok):
    """Canonical (local-name independent) arguments of a call token."""
    return tuple(canon.expr(F, a, depth=_DEPTH) for a in F.nodes[tok[-1]]["a"])


def _cshow(F, toks):
    out = []
    for t in toks:
        if t[0] == "call":
            out.append("%s(%s)" % (t[1], ",".join(_cargs(F, t))))
        else:
            out.append(show([t]))
    return " ; ".join(out)


def _const_of(F, i, depth=3):
    """Constant value of an argument, looking through locals that hold a constant on every path."""
    nd = F.nodes[F.strip(i)]
    if nd.get("cv") is not None:
        return nd["cv"]
    if nd.get("k") == "ref" and nd.get("dk") == "var" and depth > 0:
        d = canon.reaching_def(F, nd["n"], i)
        if isinstance(d, int) and d >= 0:
            return _const_of(F, d, depth - 1)
        ds = canon.reaching_defs(F, nd["n"], i)
        if ds:
            vals = set(_const_of(F, d, depth - 1) for d in ds)
            if len(vals) == 1:
                return vals.pop()
    return None


def _root_object(F, i):
    """Name of the variable an access path is rooted at after looking through local pointer aliases
    (`p = &dummy; p->state` is rooted at `dummy`); None if the root is a call result."""
    m = re.match(r"^[&*(]*([A-Za-z_]\w*)(\()?", canon.rooted(F, i, depth=_DEPTH))
    return m.group(1) if m and not m.group(2) else None


def _yieldable_label(F):
    """conds callback (canon mode): 'yieldable(<param>)' for a NULL test of
    ABTI_thread_get_ythread_or_null(<parameter>)."""
    params = [p["n"] for p in F.params]

    def conds(text):
        m = re.match(r"^ABTI_thread_get_ythread_or_null\((\w+)\)$", text)
        if m and m.group(1) in params:
            return "yieldable(%s)" % m.group(1)
        return False
    return conds


def rule_R1(P, rep):
    names = {v: k.replace("ABT_THREAD_STATE_", "") for k, v in P.enum_consts.items() if k.startswith("ABT_THREAD_STATE_")}
    cbs = set(C02._callbacks(P))
    n = 0
    for F in sorted(P.functions.values(), key=lambda f: (f.file, f.line)):
        for bid, nid in F.calls():
            nd = F.nodes[nid]
            fn = nd.get("fn") or ""
            if not (fn.startswith("ABTD_atomic_") and "store" in fn and nd["a"] and
                    _field_of(F, nd["a"][0]) == ("ABTI_thread", "state")):
                continue
            n += 1
            val = names.get(F.nodes[F.strip(nd["a"][1])].get("cv"), "?")
            tgt = canon.rooted(F, nd["a"][0], depth=_DEPTH)
            base = _root_object(F, nd["a"][0])
            why = ""
            ok = False
            if val == "TERMINATED":
                ok = F.name == "ABTI_thread_terminate"
                why = "only ABTI_thread_terminate may publish TERMINATED"
            elif val == "BLOCKED":
                local_dummy = base is not None and any(
                    dn.get("k") == "decl" and any(v["n"] == base and v["t"] == "ABTI_thread" for v in dn["vars"])
                    for dn in F.nodes if dn)
                ok = F.name in cbs or local_dummy
                why = "BLOCKED may only be stored by a post-switch callback (context saved) or into a stack wait-list dummy"
                if ok and F.name in cbs and "release" not in fn:
                    ok, why = False, "BLOCKED must be a release store"
            elif val == "RUNNING":
                if F.name == "init_library":
                    ok = True
                else:
                    # a switch to / run of that unit follows on every path
                    later = [j for b2, j in F.calls() if (F.nodes[j].get("fn") in SWITCHERS or
                                                          (not F.nodes[j].get("fn") and "f_thread" in F.fieldpath(F.nodes[j]["fe"])))]
                    ok = "release" in fn and cfg.reach_exit_avoiding(F, nid, avoid_nodes=later, include_noret=False) is None and bool(later)
                    why = "RUNNING must be release-stored and followed on every path by a switch to / run of the unit"
            elif val == "READY":
                if F.name in CREATORS:
                    ok = True
                elif F.name == "ABTI_pool_add_thread":
                    later = [j for b2, j in F.calls("ABTI_pool_push")]
                    ok = cfg.reach_exit_avoiding(F, nid, avoid_nodes=later) is None and bool(later)
                    why = "READY in the push helper must be followed by the push"
                elif F.name in WAKERS:
                    ok = "release" in fn
                    why = "wait-list wake-up must release-store READY"
                else:
                    why = "READY may only be stored by creation/revival, the push helper or a wait-list wake-up"
            rep.ob("R1", "%s stores %s into %s (%s)" % (F.name, val, tgt, fn.replace("ABTD_atomic_", "")), ok, why,
                   loc=F.loc(nid), site="state-store/%s/%s" % (F.name, val))
    rep.need(n >= 25, "only %d stores to ABTI_thread::state found" % n)
    # plain (non-atomic) stores must not exist
    plain = [(F.name, F.loc(i)) for F in P.functions.values() for b, i, lh, rh in F.stores()
             if _lvalue_field_of(F, lh) == ("ABTI_thread", "state")]
    rep.ob("R1", "the state field is never written with a plain store", not plain, str(plain), loc="src", site="state-store/plain")


def rule_R2(P, rep):
    callers = sorted(x.split(":")[-1] for x in P.callers().get("src/include/abti_thread.h:ABTI_thread_terminate", []))
    rep.need(callers, "ABTI_thread_terminate has no callers")
    for c in callers:
        rep.ob("R2", "%s is a terminating role" % c, c in TERMINATORS,
               "only %s may call ABTI_thread_terminate" % sorted(TERMINATORS), loc="src", site="terminate-caller/" + c)
    for t in sorted(TERMINATORS):
        rep.ob("R2", "terminating role %s exists and terminates" % t, t in callers, "", loc="src", site="terminate-role/" + t)


def rule_R3(P, rep):
    want = {}
    for cb in C02.SUSPEND_CBS:
        want[cb] = 0
    for cb in ("ythread_callback_yield_impl", "ABTI_ythread_callback_thread_yield_to", "ABTI_ythread_callback_resume_yield_to",
               "ABTI_ythread_schedule"):
        want[cb] = 1
    seen = set()
    for F0 in sorted(P.functions.values(), key=lambda f: (f.file, f.line)):
        # the post-switch callbacks are judged by what they do, also when they delegate to a helper of their file
        F = P.flat(F0) if F0.file == "src/ythread.c" else F0
        for bid, nid in F.calls("ABTI_thread_handle_request"):
            v = _const_of(F, F.nodes[nid]["a"][1])
            seen.add(F.name)
            if F.name not in want and F.file == "src/ythread.c" and F.name not in C02.SUSPEND_CBS:
                # another yield-family callback of ythread.c (e.g. a forwarder to the yield implementation): a
                # scheduling point at which cancellation is honoured
                want[F.name] = 1
            if F.name not in want:
                rep.ob("R3", "%s handles requests (allow_termination=%s)" % (F.name, v), False,
                       "request handling outside the known scheduling/yield/suspend points", loc=F.loc(nid),
                       site="handle_request/%s" % F.name)
                continue
            msg = ("a unit that is blocking must not be terminated in its suspend callback (it would be counted and "
                   "marked BLOCKED after termination)") if want[F.name] == 0 else \
                  "cancellation must be honoured at this scheduling point"
            rep.ob("R3", "%s passes allow_termination=%s" % (F.name, "TRUE" if want[F.name] else "FALSE"),
                   v == want[F.name], msg, loc=F.loc(nid), site="handle_request/%s" % F.name)
    for fn in sorted(want):
        rep.ob("R3", "%s handles pending requests" % fn, fn in seen, "no call to ABTI_thread_handle_request", loc="src",
               site="handle_request/present/%s" % fn)
    # schedule: request handled before running; cancel arm does nothing else
    F = P.fn("ABTI_ythread_schedule", YH)
    sel = _Sel(calls={"ABTI_thread_handle_request", "ABTI_ythread_run_child", "ABTI_thread_terminate", "ABTI_pool_add_thread"},
                  indirect=True, conds=lambda t: t.startswith("ABTI_thread_handle_request("), canon=True)
    for toks, kind, rv, rtxt in seq.sequences(F, sel):
        if kind != "ret":
            continue
        hr = idx(toks, is_call("ABTI_thread_handle_request"))
        acts = [i for i, t in enumerate(toks) if t[0] in ("call", "icall") and t[1] != "ABTI_thread_handle_request"]
        ok = len(hr) == 1 and all(a > hr[0] for a in acts)
        rep.ob("R3", "schedule handles the request before acting [%s]" % _cshow(F, toks)[:160], ok, "", loc=F.file,
               site="schedule/request-first/%d" % len(toks))
    C = P.fn("ABTI_thread_handle_request_cancel", "src/thread.c")
    tgt = [p["n"] for p in C.params if p["t"].replace(" ", "") == "ABTI_thread*"]
    rep.need(len(tgt) == 1, "ABTI_thread_handle_request_cancel: target parameter not found")
    is_ult = "yieldable(%s)" % tgt[0]
    sel = _Sel(calls={"ABTI_ythread_resume_joiner", "ABTI_thread_terminate"}, conds=_yieldable_label(C), canon=True)
    for toks, kind, rv, rtxt in seq.sequences(C, sel):
        if kind != "ret":
            continue
        rj = idx(toks, is_call("ABTI_ythread_resume_joiner"))
        tm = idx(toks, is_call("ABTI_thread_terminate"))
        ok = len(tm) == 1 and (not has_if(toks, is_ult, True) or (len(rj) == 1 and rj[0] < tm[0]))
        rep.ob("R3", "cancel releases the joiner before terminating [%s]" % _cshow(C, toks), ok, "", loc=C.file,
               site="cancel/%s" % has_if(toks, is_ult, True))
    rep.min_instances("R3", 18)


def rule_R4(P, rep):
    F = P.fn("thread_revive", "src/thread.c")
    op = [p["n"] for p in F.params if p["t"] == "thread_pool_op_kind"]
    unit = [p["n"] for p in F.params if p["t"].replace(" ", "") == "ABTI_thread*"]
    rep.need(len(op) == 1 and len(unit) == 1, "thread_revive: pool-operation / unit parameters not found")
    PUSH = P.enum_consts.get("THREAD_POOL_OP_PUSH")
    push_labels = ("%s == THREAD_POOL_OP_PUSH" % op[0], "%s == %s" % (op[0], PUSH))
    is_ult = "yieldable(%s)" % unit[0]
    ylabel = _yieldable_label(F)

    def revive_conds(text):
        if text in push_labels:
            return "op==PUSH"
        if re.search(r"\b%s\b" % re.escape(op[0]), text):
            return "op?:" + text
        return ylabel(text)
    sel = _Sel(calls={"ABTI_pool_push", "ABTD_ythread_context_reinit", "ABTI_thread_set_associated_pool"},
                  fields={"f_thread", "p_arg", "state", "request", "p_last_xstream", "p_parent"},
                  conds=revive_conds, canon=True)
    READY = P.enum_consts["ABT_THREAD_STATE_READY"]
    n = 0
    for toks, kind, rv, rtxt in seq.sequences(F, sel):
        if kind != "ret" or rv != 0:
            continue
        n += 1
        why = []
        push = idx(toks, is_call("ABTI_pool_push"))
        if len(push) > 1:
            why.append("pushed %d times" % len(push))
        lim = push[0] if push else len(toks)
        written = {}
        for i, t in enumerate(toks):
            if t[0] in ("st", "ast"):
                f = (t[1] if t[0] == "st" else t[2]).split("::")[-1]
                written.setdefault(f, []).append(i)
        for f in ("f_thread", "p_arg", "state", "request", "p_last_xstream", "p_parent"):
            if f not in written:
                why.append("%s not reset" % f)
            elif any(i > lim for i in written[f]):
                why.append("%s written after the unit was pushed (another stream may already run it)" % f)
        st = [t for t in toks if t[0] == "ast" and t[2] == "ABTI_thread::state"]
        if st and st[0][3] != READY:
            why.append("state reset to %s" % st[0][3])
        if has_if(toks, is_ult, True):
            ri = idx(toks, is_call("ABTD_ythread_context_reinit"))
            if len(ri) != 1 or ri[0] > lim:
                why.append("ULT context not re-initialised before the push")
        if (len(push) == 1) != has_if(toks, "op==PUSH", True):
            why.append("push does not follow pool_op == PUSH")
        rep.ob("R4", "thread_revive path [%s]" % _cshow(F, toks)[:240], not why, "; ".join(why), loc="%s:%d" % (F.file, F.line),
               site="thread_revive/%d/%s" % (len(push), has_if(toks, is_ult, True)))
    rep.need(n >= 2, "thread_revive: %d success paths" % n)
    TERM = P.enum_consts["ABT_THREAD_STATE_TERMINATED"]
    T = P.fn("ABT_task_revive", "src/task.c")
    c = T.calls("ABT_thread_revive")
    rep.ob("R4", "ABT_task_revive forwards to ABT_thread_revive", len(c) == 1, "", loc=T.file, site="ABT_task_revive/forward")
    for api, file in (("ABT_thread_revive", "src/thread.c"), ("ABT_thread_revive_to", "src/thread.c")):
        A = P.fn(api, file)

        def conds(text):
            m = _STATE_TEST.match(text)
            if m and m.group(2) in ("ABT_THREAD_STATE_TERMINATED", str(TERM)):
                return "state==TERMINATED"
            return False
        sel = _Sel(calls={"thread_revive", "ABTI_thread_revive"}, conds=conds, canon=True)
        n = 0
        for toks, kind, rv, rtxt in seq.sequences(A, sel, max_len=40):
            rv_i = idx(toks, is_call({"thread_revive", "ABTI_thread_revive"}))
            if not rv_i:
                continue
            n += 1
            tests = [t for t in toks[:rv_i[0]] if t[0] == "if" and t[1] == "state==TERMINATED"]
            ok = bool(tests) and tests[-1][2] is True
            rep.ob("R4", "%s revives only a unit observed TERMINATED" % api, ok, _cshow(A, toks)[:200], loc=A.file,
                   site="%s/terminated-guard" % api)
        rep.need(n >= 1, "%s never revives" % api)


def rule_R5(P, rep):
    for api, file in (("ABT_thread_exit", "src/thread.c"), ("ABT_self_exit", "src/self.c")):
        F = P.fn(api, file)
        sel = _Sel(calls={"ABTI_ythread_exit", "ABTI_ythread_exit_to_primary"}, rets=True)
        n = 0
        for toks, kind, rv, rtxt in seq.sequences(F, sel, max_len=40):
            ex = idx(toks, is_call({"ABTI_ythread_exit", "ABTI_ythread_exit_to_primary"}))
            if kind == "ret" and rv == 0:
                rep.ob("R5", "%s has no path that returns success without exiting" % api, False,
                       "returns ABT_SUCCESS without terminating the caller: %s" % _cshow(F, toks), loc=F.file, site="%s/returns" % api)
            if ex:
                n += 1
                rep.ob("R5", "%s reaches the noreturn exit primitive with the calling ULT" % api, kind == "noret", _cshow(F, toks),
                       loc=F.file, site="%s/exits" % api)
        rep.need(n >= 1, "%s never exits" % api)
        # the primary ULT is refused: terminating it would free the context main() runs on
        from abtverif import ctrldep
        for _b, i in F.calls({"ABTI_ythread_exit", "ABTI_ythread_exit_to_primary"}):
            conds = ctrldep.conditions(F, i)
            from .C15 import P_flag_value
            prim = P_flag_value(P, F, "ABTI_THREAD_TYPE_PRIMARY")
            rep.need(prim, "value of ABTI_THREAD_TYPE_PRIMARY not found")

            def tests_primary(lab):
                m_ = re.match(r"^(?:ABTI_thread::type|ABTI_ythread::thread\.type) & (\d+)$", lab)
                return bool(m_) and (int(m_.group(1)) & prim) != 0
            ok = any(tests_primary(lab) and val is not True for lab, val, a_ in conds)
            rep.ob("R5", "%s refuses the primary ULT before it reaches the exit primitive" % api, ok,
                   "no governing test of ABTI_thread::type against ABTI_THREAD_TYPE_PRIMARY (tests: %s)" %
                   [lab for lab, _v, _a in conds if "type" in lab], loc=F.loc(i), site="%s/primary-guard" % api)


def _type_macros(F, bid):
    tc = F.blocks[bid].tc
    out = set()
    if tc is not None:
        for j in F.descendants(tc):
            out.update(m_ for m_ in (F.nodes[j].get("m") or ()) if m_.startswith("ABTI_THREAD_TYPE_"))
    return out


def rule_R10(P, rep):
    H = "src/include/abti_thread.h"
    for fn, wrapper, want in (("ABTI_thread_set_request", "fetch_or", "{p}"), ("ABTI_thread_unset_request", "fetch_and", "~{p}")):
        F = P.fn(fn, H)
        reqp = F.params[-1]["n"]
        calls = [i for _b, i in F.calls() if wrapper in (F.nodes[i].get("fn") or "")]
        rep.need(len(calls) == 1, "%s: %d %s calls" % (fn, len(calls), wrapper))
        nd = F.nodes[calls[0]]
        got = canon.expr(F, nd["a"][1])
        fo = F.field_of(seq._through_pointer_temp(F, nd["a"][0]))
        rep.ob("R10", "%s applies %s to ABTI_thread::request with %s" % (fn, wrapper, want.format(p=reqp)),
               fo == ("ABTI_thread", "request") and got == want.format(p=reqp),
               "%s(%s, %s)" % (nd["fn"], F.render(nd["a"][0]), got), loc=F.loc(calls[0]), site="%s/mask" % fn)


def rule_R12(P, rep):
    """Request words hold several independent bits (a joiner sets REQ_JOIN while a migration is pending): every branch on
    one tests bits with `&`; comparing the whole word with one request constant silently drops the request whenever a
    second one is pending."""
    from abtverif import ctrldep
    n = 0
    for F in sorted(P.functions.values(), key=lambda f: (f.file, f.line)):
        for bid, B in sorted(F.blocks.items()):
            if B.tc is None or B.tk == "SwitchStmt":
                continue
            for leaf in ctrldep._operands(F, B.tc):
                lab, _flip = canon.cond(F, leaf)
                m = re.search(r"(ABTI_thread|ABTI_sched)::request\)*", lab)
                if not m:
                    continue
                rest = lab[m.end():].strip()
                n += 1
                eq = re.match(r"^(==|!=) (\d+)$", rest)
                bad = bool(eq) and int(eq.group(2)) != 0
                rep.ob("R12", "%s tests the request word %s::request bitwise (`%s`)" % (F.name, m.group(1), lab[:120]), not bad,
                       "the whole word is compared with one request constant: the test fails as soon as another request "
                       "(join, cancel, ...) is pending too", loc=F.loc(leaf), site="%s/request-test/%s" % (F.name, rest[:20]))
    rep.need(n >= 4, "only %d branches on a request word" % n)


def run(P, rep, tier):
    common.rule_X9(P, rep, fields=[('ABTI_thread', 'request')])
    common.rule_X4(P, rep)
    common.run_shared(P, rep, which=("X1",))
    rule_R1(P, rep)
    rule_R2(P, rep)
    rule_R3(P, rep)
    rule_R4(P, rep)
    rule_R5(P, rep)
    from . import C03
    common.borrow(rep, P, C03.rule_R1, "R6")
    from . import C06
    common.borrow(rep, P, C06.rule_R1_R3_R4, "R7")
    from . import C01
    common.borrow(rep, P, C01.rule_R5, "R8")
    common.borrow(rep, P, C02.rule_R4_R5, "R9", only=("R5",))
    rule_R10(P, rep)
    common.borrow(rep, P, C03.rule_R3_R4, "R11", only=("R4",))
    rule_R12(P, rep)
    from . import C13
    common.borrow(rep, P, C13.rule_R2, "R13")
    common.borrow(rep, P, C03.rule_R7, "R14")
