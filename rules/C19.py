"""C19 -- timed waits respect their deadline and never damage the waiter queue
(structural part)."""
import re

from abtverif import canon, cfg, locks, seq
from abtverif.seq import show, has_if
from . import common, C05
from .C04 import lock_key_is

EXPLANATION = (
    "Decides on every path of ABTI_waitlist_wait_timedout_and_unlock that the timeout code (everything behind a "
    "passed deadline test, however it is reached: goto label, early return or helper) is entered only "
    "behind a true `now >= target_time` test and with the wait-list lock held, that is_timedout is computed "
    "under that lock from the waiter's state, that all unlink stores happen under the lock (R1); that the unlink "
    "code distinguishes head / middle / tail and repairs head, tail, predecessor and successor links in each "
    "case (R2); that the timed enqueue records the back link the unlink relies on (R3); that the busy-waiting "
    "pop_wait / pop_timedwait of FIFO and RANDWS read the clock on every loop iteration and have a deadline exit "
    "(R4); R5 = return mapping of ABT_cond_timedwait.  Deadline accuracy and which waiter a later signal wakes "
    "are not decided.")
DECLINED = ["deadline accuracy / behaviour under a virtual clock", "which waiter a later signal wakes"]
ASSUMPTIONS = ["ABTI_get_wtime is monotonic enough for the deadline comparison"]
RULES_DOC = dict(common.SHARED_DOC)
RULES_DOC["X4"] = common.X4_DOC
RULES_DOC["R6"] = "= C05.R1: the timed wait releases the mutex and enqueues inside one critical section of the condition's lock (a signal cannot fall between them and be lost until the timeout)"
RULES_DOC["R7"] = "= C07.R6: the blocking pool pushes signal under the mutex for every push (each of several waiters in pop_wait / pop_timedwait is woken by its own push)"
RULES_DOC["R8"] = "= C07.R1: the waiting pops of the shared pools release the pool lock on every path (a waiter that finds the queue empty does not leave with the lock)"
RULES_DOC["X5"] = common.X5_DOC
RULES_DOC["X6"] = common.X6_DOC
RULES_DOC["R9"] = "the absolute deadline of ABT_cond_timedwait is tv_sec + tv_nsec scaled by 1e-9, with both members of the caller's timespec used unmodified (no modulo or clamping of tv_nsec: an un-normalised timespec still means the instant it names)"
RULES_DOC["R12"] = "= C14.R10: the generic timed pop converts the unit it received through ABTI_unit_get_thread (a user-defined pool's unit popped by a blocking pop is delivered, not reinterpreted)"
RULES_DOC["R11"] = "= C07.R4: the waiting pops take ONE unit from the end the context selects (all pop variants of a pool agree): a blocking pop that removes two units and returns one loses the unit that was pushed to wake it"
RULES_DOC["R10"] = "= C05.R2: signal and broadcast look at the wait list only under the condition's lock (a waiter between its mutex release and its enqueue is not missed -- it would otherwise sleep until its timeout)"
RULES_DOC.update({
    "R1": "timeout code: reached only after now >= target_time, with the lock held; is_timedout (= state != READY) and all unlink stores under the lock",
    "R2": "unlink distinguishes head/middle/tail and repairs p_head, p_tail, predecessor->p_next and successor->p_prev accordingly",
    "R3": "timed enqueue appends at the tail and records p_prev (NULL for an empty list)",
    "R4": "FIFO/RANDWS pop_wait and pop_timedwait: no loop iteration without reading the clock; a deadline test leads to the empty-handed return",
    "R5": "ABT_cond_timedwait returns ABT_ERR_COND_TIMEDOUT iff is_timedout (= C05.R6)",
})
VARIANTS = ["active_wait", "no_ext_thread", "no_linux_futex"]

WL = "src/include/abti_waitlist.h"
FN = "ABTI_waitlist_wait_timedout_and_unlock"
LIST_FIELDS = {"p_head", "p_tail", "p_next", "p_prev"}


HEAD, TAIL = "ABTI_waitlist::p_head", "ABTI_waitlist::p_tail"
STATE = "ABTI_thread::state"
READY_TEST = "(&%s) == ABT_THREAD_STATE_READY" % STATE


class _Anchors:
    """Name-independent anchors of the timed wait: the dummy waiter (the only local of type ABTI_thread), the
    deadline tests (`ABTI_get_wtime() < <the double parameter>`, whichever way round and whatever the local that
    holds the clock value is called) and the timeout code = everything reachable from a passed deadline test,
    entered at the first block that re-checks the waiter's state or touches the list."""

    def __init__(self, P, rep):
        F = self.F = P.fn(FN, WL)
        ws = sorted(set(v["n"] for nd in F.nodes if nd and nd.get("k") == "decl" for v in nd["vars"]
                        if v["t"].replace(" ", "") == "ABTI_thread"))
        rep.need(len(ws) == 1, "%s: dummy waiters of type ABTI_thread: %s" % (FN, ws))
        self.W = ws[0]
        self.wl = F.params[1]["n"]
        self.lockp = F.params[2]["n"]
        dl = [p["n"] for p in F.params if p["t"] == "double"]
        rep.need(len(dl) == 1, "%s: deadline parameters %s" % (FN, dl))
        self.DL = "ABTI_get_wtime() < %s" % dl[0]
        # deadline tests and, for each, the successor taken when the deadline has passed (label false)
        self.passed_edges = []
        for bid in sorted(cfg.reachable_blocks(F)):
            B = F.blocks[bid]
            if B.tc is None or B.tk == "SwitchStmt" or len(B.succs) != 2:
                continue
            aj, at = cfg.cond_atom(F, B.tc, True)
            lab, flip = canon.cond(F, aj)
            if lab == self.DL:
                on_true = (at != flip)          # value of the label on the true edge
                s = B.succs[1] if on_true else B.succs[0]
                if s is not None:
                    self.passed_edges.append((bid, s))
        rep.need(self.passed_edges, "%s: no deadline test `%s`" % (FN, self.DL))
        region = set()
        for _b, s in self.passed_edges:
            region |= cfg.reachable_blocks(F, s)
        rep.need(not any(b in region for b, _s in self.passed_edges), "the timeout code loops back to a deadline test")
        # entry blocks: first blocks (from a passed deadline) that re-check the state or touch the list
        self.entries = set()
        seen = set()
        st = [s for _b, s in self.passed_edges]
        while st:
            x = st.pop()
            if x in seen:
                continue
            seen.add(x)
            if any(self.is_unlink_event(i) for i in F.blocks[x].elems):
                self.entries.add(x)
                continue
            st.extend(s for s in F.blocks[x].succs if s is not None)
        rep.need(self.entries, "timeout code unreachable")
        self.after = set()
        for e in self.entries:
            self.after |= cfg.reachable_blocks(F, e)

    def is_list_store(self, nid):
        nd = self.F.nodes[nid]
        return nd.get("k") == "bin" and nd.get("asg") and (self.F.field_of(nd["lh"]) or ("", ""))[1] in LIST_FIELDS

    def is_state_read(self, nid):
        nd = self.F.nodes[nid]
        return nd.get("k") == "call" and (nd.get("fn") or "").startswith("ABTD_atomic_") and "_load_" in nd["fn"] and \
            bool(nd["a"]) and self.F.field_of(nd["a"][0]) == ("ABTI_thread", "state")

    def is_unlink_event(self, nid):
        return self.is_list_store(nid) or self.is_state_read(nid)

    def is_unlink_store(self, nid):
        """A list store that does not insert the dummy waiter: the enqueue only ever stores `&waiter` or writes
        the waiter's own links; anything else (head/tail moved elsewhere, a neighbour's link rewritten) unlinks."""
        if not self.is_list_store(nid):
            return False
        lh, rh = self.store((nid,))
        return rh != "&<waiter>" and lh not in ("<waiter>.p_next", "<waiter>.p_prev")

    def side(self, i):
        """Object-identifying rendering of a stored value / store target: rooted at the list parameter or the
        dummy waiter, locals resolved through their definitions."""
        F = self.F
        nd = F.nodes[F.strip(i)]
        if nd.get("cv") == 0 and nd.get("k") != "ref":
            return 0
        r = canon.rooted(F, i)
        # a local pointer to the dummy waiter: (&thread)->f is thread.f
        r = r.replace("&%s->" % self.W, "%s." % self.W)
        for name, tag in ((self.W, "<waiter>"), (self.wl, "<list>")):
            r = re.sub(r"(?<![A-Za-z0-9_>.])%s(?![A-Za-z0-9_])" % re.escape(name), tag, r)
        return r

    def store(self, tok):
        nd = self.F.nodes[tok[-1]]
        return (self.side(nd["lh"]), self.side(nd["rh"]))


def _operand(F, i):
    """The expression a truth-test atom examines (`!x`, `x == NULL`, `x != 0`, likely(x) -> x)."""
    while True:
        i = F.strip(i)
        nd = F.nodes[i]
        k = nd.get("k")
        if k == "un" and nd["op"] == "!":
            i = nd["e"]
        elif k == "call" and nd.get("fn") in ("__builtin_expect", "ABTU_likely", "ABTU_unlikely") and nd.get("a"):
            i = nd["a"][0]
        elif k == "bin" and nd["op"] in ("==", "!=") and F.nodes[F.strip(nd["rh"])].get("cv") == 0 and \
                F.nodes[F.strip(nd["rh"])].get("k") != "ref":
            i = nd["lh"]
        elif k == "bin" and nd["op"] in ("==", "!=") and F.nodes[F.strip(nd["lh"])].get("cv") == 0 and \
                F.nodes[F.strip(nd["lh"])].get("k") != "ref":
            i = nd["rh"]
        else:
            return i


def _unlink_cond(A):
    """Canonical labels of the tests of the timeout code."""
    def cond(t, F, node):
        if t.endswith(READY_TEST):
            return "ready"                      # is_timedout is `state != READY`: looked through, arrives flipped
        if STATE in t:
            return "state:" + t
        if " == " in t and set(t.split(" == ")) == {"&" + A.W, HEAD}:
            return "is-head"
        if t == "ABTI_thread::p_next":
            r = A.side(_operand(F, node))
            return "has-next" if r == "<waiter>.p_next" else "next-of:%s" % r
        if t == "ABTI_thread::type":
            return "type-not-ext"               # thread.type != ABTI_THREAD_TYPE_EXT (0)
        if t.startswith("ABTI_thread::type =="):
            return "type:" + t
        return None
    return cond


def _timeout_paths(A):
    """Token paths of the timeout code (from each of its entry blocks to the return)."""
    sel = seq.Sel(fields=LIST_FIELDS, conds=_unlink_cond(A), canon=True)
    out = {}
    for e in sorted(A.entries):
        for p in seq.sequences(A.F, sel, max_len=40, start=e):
            if p[1] == "ret":
                out[seq.strip_ids(p[0]) + (p[2],)] = p
    return [out[k] for k in sorted(out, key=repr)]


def rule_R1(P, rep):
    A = _Anchors(P, rep)
    F, lockp = A.F, A.lockp

    class TS(locks.LockTS):
        def __init__(self, P):
            locks.LockTS.__init__(self, P, entry_held=[lockp])
            self.entries = []

        def enter(self, F, bid, st, ctx):
            if bid in A.entries:
                self.entries.append(st[0])

    class Deadline(cfg.Typestate):
        """state: was the most recent deadline test (since the clock was last read) true?"""
        init = False

        def __init__(self):
            self.entries = []
            self.at = {}

        def event(self, F, nid, st, ctx):
            self.at.setdefault(nid, set()).add(st)
            nd = F.nodes[nid]
            if nd.get("k") == "call" and nd.get("fn") == "ABTI_get_wtime":
                return False
            return st

        def edge(self, F, bid, key, truth, st, ctx):
            if ctx.cond_node is not None:
                lab, flip = canon.cond(F, ctx.cond_node)
                if lab == A.DL:
                    return not (bool(ctx.cond_val) != flip)
            return st

        def enter(self, F, bid, st, ctx):
            if bid in A.entries:
                self.entries.append(st)

    def has_lock(held):
        # the caller's lock, also when it is used through a local copy of the pointer
        return any(k == lockp or lock_key_is(F, k, lockp) for k in held)

    ts = TS(P)
    cfg.simulate(F, ts)
    dts = Deadline()
    cfg.simulate(F, dts)
    rep.need(ts.entries and dts.entries, "timeout code unreachable")
    ok = all(has_lock(held) for held in ts.entries)
    rep.ob("R1", "the timeout code is entered with %s held on every path (%d entry states, %d deadline exits)" %
           (lockp, len(ts.entries), len(A.passed_edges)), ok, "lock sets at the entry: %s" % sorted(sorted(h) for h in ts.entries),
           loc=F.file, site="timeout/lock-held")
    ok = all(f is True for f in dts.entries)
    rep.ob("R1", "the timeout code is entered only after `now >= deadline` was true", ok,
           "deadline facts at the entry: %s" % sorted(str(f) for f in dts.entries), loc=F.file, site="timeout/deadline-guard")
    # unlink stores and the state re-check of the timeout code
    n = 0
    for bid in sorted(cfg.reachable_blocks(F)):
        for nid in F.block_events(bid):
            # (an unlink store counts wherever it is: a copy of the timeout code that is reached without a passed
            # deadline test, e.g. through a helper called from the wrong place, is not exempt)
            if not (A.is_unlink_store(nid) or (bid in A.after and A.is_unlink_event(nid))):
                continue
            n += 1
            helds = ts.at.get(nid, set())
            passed = dts.at.get(nid, set())
            what = ("%s = %s" % A.store((nid,))) if A.is_list_store(nid) else "re-check of the waiter's state (%s)" % F.nodes[nid]["fn"]
            why = []
            if not (bool(helds) and all(has_lock(h) for h in helds)):
                why.append("lock sets: %s" % sorted(sorted(h) for h in helds))
            if not (bool(passed) and all(f is True for f in passed)):
                why.append("reached without a passed deadline test (deadline facts: %s)" % sorted(str(f) for f in passed))
            rep.ob("R1", "%s executes under the wait-list lock" % what, not why, "; ".join(why),
                   loc=F.loc(nid), site="timeout/under-lock/%s" % what)
    rep.need(n >= 5, "only %d unlink stores found in the timeout code" % n)
    # the verdict (return value and the decision to unlink) is `state != READY` as re-checked in the timeout code
    ps = _timeout_paths(A)
    rep.need(len(ps) >= 2, "timeout code has only %d paths" % len(ps))
    why = []
    for toks, kind, rv, rtxt in ps:
        rd = [t for t in toks if t[0] == "if" and (t[1] == "ready" or t[1].startswith("state:"))]
        # (the ternary that computes the verdict and the later test of the local holding it are the same test)
        if not rd or any(t[1] != "ready" or t[2] != rd[0][2] for t in rd):
            why.append("state tests %s" % [t[1:3] for t in rd])
        elif rv != (0 if rd[0][2] else 1):
            why.append("returns %s when state %s READY" % (rv if rv is not None else rtxt, "==" if rd[0][2] else "!="))
    rep.ob("R1", "is_timedout is derived from `state != READY`", not why, "; ".join(sorted(set(why))),
           loc="%s:%d" % (F.file, F.line), site="timeout/is_timedout")
    # thread.type is the EXT constant, stored once before the timeout code (used by R2 as an entry fact)
    st = [(b, i, lh, rh) for b, i, lh, rh in F.stores() if F.field_of(lh) == ("ABTI_thread", "type") and
          A.side(lh) == "<waiter>.type"]
    ok = len(st) == 1 and F.nodes[F.strip(st[0][3])].get("cv") == 0 and st[0][0] not in A.after
    rep.ob("R1", "the dummy waiter's type is stored once (ABTI_THREAD_TYPE_EXT) before the timeout code", ok,
           str([F.render(i) for b, i, lh, rh in st]), loc=F.file, site="timeout/thread.type")
    rep.min_instances("R1", 8)


def rule_R2(P, rep):
    A = _Anchors(P, rep)
    F = A.F
    ps = _timeout_paths(A)
    # entry fact established by R1: thread.type == ABTI_THREAD_TYPE_EXT (0)
    ps = [p for p in ps if not has_if(p[0], "type-not-ext", True)]
    rep.need(len(ps) >= 5, "timeout code has only %d paths" % len(ps))
    W_NEXT, W_PREV = "<waiter>.p_next", "<waiter>.p_prev"
    cases = set()
    for toks, kind, rv, rtxt in ps:
        stores = [A.store(t) for t in toks if t[0] == "st"]
        why = []
        odd = [t[1] for t in toks if t[0] == "if" and t[1].split(":")[0] in ("state", "next-of", "type")]
        if odd:
            why.append("unrecognised test %s" % odd[0])
        if not has_if(toks, "ready", False):
            case = "signalled"
            if stores:
                why.append("a signalled waiter must not touch the list")
        elif has_if(toks, "is-head", True):
            if has_if(toks, "has-next", False):
                case = "head+tail"
                want = {("<list>->p_head", W_NEXT), ("<list>->p_tail", 0)}
            else:
                case = "head"
                want = {("<list>->p_head", W_NEXT)}
            if set(stores) != want or len(stores) != len(want):
                why.append("stores %s, expected %s" % (stores, sorted(want, key=str)))
        else:
            # the predecessor link is written through thread.p_prev, the successor's through thread.p_next
            if has_if(toks, "has-next", True):
                case = "middle"
                want = {(W_PREV + "->p_next", W_NEXT), (W_NEXT + "->p_prev", W_PREV)}
            else:
                case = "tail"
                want = {(W_PREV + "->p_next", W_NEXT), ("<list>->p_tail", W_PREV)}
            if set(stores) != want or len(stores) != len(want):
                why.append("stores %s, expected %s" % (stores, sorted(want, key=str)))
        cases.add(case)
        rep.ob("R2", "unlink case '%s': [%s]" % (case, show(toks)), not why, "; ".join(why),
               loc="%s:%d" % (F.file, F.line), site="unlink/%s" % case)
    missing = {"signalled", "head", "head+tail", "middle", "tail"} - cases
    rep.ob("R2", "unlink code covers head, head+tail, middle, tail and the signalled case", not missing,
           "missing cases: %s" % sorted(missing), loc=F.file, site="unlink/coverage")
    rep.min_instances("R2", 6)


def rule_R3(P, rep):
    A = _Anchors(P, rep)
    F = A.F
    # only the straight-line enqueue prefix: stop at the first lock/yield/clock event by cutting the sequences
    ps = seq.sequences(F, seq.Sel(fields=LIST_FIELDS, conds=lambda t: "nonempty" if t == HEAD else None,
                                  calls={"ABTI_get_wtime", "ABTI_ythread_yield"}, canon=True), max_len=120)
    prefixes = set()
    for toks, kind, rv, rtxt in ps:
        if kind != "ret":
            continue
        pre = []
        for t in toks:
            if t[0] in ("acq", "rel", "xfer", "call"):
                break
            pre.append(("st",) + A.store(t) if t[0] == "st" else tuple(t[:3]))
        prefixes.add(tuple(pre))
    rep.need(len(prefixes) == 2, "enqueue prefix has %d shapes" % len(prefixes))
    ME, W_NEXT, W_PREV = "&<waiter>", "<waiter>.p_next", "<waiter>.p_prev"
    for pre in sorted(prefixes, key=str):
        stores = [t[1:] for t in pre if t[0] == "st"]
        empty = has_if(pre, "nonempty", False)
        if empty:
            want = [(W_NEXT, 0), ("<list>->p_head", ME), (W_PREV, 0), ("<list>->p_tail", ME)]
        else:
            want = [(W_NEXT, 0), ("<list>->p_tail->p_next", ME), (W_PREV, "<list>->p_tail"), ("<list>->p_tail", ME)]
        ok = sorted(stores, key=str) == sorted(want, key=str)
        if ok and not empty:
            # the back link must be read before the tail is overwritten
            ok = stores.index((W_PREV, "<list>->p_tail")) < stores.index(("<list>->p_tail", ME))
        rep.ob("R3", "timed enqueue on %s list: %s" % ("an empty" if empty else "a non-empty", stores), ok,
               "expected %s" % want, loc="%s:%d" % (F.file, F.line), site="enqueue/%s" % ("empty" if empty else "nonempty"))


def _r4_cond(F):
    """Deadline test of a busy-waiting pop: `<the double parameter> < <clock-derived value>` (true = time is up),
    whatever the locals holding the clock values are called and whichever way round the test is written."""
    lim = [p["n"] for p in F.params if p["t"] == "double"]

    def cond(t):
        if "ABTI_get_wtime()" not in t:
            return None
        if lim and t.startswith(lim[0] + " < ") and "ABTI_get_wtime()" in t[len(lim[0]) + 3:]:
            return "time-is-up"
        return "clock:" + t
    return cond


def rule_R4(P, rep):
    n = 0
    for file in ("src/pool/fifo.c", "src/pool/randws.c"):
        for name in ("pool_pop_wait", "pool_pop_timedwait"):
            F = P.fn(name, file)
            R = cfg.reachable_blocks(F)
            clock = {bid for bid in R if any(F.nodes[i].get("fn") == "ABTI_get_wtime" for i in F.blocks[bid].elems)}
            # is there a cycle that avoids every clock-reading block?
            cyc = _has_cycle(F, R - clock)
            rep.ob("R4", "%s:%s reads the clock on every loop iteration" % (file, name), not cyc and bool(clock),
                   "a cycle through blocks %s never calls ABTI_get_wtime" % cyc if cyc else "", loc="%s:%d" % (F.file, F.line),
                   site="%s:%s/clock" % (file, name))
            # deadline exit: some branch whose condition reads a clock-derived value leads to a return of the NULL handle
            sel = seq.Sel(calls={"ABTI_get_wtime"}, conds=_r4_cond(F), rets=True, locks=False, canon=True)
            ps = seq.sequences(F, sel, max_len=60)
            # (the return follows the true test directly and yields a constant, i.e. the NULL handle)
            def exits(toks, rv):
                last = max([i for i, t in enumerate(toks) if t[0] == "if" and t[1] == "time-is-up" and t[2]] + [-1])
                return last >= 0 and rv is not None and all(t[0] == "ret" for t in toks[last + 1:])
            dl = [p for p in ps if p[1] == "ret" and exits(p[0], p[2])]
            rep.ob("R4", "%s:%s has a deadline exit (time test true -> empty-handed return)" % (file, name), bool(dl),
                   "no returning path is guarded by a true elapsed/abstime comparison", loc="%s:%d" % (F.file, F.line),
                   site="%s:%s/deadline" % (file, name))
            # a timed pop looks at the queue at least once before it gives up (a deadline that has already passed still
            # returns a unit that is there)
            sel2 = seq.Sel(calls={"thread_queue_acquire_spinlock_if_not_empty", "thread_queue_pop_head", "thread_queue_pop_tail",
                                  "thread_queue_is_empty"}, rets=True, locks=True, canon=True)
            bad = []
            for toks, kind, rv, rtxt in seq.sequences(F, sel2, max_len=60):
                if kind != "ret" or rv is None:
                    continue        # returns a unit: not the empty-handed exit
                if not any(t[0] in ("call", "try") for t in toks):
                    bad.append(show(toks))
            rep.ob("R4", "%s:%s attempts a pop before every empty-handed return" % (file, name), not bad,
                   "gives up without looking at the queue: %s" % bad[:2], loc="%s:%d" % (F.file, F.line),
                   site="%s:%s/attempt" % (file, name))
            n += 1
    rep.min_instances("R4", 8)


def _has_cycle(F, nodes):
    color = {}
    def dfs(u, stack):
        color[u] = 1
        for s in F.blocks[u].succs:
            if s is None or s not in nodes:
                continue
            if color.get(s) == 1:
                return stack + [u, s]
            if color.get(s) is None:
                r = dfs(s, stack + [u])
                if r:
                    return r
        color[u] = 2
        return None
    for n in sorted(nodes):
        if color.get(n) is None:
            r = dfs(n, [])
            if r:
                return r
    return None


def rule_R9(P, rep):
    F = P.fn("convert_timespec_to_sec", "src/cond.c")
    rets = [F.nodes[i]["e"] for _b, i in F.all_events() if F.nodes[i].get("k") == "ret" and "e" in F.nodes[i]]
    rep.need(rets, "convert_timespec_to_sec returns nothing")
    # both members are used as they are: on the way from the member to the sum only scaling (casts, * and /) is applied
    pm = F.parent_map()
    members = [i for i, nd in enumerate(F.nodes) if nd and nd.get("k") == "mem" and nd.get("r") == "timespec" and
               nd["f"] in ("tv_sec", "tv_nsec") and F.block_of(i) is not None or
               (nd and nd.get("k") == "mem" and nd.get("r") == "timespec" and nd["f"] in ("tv_sec", "tv_nsec"))]
    seen = set()
    for m in members:
        f = F.nodes[m]["f"]
        seen.add(f)
        x = m
        bad = None
        while x in pm:
            p_ = pm[x]
            pn = F.nodes[p_]
            k = pn.get("k")
            if k in ("load", "cast"):
                x = p_
                continue
            if k == "bin" and not pn.get("asg") and pn["op"] in ("*", "/"):
                if "double" not in pn.get("t", "double") and "float" not in pn.get("t", ""):
                    # scaled in an integer type: seconds overflow for far deadlines, nanoseconds lose their fraction
                    bad = "integer " + pn["op"]
                    break
                x = p_
                continue
            if k == "bin" and not pn.get("asg") and pn["op"] in ("%", "&", "-", ">>", "<<", "|", "^"):
                bad = pn["op"]
            if k == "cond":
                bad = "?:"
            break
        rep.ob("R9", "convert_timespec_to_sec uses timespec::%s unmodified (scaled at most)" % f, bad is None,
               "`%s` is applied to %s: an un-normalised timespec (or a deadline centuries ahead, e.g. the wait-forever idiom "
               "tv_sec = INT64_MAX) no longer names the instant the caller meant" % (bad, f),
               loc=F.loc(m), site="timespec/%s" % f)
    rep.ob("R9", "convert_timespec_to_sec reads both members of the timespec", seen == {"tv_sec", "tv_nsec"}, str(sorted(seen)),
           loc="%s:%d" % (F.file, F.line), site="timespec/members")
    callers = sorted(x.split(":")[-1] for x in P.callers().get("src/cond.c:convert_timespec_to_sec", []))
    rep.ob("R9", "ABT_cond_timedwait derives its deadline through that conversion", "ABT_cond_timedwait" in callers, str(callers),
           loc="src/cond.c", site="timespec/used")


def run(P, rep, tier):
    common.rule_X6(P, rep)
    common.rule_widths(P, rep, [('ABTD_futex_multiple', 'val')])
    common.rule_X4(P, rep)
    common.run_shared(P, rep, which=("X2", "X3"))
    rule_R1(P, rep)
    rule_R2(P, rep)
    rule_R3(P, rep)
    rule_R4(P, rep)
    C05.rule_R6(P, rep)
    # present R6 of C05 under this property's numbering
    for o in rep.obligations:
        if o["rule"] == "R6":
            o["rule"] = "R5"
    for v in rep.violations:
        if v["rule"] == "R6":
            v["rule"] = "R5"
    if "R6" in rep.instances:
        rep.instances["R5"] = rep.instances.pop("R6")
    common.borrow(rep, P, C05.rule_R1, "R6")
    from . import C07
    common.borrow(rep, P, C07.rule_R6, "R7")
    common.borrow(rep, P, C07.rule_R1_R5, "R8", only=("R1",))
    rule_R9(P, rep)
    common.borrow(rep, P, C05.rule_R2, "R10")
    common.borrow(rep, P, C07.rule_R4, "R11")
    from . import C14
    common.borrow(rep, P, C14.rule_R10, "R12")
