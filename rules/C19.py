"""C19 -- timed waits respect their deadline and never damage the waiter queue
(structural part)."""
from abtverif import cfg, locks, seq
from abtverif.seq import show, has_if
from . import common, C05

EXPLANATION = (
    "Decides on every path of ABTI_waitlist_wait_timedout_and_unlock that the timeout label is reached only "
    "behind a true `cur_time >= target_time` test and with the wait-list lock held, that is_timedout is computed "
    "under that lock from the waiter's state, that all unlink stores happen under the lock (R1); that the unlink "
    "code distinguishes head / middle / tail and repairs head, tail, predecessor and successor links in each "
    "case (R2); that the timed enqueue records the back link the unlink relies on (R3); that the busy-waiting "
    "pop_wait / pop_timedwait of FIFO and RANDWS read the clock on every loop iteration and have a deadline exit "
    "(R4); R5 = return mapping of ABT_cond_timedwait.  Deadline accuracy and which waiter a later signal wakes "
    "are not decided.")
DECLINED = ["deadline accuracy / behaviour under a virtual clock", "which waiter a later signal wakes"]
ASSUMPTIONS = ["ABTI_get_wtime is monotonic enough for the deadline comparison"]
RULES_DOC = dict(common.SHARED_DOC)
RULES_DOC.update({
    "R1": "timeout label: reached only after cur_time >= target_time, with the lock held; is_timedout and all unlink stores under the lock",
    "R2": "unlink distinguishes head/middle/tail and repairs p_head, p_tail, predecessor->p_next and successor->p_prev accordingly",
    "R3": "timed enqueue appends at the tail and records p_prev (NULL for an empty list)",
    "R4": "FIFO/RANDWS pop_wait and pop_timedwait: no loop iteration without reading the clock; a deadline test leads to the empty-handed return",
    "R5": "ABT_cond_timedwait returns ABT_ERR_COND_TIMEDOUT iff is_timedout (= C05.R6)",
})
VARIANTS = ["active_wait", "no_ext_thread", "no_linux_futex"]

WL = "src/include/abti_waitlist.h"
FN = "ABTI_waitlist_wait_timedout_and_unlock"
LIST_FIELDS = {"p_head", "p_tail", "p_next", "p_prev"}


def _label_block(F, name):
    bs = [b for b in F.blocks.values() if b.label == name]
    return bs[0].id if len(bs) == 1 else None


def rule_R1(P, rep):
    F = P.fn(FN, WL)
    lb = _label_block(F, "timeout")
    rep.need(lb is not None, "label 'timeout' not found in %s" % FN)
    lockp = F.params[2]["n"]

    class TS(locks.LockTS):
        def __init__(self, P):
            locks.LockTS.__init__(self, P, entry_held=[lockp])
            self.entries = []

        def enter(self, F, bid, st, ctx):
            if bid == lb:
                self.entries.append((st[0], ctx.facts.get("cur_time >= target_time")))

    ts = TS(P)
    cfg.simulate(F, ts)
    rep.need(ts.entries, "timeout label unreachable")
    gotos = [b for b in F.blocks.values() if b.goto == "timeout"]
    rep.need(len(gotos) >= 1, "no goto timeout")
    ok = all(lockp in held for held, fact in ts.entries)
    rep.ob("R1", "timeout label is entered with %s held on every path (%d entry states, %d gotos)" %
           (lockp, len(ts.entries), len(gotos)), ok, "lock sets at the label: %s" % sorted(sorted(h) for h, f in ts.entries),
           loc=F.file, site="timeout/lock-held")
    ok = all(fact is True for held, fact in ts.entries)
    rep.ob("R1", "timeout label is entered only after `cur_time >= target_time` was true", ok,
           "facts at the label: %s" % sorted(str(f) for h, f in ts.entries), loc=F.file, site="timeout/deadline-guard")
    # nodes after the label
    after = cfg.reachable_blocks(F, lb)
    n = 0
    for bid in sorted(after):
        for nid in F.block_events(bid):
            nd = F.nodes[nid]
            k = nd.get("k")
            is_list_store = (k == "bin" and nd.get("asg") and (F.field_of(nd["lh"]) or ("", ""))[1] in LIST_FIELDS)
            is_timedout_decl = k == "decl" and any(v["n"] == "is_timedout" for v in nd["vars"])
            if not (is_list_store or is_timedout_decl):
                continue
            n += 1
            helds = ts.at.get(nid, set())
            rep.ob("R1", "%s executes under the wait-list lock" % F.render(nid)[:90],
                   bool(helds) and all(lockp in h for h in helds), "lock sets: %s" % sorted(sorted(h) for h in helds),
                   loc=F.loc(nid), site="timeout/under-lock/%s" % F.render(nid)[:60])
            if is_timedout_decl:
                txt = F.render(nid)
                ok = "thread.state" in txt and "ABT_THREAD_STATE_READY" in txt and "!=" in txt
                rep.ob("R1", "is_timedout is derived from `state != READY`", ok, txt, loc=F.loc(nid),
                       site="timeout/is_timedout")
    rep.need(n >= 5, "only %d unlink stores found after the label" % n)
    # thread.type is the EXT constant, stored once before the label (used by R2 as an entry fact)
    st = [(b, i, lh, rh) for b, i, lh, rh in F.stores() if F.render(lh) == "thread.type"]
    ok = len(st) == 1 and F.nodes[F.strip(st[0][3])].get("cv") == 0 and st[0][0] not in after
    rep.ob("R1", "the dummy waiter's type is stored once (ABTI_THREAD_TYPE_EXT) before the timeout code", ok,
           str([F.render(i) for b, i, lh, rh in st]), loc=F.file, site="timeout/thread.type")
    rep.min_instances("R1", 8)


def rule_R2(P, rep):
    F = P.fn(FN, WL)
    lb = _label_block(F, "timeout")
    sel = seq.Sel(fields=LIST_FIELDS,
                  conds=lambda t: t in ("is_timedout", "p_waitlist->p_head == &thread", "thread.p_next") or
                  t.startswith("thread.type"))
    ps = [p for p in seq.sequences(F, sel, max_len=40, start=lb) if p[1] == "ret"]
    # entry fact established by R1: thread.type == ABTI_THREAD_TYPE_EXT (0)
    ps = [p for p in ps if not any(t[0] == "if" and t[1].startswith("thread.type") and
                                   (("== " in t[1]) != t[2]) for t in p[0])]
    rep.need(len(ps) >= 5, "timeout code has only %d paths" % len(ps))
    cases = set()
    for toks, kind, rv, rtxt in ps:
        stores = [(t[1], t[3]) for t in toks if t[0] == "st"]
        why = []
        if not has_if(toks, "is_timedout", True):
            case = "signalled"
            if stores:
                why.append("a signalled waiter must not touch the list")
        elif has_if(toks, "p_waitlist->p_head == &thread", True):
            if has_if(toks, "thread.p_next", False):
                case = "head+tail"
                want = {("ABTI_waitlist::p_head", "thread.p_next"), ("ABTI_waitlist::p_tail", 0)}
            else:
                case = "head"
                want = {("ABTI_waitlist::p_head", "thread.p_next")}
            if set(stores) != want or len(stores) != len(want):
                why.append("stores %s, expected %s" % (stores, sorted(want, key=str)))
        else:
            if has_if(toks, "thread.p_next", True):
                case = "middle"
                want = {("ABTI_thread::p_next", "thread.p_next"), ("ABTI_thread::p_prev", "thread.p_prev")}
            else:
                case = "tail"
                want = {("ABTI_thread::p_next", "thread.p_next"), ("ABTI_waitlist::p_tail", "thread.p_prev")}
            if set(stores) != want or len(stores) != len(want):
                why.append("stores %s, expected %s" % (stores, sorted(want, key=str)))
            # the predecessor link must be written through thread.p_prev, the successor's through thread.p_next
            for t in toks:
                if t[0] == "st" and t[1] == "ABTI_thread::p_next" and F.render(F.nodes[t[4]]["lh"]) != "thread.p_prev->p_next":
                    why.append("p_next written on %s" % F.render(F.nodes[t[4]]["lh"]))
                if t[0] == "st" and t[1] == "ABTI_thread::p_prev" and F.render(F.nodes[t[4]]["lh"]) != "thread.p_next->p_prev":
                    why.append("p_prev written on %s" % F.render(F.nodes[t[4]]["lh"]))
        cases.add(case)
        rep.ob("R2", "unlink case '%s': [%s]" % (case, show(toks)), not why, "; ".join(why),
               loc="%s:%d" % (F.file, F.line), site="unlink/%s" % case)
    missing = {"signalled", "head", "head+tail", "middle", "tail"} - cases
    rep.ob("R2", "unlink code covers head, head+tail, middle, tail and the signalled case", not missing,
           "missing cases: %s" % sorted(missing), loc=F.file, site="unlink/coverage")
    rep.min_instances("R2", 6)


def rule_R3(P, rep):
    F = P.fn(FN, WL)
    sel = seq.Sel(fields=LIST_FIELDS, conds=lambda t: t == "p_waitlist->p_head == (void *)0", locks=False)
    lb = _label_block(F, "timeout")
    # only the straight-line enqueue prefix: stop at the first lock/yield/clock event by cutting the sequences
    ps = seq.sequences(F, seq.Sel(fields=LIST_FIELDS, conds=lambda t: t == "p_waitlist->p_head == (void *)0",
                                  calls={"ABTI_get_wtime", "ABTI_ythread_yield"}), max_len=120)
    prefixes = set()
    for toks, kind, rv, rtxt in ps:
        if kind != "ret":
            continue
        pre = []
        for t in toks:
            if t[0] in ("acq", "rel", "xfer", "call"):
                break
            pre.append(tuple(t[:4]))
        prefixes.add(tuple(pre))
    rep.need(len(prefixes) == 2, "enqueue prefix has %d shapes" % len(prefixes))
    for pre in sorted(prefixes, key=str):
        stores = [(t[1], t[3]) for t in pre if t[0] == "st"]
        empty = any(t[0] == "if" and t[2] for t in pre)
        if empty:
            want = [("ABTI_thread::p_next", 0), ("ABTI_waitlist::p_head", "&thread"), ("ABTI_thread::p_prev", 0),
                    ("ABTI_waitlist::p_tail", "&thread")]
        else:
            want = [("ABTI_thread::p_next", 0), ("ABTI_thread::p_next", "&thread"),
                    ("ABTI_thread::p_prev", "p_waitlist->p_tail"), ("ABTI_waitlist::p_tail", "&thread")]
        ok = sorted(stores, key=str) == sorted(want, key=str)
        if ok and not empty:
            # the back link must be read before the tail is overwritten
            ok = stores.index(("ABTI_thread::p_prev", "p_waitlist->p_tail")) < stores.index(("ABTI_waitlist::p_tail", "&thread"))
        rep.ob("R3", "timed enqueue on %s list: %s" % ("an empty" if empty else "a non-empty", stores), ok,
               "expected %s" % want, loc="%s:%d" % (F.file, F.line), site="enqueue/%s" % ("empty" if empty else "nonempty"))


def rule_R4(P, rep):
    n = 0
    for file in ("src/pool/fifo.c", "src/pool/randws.c"):
        for name in ("pool_pop_wait", "pool_pop_timedwait"):
            F = P.fn(name, file)
            R = cfg.reachable_blocks(F)
            clock = {bid for bid in R if any(F.nodes[i].get("fn") == "ABTI_get_wtime" for i in F.blocks[bid].elems)}
            # is there a cycle that avoids every clock-reading block?
            cyc = _has_cycle(F, R - clock)
            rep.ob("R4", "%s:%s reads the clock on every loop iteration" % (file, name), not cyc and bool(clock),
                   "a cycle through blocks %s never calls ABTI_get_wtime" % cyc if cyc else "", loc="%s:%d" % (F.file, F.line),
                   site="%s:%s/clock" % (file, name))
            # deadline exit: some branch whose condition reads a clock-derived value leads to a return of the NULL handle
            sel = seq.Sel(calls={"ABTI_get_wtime"}, conds=lambda t: "time" in t or "elapsed" in t, rets=True, locks=False)
            ps = seq.sequences(F, sel, max_len=60)
            dl = [p for p in ps if p[1] == "ret" and any(t[0] == "if" and t[2] and ("elapsed >" in t[1] or "ABTI_get_wtime() >" in t[1])
                                                        for t in p[0])]
            rep.ob("R4", "%s:%s has a deadline exit (time test true -> empty-handed return)" % (file, name), bool(dl),
                   "no returning path is guarded by a true elapsed/abstime comparison", loc="%s:%d" % (F.file, F.line),
                   site="%s:%s/deadline" % (file, name))
            n += 1
    rep.min_instances("R4", 8)


def _has_cycle(F, nodes):
    color = {}
    def dfs(u, stack):
        color[u] = 1
        for s in F.blocks[u].succs:
            if s is None or s not in nodes:
                continue
            if color.get(s) == 1:
                return stack + [u, s]
            if color.get(s) is None:
                r = dfs(s, stack + [u])
                if r:
                    return r
        color[u] = 2
        return None
    for n in sorted(nodes):
        if color.get(n) is None:
            r = dfs(n, [])
            if r:
                return r
    return None


def run(P, rep, tier):
    common.run_shared(P, rep, which=("X2", "X3"))
    rule_R1(P, rep)
    rule_R2(P, rep)
    rule_R3(P, rep)
    rule_R4(P, rep)
    C05.rule_R6(P, rep)
    # present R6 of C05 under this property's numbering
    for o in rep.obligations:
        if o["rule"] == "R6":
            o["rule"] = "R5"
    for v in rep.violations:
        if v["rule"] == "R6":
            v["rule"] = "R5"
    if "R6" in rep.instances:
        rep.instances["R5"] = rep.instances.pop("R6")
