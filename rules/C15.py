"""C15 -- descriptors and stacks: provenance pairing, ABA tags, locked external
pools (structural part)."""
import re

from abtverif import cfg, locks, seq, terms
from abtverif.seq import idx, is_call, show, has_if, macros_in
from . import common, C02

EXPLANATION = (
    "Decides that every block is returned to where it came from.  R1 (provenance pairing): each allocation path sets "
    "a memory-provenance flag whose family (MEMPOOL/MALLOC, descriptor/stack) matches the allocator that produced the "
    "block; each arm of ABTI_mem_free_thread releases exactly once with the inverse deallocator of that family and "
    "role; for the malloc'ed descriptor+stack the pointer freed is, as a reconstructed term over the stored stack top "
    "and size, exactly the pointer malloc returned (same rounding on both sides); large pages and descriptors are "
    "released by the deallocator matching their recorded type/tag.  R2: every tagged-pointer update of the lock-free "
    "LIFO uses the pointer and tag loaded in the same iteration as expected value and tag+1 as the new tag.  R3: the "
    "pools shared by external threads are touched only under their spinlock, the global pool's partial bucket only "
    "under partial_bucket_lock.  R4: user stacks must be 8-byte aligned (API check) and start-up aligns them to 16 "
    "(= C02.A4).  Non-overlap and conservation of the memory pool's bucket arithmetic are value properties and are "
    "not decided.")
DECLINED = ["non-overlap, conservation and bucket hand-over arithmetic of the memory pool (value properties)",
            "'at least that much usable stack'"]
ASSUMPTIONS = ["malloc/free/mmap/munmap behave as specified"]
RULES_DOC = dict(common.SHARED_DOC)
RULES_DOC.update({
    "R1": "provenance pairing: flag family = allocator family; free arm = inverse deallocator, exactly once; freed pointer term = allocated pointer term",
    "R2": "sync LIFO: CAS/store expects the pointer+tag loaded in the same iteration and installs tag+1",
    "R3": "external-thread pools only under their spinlock; partial_bucket only under partial_bucket_lock",
    "R4": "ABT_thread_attr_set_stack rejects addresses that are not 8-byte aligned; start-up alignment = C02.A4",
})
VARIANTS = ["no_ext_thread", "lazy_stack"]
MH = "src/include/abti_mem.h"


def _norm(t):
    return re.sub(r"[()\s]", "", t)


def _flag_of(F, node):
    ms = [m for m in macros_in(F, node) if m.startswith("ABTI_THREAD_TYPE_MEM_")]
    return sorted(ms)


def _family(flag):
    f = flag.replace("ABTI_THREAD_TYPE_MEM_", "")
    fam = "mempool" if f.startswith("MEMPOOL") else "malloc"
    role = "stack" if f.endswith("DESC_STACK") else "desc"
    return fam, role


ALLOC_FAMILY = {
    "ABTU_malloc": ("malloc", None),
    "ABTI_mem_alloc_ythread_malloc_desc_stack_impl": ("malloc", "stack"),
    "ABTI_mem_alloc_ythread_mempool_desc_stack_impl": ("mempool", "stack"),
}


def rule_R1(P, rep):
    # (a) flag stores in allocation functions
    n = 0
    for F in sorted(P.functions.values(), key=lambda f: f.line):
        if F.file != MH or "alloc" not in F.name:
            continue
        sel = seq.Sel(calls=lambda c: c in ALLOC_FAMILY or c == "ABTI_mem_pool_alloc", fields={"type"},
                      conds=lambda t: t in ("use_lazy_stack", "p_local_xstream") or "p_local_xstream" in t)
        for toks, kind, rv, rtxt in seq.sequences(F, sel, max_len=40):
            sts = [t for t in toks if t[0] == "st" and t[1] == "ABTI_thread::type" and t[2] == "="]
            if kind != "ret" or not sts:
                continue
            st = sts[-1]
            node = F.nodes[st[-1]]["rh"]
            # conditional expression: take the arm chosen on this path through the constant value
            flags = _flag_of(F, node)
            val = st[3]
            chosen = [fl for fl in flags if P_flag_value(P, F, fl) == val] if isinstance(val, int) else flags
            if len(chosen) != 1:
                rep.ob("R1", "%s: provenance flag store is a single known flag" % F.name, False, "flags %s value %s" % (flags, val),
                       loc=F.loc(st[-1]), site="%s/flag-unknown" % F.name)
                continue
            flag = chosen[0]
            fam, role = _family(flag)
            allocs = [t for t in toks[:toks.index(st)] if t[0] == "call"]
            why = []
            if len(allocs) != 1:
                why.append("%d allocator calls before the flag store" % len(allocs))
            else:
                a = allocs[0]
                if a[1] == "ABTI_mem_pool_alloc":
                    afam = "mempool"
                    arole = "stack" if "mem_pool_stack" in a[2][0] else "desc"
                else:
                    afam, arole = ALLOC_FAMILY[a[1]]
                if afam != fam:
                    why.append("block from %s (%s) is tagged %s" % (a[1], afam, flag))
                if arole and role == "stack" and arole != "stack":
                    why.append("descriptor-pool block tagged as descriptor+stack")
                if arole == "stack" and role != "stack":
                    why.append("stack block tagged as descriptor-only")
            n += 1
            rep.ob("R1", "%s tags a block from %s as %s" % (F.name, allocs[0][1] if allocs else "?", flag.replace("ABTI_THREAD_TYPE_MEM_", "")),
                   not why, "; ".join(why), loc=F.loc(st[-1]), site="%s/%s/%s" % (F.name, flag, allocs[0][1] if allocs else "?"))
    rep.need(n >= 5, "only %d provenance-flag stores found" % n)
    # (b) free arms
    F = P.fn("ABTI_mem_free_thread", MH)

    def conds(text, F, node):
        fl = _flag_of(F, node)
        if fl:
            return "FLAG:" + ",".join(fl)
        if "p_local_xstream" in text or "p_ythread" == text:
            return text
        return False
    dealloc = {"ABTI_mem_pool_free", "ABTU_free", "ABTI_mem_free_ythread_desc_mempool_impl", "ABTI_mem_free_nythread_mempool_impl"}
    sel = seq.Sel(calls=lambda c: c in dealloc, conds=conds)
    arms = set()
    for toks, kind, rv, rtxt in seq.sequences(F, sel, max_len=40):
        if kind != "ret":
            continue
        taken = [t for t in toks if t[0] == "if" and t[1].startswith("FLAG:") and t[2]]
        tested = [t for t in toks if t[0] == "if" and t[1].startswith("FLAG:")]
        d = [t for t in toks if t[0] == "call"]
        why = []
        if taken:
            flags = taken[0][1][5:].split(",")
            arm = "+".join(f.replace("ABTI_THREAD_TYPE_MEM_", "") for f in flags)
        else:
            # fall-through arm: asserted to be MALLOC_DESC
            arm = "MALLOC_DESC(default)"
            flags = ["ABTI_THREAD_TYPE_MEM_MALLOC_DESC"]
        arms.add(arm)
        fam, role = _family(flags[0])
        if len(d) != 1:
            why.append("%d deallocations on this arm" % len(d))
        else:
            c = d[0]
            if fam == "malloc":
                if c[1] != "ABTU_free":
                    why.append("malloc'ed block released with %s" % c[1])
            else:
                if c[1] == "ABTU_free":
                    why.append("memory-pool block released with free()")
                elif c[1] == "ABTI_mem_pool_free":
                    pool = c[2][0]
                    if role == "stack" and "mem_pool_stack" not in pool:
                        why.append("descriptor+stack block returned to %s" % pool)
                    if role == "desc" and "mem_pool_desc" not in pool:
                        why.append("descriptor block returned to %s" % pool)
                elif role == "stack":
                    why.append("descriptor+stack block released with %s" % c[1])
        rep.ob("R1", "free arm %s releases once with the inverse deallocator [%s]" % (arm, show(toks)[-160:]), not why,
               "; ".join(why), loc="%s:%d" % (F.file, F.line), site="free_thread/%s/%s" % (arm, d[0][1] if d else "none"))
    rep.need(len(arms) >= 5, "ABTI_mem_free_thread has only %d arms: %s" % (len(arms), sorted(arms)))
    for hn, role in (("ABTI_mem_free_ythread_desc_mempool_impl", "desc"), ("ABTI_mem_free_nythread_mempool_impl", "desc")):
        H = P.fn(hn, MH)
        pools = [H.fieldpath(H.nodes[i]["a"][0]) for b, i in H.calls("ABTI_mem_pool_free")]
        rep.ob("R1", "%s returns the block to a descriptor pool" % hn, bool(pools) and all("mem_pool_desc" in p for p in pools), str(pools),
               loc=H.file, site=hn)
    # (c) pointer-term equality for MALLOC_DESC_STACK
    A = P.fn("ABTI_mem_alloc_ythread_malloc_desc_stack_impl", MH)
    top = [terms.expand(A, rh) for b, i, lh, rh in A.stores() if A.render(lh) == "*pp_stacktop"]
    mal = [A.render(A.nodes[i]["a"][1]) for b, i in A.calls("ABTU_malloc")]
    ok = len(top) == 1 and len(mal) == 1
    why = "allocation shape not recognised: top=%s malloc out=%s" % (top, mal)
    if ok:
        basevar = re.sub(r"^\(void \*\*\)", "", mal[0]).lstrip("&")
        m = re.match(r"^\(*%s\s*\+\s*(.*)$" % re.escape(basevar), top[0].lstrip("("))
        ok = m is not None
        why = "stack top %s is not base + offset" % top[0]
        if ok:
            off_alloc = _norm(m.group(1))
            frees = []
            for toks, kind, rv, rtxt in seq.sequences(F, seq.Sel(calls={"ABTU_free"}, conds=conds), max_len=40):
                taken = [t for t in toks if t[0] == "if" and t[1].startswith("FLAG:") and t[2]]
                if taken and "MALLOC_DESC_STACK" in taken[0][1]:
                    for t in toks:
                        if t[0] == "call" and t[1] == "ABTU_free":
                            frees.append(terms.expand(F, F.nodes[t[-1]]["a"][0]))
            ok = len(set(frees)) == 1
            why = "free arm not found (%s)" % frees
            if ok:
                ft = _norm(frees[0])
                ft = ft.replace(_norm("ABTD_ythread_context_get_stacksize(&p_ythread->ctx)"), "stacksize")
                ft = ft.replace(_norm("ABTD_ythread_context_get_stacktop(&p_ythread->ctx)"), "TOP")
                want = "TOP-" + off_alloc
                ok = ft.replace("char*", "") == want
                why = "allocated base = top - [%s] but the pointer freed is [%s]" % (off_alloc, ft)
    rep.ob("R1", "MALLOC_DESC_STACK: the pointer passed to free() equals the pointer malloc() returned (term equality)", ok, why,
           loc=MH, site="malloc_desc_stack/pointer-term")
    # the size recorded in the context is the size the allocation was computed from
    for an in ("ABTI_mem_alloc_ythread_malloc_desc_stack", "ABTI_mem_alloc_ythread_mempool_desc_stack"):
        G = P.fn(an, MH)
        bad = []
        for b, i in G.calls("ABTD_ythread_context_init"):
            args = [G.render(a) for a in G.nodes[i]["a"]]
            if args[1:] != ["p_stacktop", "stacksize"]:
                bad.append(args)
        rep.ob("R1", "%s records the stack top and the requested size in the context" % an, not bad and bool(G.calls("ABTD_ythread_context_init")),
               str(bad), loc=G.file, site="%s/context-init" % an)
    # (d) large pages
    L = P.fn("ABTU_free_largepage", "src/util/largepage.c")
    sel = seq.Sel(calls={"ABTU_free", "mmap_free"}, conds=lambda t: t.startswith("type =="))
    pairs = {}
    for toks, kind, rv, rtxt in seq.sequences(L, sel):
        t_true = [t for t in toks if t[0] == "if" and t[2]]
        d = [t[1] for t in toks if t[0] == "call"]
        if t_true:
            pairs[t_true[-1][1].split("== ")[1]] = d
    want = {"ABTU_MEM_LARGEPAGE_MALLOC": ["ABTU_free"], "ABTU_MEM_LARGEPAGE_MEMALIGN": ["ABTU_free"],
            "ABTU_MEM_LARGEPAGE_MMAP": ["mmap_free"], "ABTU_MEM_LARGEPAGE_MMAP_HUGEPAGE": ["mmap_free"]}
    for k, v in sorted(want.items()):
        rep.ob("R1", "large page of type %s is released with %s" % (k, v[0]), pairs.get(k) == v, "got %s" % pairs.get(k), loc=L.file,
               site="largepage/free/%s" % k)
    LA = P.fn("ABTU_alloc_largepage", "src/util/largepage.c")
    sel = seq.Sel(calls={"ABTU_malloc", "ABTU_memalign", "mmap_regular", "mmap_hugepage"}, conds=lambda t: t.startswith("requested =="),
                  rets=True)
    sel.fields = set()
    got = {}
    for b, i, lh, rh in LA.stores():
        if LA.render(lh) == "*p_actual":
            # allocator calls that dominate this store in the same arm
            al = [LA.nodes[j]["fn"] for b2, j in LA.calls({"ABTU_malloc", "ABTU_memalign", "mmap_regular", "mmap_hugepage"})
                  if cfg.dominates(LA, j, i) and not any(cfg.dominates(LA, j, k2) and cfg.dominates(LA, k2, i) and k2 != j
                                                         for b3, k2 in LA.calls({"ABTU_malloc", "ABTU_memalign", "mmap_regular", "mmap_hugepage"}))]
            got[LA.render(rh)] = al
    wantA = {"ABTU_MEM_LARGEPAGE_MALLOC": "ABTU_malloc", "ABTU_MEM_LARGEPAGE_MEMALIGN": "ABTU_memalign",
             "ABTU_MEM_LARGEPAGE_MMAP": "mmap_regular", "ABTU_MEM_LARGEPAGE_MMAP_HUGEPAGE": "mmap_hugepage"}
    for k, v in sorted(wantA.items()):
        rep.ob("R1", "large page recorded as %s was obtained from %s" % (k, v), v in got.get(k, []), "got %s" % got.get(k), loc=LA.file,
               site="largepage/alloc/%s" % k)
    # (e) descriptors: the tag word decides the deallocator
    if P.fns("ABTI_mem_alloc_desc"):
        D = P.fn("ABTI_mem_alloc_desc", MH)
        sel = seq.Sel(calls={"ABTU_malloc", "ABTI_mem_pool_alloc"})
        tags = {}
        for b, i, lh, rh in D.stores():
            if "ABTI_MEM_POOL_DESC_SIZE" in macros_in(D, lh) or "p_desc" in D.render(lh) and "+" in D.render(lh):
                al = [D.nodes[j]["fn"] for b2, j in D.calls({"ABTU_malloc", "ABTI_mem_pool_alloc"}) if cfg.dominates(D, j, i)]
                tags[D.nodes[D.strip(rh)].get("cv")] = al
        noext = P.variant == "no_ext_thread"
        ok = tags.get(0) == ["ABTI_mem_pool_alloc"] and (noext or tags.get(1) == ["ABTU_malloc"])
        rep.ob("R1", "descriptor tag word: 1 = malloc'ed, 0 = memory pool", ok, str(tags), loc=D.file, site="desc/tag")
        FD = P.fn("ABTI_mem_free_desc", MH)
        sel = seq.Sel(calls={"ABTU_free", "ABTI_mem_pool_free"}, conds=lambda t: "ABTI_MEM_POOL_DESC_SIZE" in t or "+ " in t or t == "p_local_xstream")
        for toks, kind, rv, rtxt in seq.sequences(FD, sel):
            if kind != "ret":
                continue
            tag = [t for t in toks if t[0] == "if" and "p_desc" in t[1]]
            d = [t[1] for t in toks if t[0] == "call"]
            ok = len(d) == 1 and ((tag and ((tag[0][2] and d == ["ABTU_free"]) or (not tag[0][2] and d == ["ABTI_mem_pool_free"]))) or
                                  (noext and not tag and d == ["ABTI_mem_pool_free"]))
            rep.ob("R1", "free_desc tag=%s -> %s" % (tag[0][2] if tag else "?", d), bool(ok), show(toks), loc=FD.file,
                   site="desc/free/%s" % (tag[0][2] if tag else "?"))
    rep.min_instances("R1", 25)


_FLAGVALS = {}


def P_flag_value(P, F, macro):
    """Value of an ABTI_THREAD_TYPE_MEM_* macro: found from any constant expression produced by it."""
    if macro in _FLAGVALS:
        return _FLAGVALS[macro]
    for G in P.functions.values():
        for nd in G.nodes:
            if nd and nd.get("m") and nd["m"][0] == macro and "cv" in nd and len(nd["m"]) == 1 and nd.get("k") == "cast":
                _FLAGVALS[macro] = nd["cv"]
                return nd["cv"]
    for G in P.functions.values():
        for nd in G.nodes:
            if nd and nd.get("m") and macro in nd["m"] and "cv" in nd and nd.get("k") in ("bin", "cast"):
                _FLAGVALS.setdefault(macro, nd["cv"])
    return _FLAGVALS.get(macro)


def rule_R2(P, rep):
    LH = "src/include/abti_sync_lifo.h"
    for fn, kind in (("ABTI_sync_lifo_push", "cas"), ("ABTI_sync_lifo_pop", "cas"), ("ABTI_sync_lifo_push_unsafe", "store"),
                     ("ABTI_sync_lifo_pop_unsafe", "store")):
        F = P.fn(fn, LH)
        upd = F.calls({"ABTD_atomic_bool_cas_weak_tagged_ptr", "ABTD_atomic_relaxed_store_non_atomic_tagged_ptr",
                       "ABTD_atomic_release_store_non_atomic_tagged_ptr"})
        loads = F.calls({"ABTD_atomic_acquire_load_non_atomic_tagged_ptr", "ABTD_atomic_relaxed_load_non_atomic_tagged_ptr"})
        if not upd:
            rep.skip("R2", "%s: no tagged-pointer build in this configuration" % fn)
            continue
        for b, i in upd:
            nd = F.nodes[i]
            args = [F.render(a) for a in nd["a"]]
            why = []
            ld = [j for b2, j in loads if cfg.dominates(F, j, i)]
            if not ld:
                why.append("update not dominated by a load of the top word")
            else:
                largs = [F.render(a) for a in F.nodes[ld[-1]]["a"]]
                pv = largs[1].replace("(void **)", "").lstrip("&")
                tv = largs[2].lstrip("&")
                if nd["fn"].endswith("cas_weak_tagged_ptr"):
                    if args[1] != pv or args[2] != tv:
                        why.append("CAS expects (%s,%s) but the iteration loaded (%s,%s)" % (args[1], args[2], pv, tv))
                    if args[4] != "%s + 1" % tv:
                        why.append("new tag is %s, not %s + 1 (ABA protection)" % (args[4], tv))
                    if "acquire" not in F.nodes[ld[-1]]["fn"]:
                        why.append("top word not acquire-loaded before the CAS")
                    # the load must be re-done in every iteration: it lies inside the loop that contains the CAS
                    if not cfg.can_reach(F, i, ld[-1]):
                        why.append("top word loaded outside the retry loop (a failed CAS would retry with stale values)")
                else:
                    if args[2] != "%s + 1" % tv:
                        why.append("new tag is %s, not %s + 1" % (args[2], tv))
            rep.ob("R2", "%s: %s(%s)" % (fn, nd["fn"].replace("ABTD_atomic_", ""), ", ".join(args[1:])), not why, "; ".join(why),
                   loc=F.loc(i), site="%s/%s" % (fn, nd["fn"]))
        # push links the element before publishing it; pop reads the successor before the CAS
        if "push" in fn:
            st = [i for b, i, lh, rh in F.stores() if F.render(lh) == "p_elem->p_next"]
            ok = bool(st) and all(any(cfg.dominates(F, s, i) for s in st) for b, i in upd)
            rep.ob("R2", "%s links p_elem->p_next before publishing p_elem" % fn, ok, "", loc=F.file, site="%s/link-first" % fn)


def rule_R3(P, rep):
    n = 0
    for F in sorted(P.functions.values(), key=lambda f: (f.file, f.line)):
        sites = []
        for b, i in F.calls({"ABTI_mem_pool_alloc", "ABTI_mem_pool_free"}):
            p = F.fieldpath(F.nodes[i]["a"][0])
            if p.endswith("_ext"):
                sites.append((i, p))
        if not sites:
            continue
        ts = locks.run_locks(P, F)
        for i, p in sites:
            n += 1
            want = "mem_pool_stack_lock" if "stack" in p else "mem_pool_desc_lock"
            helds = ts.at.get(i, set())
            ok = bool(helds) and all(any(want in k for k in h) for h in helds)
            rep.ob("R3", "%s accesses %s under %s" % (F.name, p, want), ok, "lock sets %s" % sorted(sorted(h) for h in helds),
                   loc=F.loc(i), site="%s/%s" % (F.name, p))
        unb = [(k, nid, h) for k, nid, h, rv in ts.exits if k == "ret" and h]
        rep.ob("R3", "%s leaves the external-pool locks released" % F.name, not unb and not ts.errors, str(unb) + str(ts.errors),
               loc=F.file, site="%s/balance" % F.name)
    if P.variant != "no_ext_thread":
        rep.need(n >= 4, "only %d external-pool accesses found" % n)
    # partial bucket
    for F in P.functions.values():
        acc = [i for i, nd in enumerate(F.nodes) if nd and nd.get("k") == "mem" and nd["f"] == "partial_bucket" and nd.get("r") == "ABTI_mem_pool_global_pool"]
        if not acc or F.name in ("ABTI_mem_pool_init_global_pool", "ABTI_mem_pool_destroy_global_pool"):
            continue
        ts = locks.run_locks(P, F)
        pm = F.parent_map()
        bad = []
        for i in acc:
            j = i
            while j is not None and j not in ts.at:
                j = pm.get(j)
            if j is None:
                continue
            if not all(any("partial_bucket_lock" in k for k in h) for h in ts.at[j]):
                bad.append(F.loc(i))
        rep.ob("R3", "%s touches partial_bucket only under partial_bucket_lock" % F.name, not bad, str(sorted(set(bad))), loc=F.file,
               site="%s/partial_bucket" % F.name)


def rule_R4(P, rep):
    F = P.fn("ABT_thread_attr_set_stack", "src/thread_attr.c")
    INV = P.macro_int("ABT_ERR_INV_ARG")
    sel = seq.Sel(calls={"thread_attr_set_stack"}, conds=lambda t: "stackaddr" in t, rets=True)
    n = 0
    for toks, kind, rv, rtxt in seq.sequences(F, sel):
        call = idx(toks, is_call("thread_attr_set_stack"))
        if kind != "ret" or not call:
            continue
        n += 1
        pre = [t for t in toks[:call[0]] if t[0] == "if"]
        isnull = any("== (void *)0" in t[1] and t[2] for t in pre)
        aligned = any("& 7" in t[1] and "== 0" in t[1] and t[2] for t in pre)
        rep.ob("R4", "ABT_thread_attr_set_stack accepts only NULL or 8-byte aligned addresses", isnull or aligned, show(toks), loc=F.file,
               site="attr_set_stack/%s" % ("null" if isnull else "aligned"))
    rep.need(n >= 2, "attr_set_stack: %d accepting paths" % n)
    sub = type(rep)(rep.prop, rep.tier, rep.variant)
    C02.rules_asm(P, sub)
    for o in sub.obligations:
        if o["rule"] == "A4":
            rep.ob("R4", "[C02.A4] " + o["instance"], o["ok"], o["detail"], o["loc"], site="R4/" + o["instance"][:120])


def run(P, rep, tier):
    common.run_shared(P, rep, which=("X1", "X2"))
    rule_R1(P, rep)
    rule_R2(P, rep)
    rule_R3(P, rep)
    rule_R4(P, rep)
