"""C15 -- descriptors and stacks: provenance pairing, ABA tags, locked external
pools (structural part)."""
import re

from abtverif import canon, cfg, locks, seq, tables
from abtverif.seq import idx, is_call, show, macros_in
from . import common, C02

EXPLANATION = (
    "Decides that every block is returned to where it came from.  R1 (provenance pairing): each allocation path sets "
    "a memory-provenance flag whose family (MEMPOOL/MALLOC, descriptor/stack) matches the allocator that produced the "
    "block; each arm of ABTI_mem_free_thread releases exactly once with the inverse deallocator of that family and "
    "role; for the malloc'ed descriptor+stack the pointer freed is, as a reconstructed term over the stored stack top "
    "and size, exactly the pointer malloc returned (same rounding on both sides); large pages and descriptors are "
    "released by the deallocator matching their recorded type/tag.  R2: every tagged-pointer update of the lock-free "
    "LIFO uses the pointer and tag loaded in the same iteration as expected value and tag+1 as the new tag.  R3: the "
    "pools shared by external threads are touched only under their spinlock, the global pool's partial bucket only "
    "under partial_bucket_lock.  R4: user stacks must be 8-byte aligned (API check) and start-up aligns them to 16 "
    "(= C02.A4).  Non-overlap and conservation of the memory pool's bucket arithmetic are value properties and are "
    "not decided.")
DECLINED = ["non-overlap, conservation and bucket hand-over arithmetic of the memory pool (value properties)",
            "'at least that much usable stack'"]
ASSUMPTIONS = ["malloc/free/mmap/munmap behave as specified"]
RULES_DOC = dict(common.SHARED_DOC)
RULES_DOC["X9"] = common.X9_DOC
RULES_DOC["X7"] = common.X7_DOC
RULES_DOC["X4"] = common.X4_DOC
RULES_DOC["R5"] = "page release: when the pool is destroyed, every undo of the stack guard (protect_memory(.., FALSE)) covers exactly the region that is then released (same address and size as the ABTU_free_largepage that follows); the size recorded with a user-supplied stack is the size the caller passed, unrounded"
RULES_DOC["R6"] = "every local memory pool is initialised against the global pool of its own kind (descriptor pools feed on the descriptor pool, stack pools on the stack pool); ABT_thread_create_many reaches a creation only with no attribute or with an attribute whose user stack was tested NULL (one user stack is never given to several ULTs)"
RULES_DOC["R11"] = "= C16.R8: memory carved out of a descriptor block (key tables) stays inside the bytes handed out: the trailing word tells ABTI_mem_free_desc whether the block goes to free() or back to the pool"
RULES_DOC["R10"] = "= C11.R6: a caller that blocked (join of a tasklet from a ULT, ...) continues with the stream it was resumed on: the descriptor it frees afterwards goes to the lock-free local pool of the stream it is really running on"
RULES_DOC["R9"] = "ABTI_mem_pool_take_bucket: the element count stored in the header of a bucket that is being carved block by block is the running counter, or a value the governing conditions have just found equal to it (a half-built bucket returned after a failed page allocation must not claim to be full)"
RULES_DOC["R8"] = "ABTI_mem_register_stack / ABTI_mem_unregister_stack agree: the guard page of a stack is made accessible again (ABTU_mprotect(.., FALSE)) for exactly the stack_guard_kind values for which it was protected -- memory handed back to the user or to free() must not keep a read-only page"
RULES_DOC["R7"] = "when a local memory pool overflows, the buckets it keeps are all moved down: the shift loop runs to the length of the bucket array (a bucket returned to the global pool does not stay referenced locally)"
RULES_DOC.update({
    "R1": "provenance pairing: flag family = allocator family; free arm = inverse deallocator, exactly once; freed pointer term = allocated pointer term",
    "R2": "sync LIFO: CAS/store expects the pointer+tag loaded in the same iteration and installs tag+1",
    "R3": "external-thread pools only under their spinlock; partial_bucket only under partial_bucket_lock",
    "R4": "ABT_thread_attr_set_stack rejects addresses that are not 8-byte aligned; start-up alignment = C02.A4",
})
VARIANTS = ["no_ext_thread", "lazy_stack"]
MH = "src/include/abti_mem.h"


XS_NULL = "ABTI_local_get_xstream_or_null("       # canonical value of the "local execution stream or NULL" pointer
YT_NULL = "ABTI_thread_get_ythread_or_null("


# ---- private, name-independent helpers (also used by rules/C16.py) ---------------------------------------------

def ntype(t):
    """Type spelling without qualifiers and blanks: 'const ABTI_ktelem *' -> 'ABTI_ktelem*'."""
    return re.sub(r"\b(const|volatile|struct|restrict)\b|\s", "", t or "")


_EXPECT = ("__builtin_expect", "ABTU_likely", "ABTU_unlikely")


def cond_root(F, i):
    """The expression whose truth a condition atom tests: `!x`, `x == 0`, `x != NULL`, likely()/unlikely() and a
    local that only holds such a test are looked through (the polarity is the business of canon.cond)."""
    for _ in range(20):
        i = F.strip(i)
        nd = F.nodes[i]
        k = nd.get("k")
        if k == "un" and nd["op"] == "!":
            i = nd["e"]
            continue
        if k == "call" and nd.get("fn") in _EXPECT and nd.get("a"):
            i = nd["a"][0]
            continue
        if k == "bin" and nd["op"] in ("==", "!="):
            nxt = None
            for a, b in ((nd["lh"], nd["rh"]), (nd["rh"], nd["lh"])):
                if canon._is_zero(F, b) and not canon._is_const(F, a):
                    nxt = a
                    break
            if nxt is None:
                return i
            i = nxt
            continue
        if k == "ref" and nd.get("dk") == "var":
            d = canon.reaching_def(F, nd["n"], i)
            if isinstance(d, int):
                dn = F.nodes[F.strip(d)]
                if (dn.get("k") == "bin" and dn["op"] in ("==", "!=", "<", ">", "<=", ">=", "&&", "||")) or \
                        (dn.get("k") == "un" and dn["op"] == "!"):
                    i = d
                    continue
        return i
    return i


def resolve(F, i, depth=4):
    """Follow a local variable to the expression of its only reaching definition."""
    i = F.strip(i)
    while depth > 0:
        nd = F.nodes[i]
        if nd.get("k") != "ref" or nd.get("dk") != "var":
            break
        d = canon.reaching_def(F, nd["n"], i)
        if not isinstance(d, int) or F.nodes[F.strip(d)].get("k") in ("ilist", "zero"):
            break
        i = F.strip(d)
        depth -= 1
    return i


_COMM = ("+", "*", "&", "|", "^", "==", "!=")


def mk_bin(op, a, b):
    if op in _COMM and (b[0] == "int", repr(b)) < (a[0] == "int", repr(a)):      # constants last
        a, b = b, a
    return ("bin", op, a, b)


def term(F, i, depth=6, at=None):
    """Structural value term of expression i: nested tuples in which a local variable is replaced by the term of
    its only reaching definition (so the names of temporaries do not matter), member accesses keep the term of
    their base object (object identity is kept), casts/loads vanish, constants are folded to their value and the
    operands of commutative operators are ordered.  Parameters, out-parameter locals (`f(&x)`) and locals with
    several reaching definitions stay ('var', name)."""
    at = i if at is None else at
    i = F.strip(i)
    if i is None or i < 0:
        return ("none",)
    nd = F.nodes[i]
    k = nd.get("k")
    T = lambda j: term(F, j, depth, at)
    if k == "ref":
        if nd.get("dk") == "enum":
            return ("enum", nd["n"])
        if nd.get("dk") == "func":
            return ("func", nd["n"])
        if nd.get("dk") == "var" and depth > 0:
            d = canon.reaching_def(F, nd["n"], at)
            if isinstance(d, tuple):
                return mk_bin("+" if d[2] > 0 else "-", term(F, d[1], depth - 1, d[1]), ("int", 1))
            if d is not None and F.nodes[F.strip(d)].get("k") not in ("ilist", "zero"):
                return term(F, d, depth - 1, d)
        return ("var", nd["n"])
    if "cv" in nd:
        return ("int", nd["cv"])
    if k == "mem":
        return ("fld", T(nd["b"]), "%s::%s" % (nd["r"], nd["f"]))
    if k == "un":
        op = nd["op"]
        if op in ("post++", "post--", "pre++", "pre--"):
            return ("un", op, T(nd["e"]))
        inner = T(nd["e"])
        if op == "*" and inner[0] == "un" and inner[1] == "&":
            return inner[2]
        if op == "&" and inner[0] == "un" and inner[1] == "*":
            return inner[2]
        return ("un", op, inner)
    if k == "bin":
        return mk_bin(nd["op"], T(nd["lh"]), T(nd["rh"]))
    if k == "call":
        fn = nd.get("fn")
        if fn in _EXPECT and nd.get("a"):
            return T(nd["a"][0])
        head = ("call", fn) if fn else ("icall", T(nd["fe"]))
        return head + tuple(T(a) for a in nd["a"])
    if k == "idx":
        return ("idx", T(nd["b"]), T(nd["i"]))
    if k == "cond":
        return ("cond", T(nd["c"]), T(nd["th"]), T(nd["el"]))
    if k == "sizeof":
        return ("sizeof", nd.get("t", ""))
    return ("text", F.render(i))


def tshow(t):
    if not isinstance(t, tuple):
        return str(t)
    h = t[0]
    if h in ("var", "enum", "func", "int", "text", "sizeof"):
        return str(t[1])
    if h == "fld":
        return "%s->%s" % (tshow(t[1]), t[2].split("::")[-1])
    if h == "un":
        return "%s(%s)" % (t[1], tshow(t[2]))
    if h == "bin":
        return "(%s %s %s)" % (tshow(t[2]), t[1], tshow(t[3]))
    if h == "call":
        return "%s(%s)" % (t[1], ", ".join(tshow(a) for a in t[2:]))
    if h == "icall":
        return "(*%s)(%s)" % (tshow(t[1]), ", ".join(tshow(a) for a in t[2:]))
    if h == "idx":
        return "%s[%s]" % (tshow(t[1]), tshow(t[2]))
    if h == "cond":
        return "(%s ? %s : %s)" % (tshow(t[1]), tshow(t[2]), tshow(t[3]))
    return str(t)


def tsubst(t, old, new):
    """Term t with every occurrence of sub-term `old` replaced by `new` (commutative operands re-ordered)."""
    if t == old:
        return new
    if not isinstance(t, tuple):
        return t
    r = tuple(tsubst(x, old, new) for x in t)
    if r and r[0] == "bin":
        return mk_bin(r[1], r[2], r[3])
    return r


def subterms(t):
    yield t
    if isinstance(t, tuple):
        for x in t[1:]:
            if isinstance(x, tuple):
                for y in subterms(x):
                    yield y


def addr_var(F, i):
    """Name of the local whose address expression i takes (`&x`, `(void **)&x`), else None."""
    nd = F.nodes[F.strip(i)]
    if nd.get("k") == "un" and nd["op"] == "&":
        inner = F.nodes[F.strip(nd["e"])]
        if inner.get("k") == "ref":
            return inner["n"]
    return None


def deref_param(F, lh, pname):
    """Is lvalue lh the object parameter `pname` points to (`*p`, `p[0]`)?"""
    n = F.nodes[F.strip(lh)]
    if n.get("k") == "un" and n["op"] == "*":
        b = F.nodes[F.strip(n["e"])]
        return b.get("k") == "ref" and b["n"] == pname
    if n.get("k") == "idx":
        b = F.nodes[F.strip(n["b"])]
        return b.get("k") == "ref" and b["n"] == pname and F.nodes[F.strip(n["i"])].get("cv") == 0
    return False


def param_of_type(F, typ, nth=0, mutable=False):
    """Name of the nth parameter of (qualifier-free) type typ; mutable: skip pointers to const."""
    ps = [p["n"] for p in F.params if ntype(p["t"]) == typ and not (mutable and "const" in p["t"])]
    return ps[nth] if len(ps) > nth else None


class CanonLockTS(locks.LockTS):
    """locks.LockTS with the held locks named by their canonical expression (`&ABTI_global::mem_pool_desc_lock`)
    instead of the rendered argument text, so that a lock reached through a temporary pointer or through a
    differently named variable is the same lock.  (Engine feature emulated locally: locks.lock_key renders text.)"""

    def event(self, F, nid, st, ctx):
        nd = F.nodes[nid]
        fn = nd.get("fn") if nd.get("k") == "call" else None
        for table in (tables.LOCK_ACQUIRE, tables.LOCK_RELEASE, tables.LOCK_RELEASE_TRANSFER, tables.LOCK_COND_ACQUIRE):
            if fn in table:
                break
        else:
            return locks.LockTS.event(self, F, nid, st, ctx)
        held, asm = st
        self.at.setdefault(nid, set()).add(held)
        key = canon.expr(F, nd["a"][table[fn]])
        if table is tables.LOCK_ACQUIRE:
            if key in held:
                self.errors.append((nid, "lock %s acquired while already held" % key))
            return (held | {key}, asm)
        if table is tables.LOCK_COND_ACQUIRE:
            var = self._result_var(F, nid)
            asm2 = frozenset(a for a in asm if a[0] != nid)
            return {(held | {key}, asm2 | {(nid, True, var)}), (held - {key}, asm2 | {(nid, False, var)})}
        if key not in held:
            self.errors.append((nid, "lock %s released while not held" % key))
        return (held - {key}, asm)


def run_canon_locks(P, F):
    ts = CanonLockTS(P)
    cfg.simulate(F, ts)
    return ts


# ---- R1 ---------------------------------------------------------------------------------------------------------

def _flag_of(F, node):
    ms = [m for m in macros_in(F, node) if m.startswith("ABTI_THREAD_TYPE_MEM_")]
    return sorted(ms)


def _family(flag):
    f = flag.replace("ABTI_THREAD_TYPE_MEM_", "")
    fam = "mempool" if f.startswith("MEMPOOL") else "malloc"
    role = "stack" if f.endswith("DESC_STACK") else "desc"
    return fam, role


ALLOC_FAMILY = {
    "ABTU_malloc": ("malloc", None),
    "ABTI_mem_alloc_ythread_malloc_desc_stack_impl": ("malloc", "stack"),
    "ABTI_mem_alloc_ythread_mempool_desc_stack_impl": ("mempool", "stack"),
}


def _alloc_cond(label, F, node):
    """Tests that select the allocator: the local-stream pointer (NULL on an external thread) and boolean parameters."""
    if XS_NULL in label:
        return True
    return label in [p["n"] for p in F.params]


def _free_cond(label, F, node):
    """Canonical labels of ABTI_mem_free_thread's tests: a test of the provenance flag is named by the flag macro
    (whatever the polarity or a temporary holding the masked value); the stream / ythread NULL tests keep their
    canonical value."""
    fl = _flag_of(F, resolve(F, cond_root(F, node)))
    if fl:
        return "FLAG:" + ",".join(fl)
    if label.startswith(XS_NULL) or label.startswith(YT_NULL):
        return True
    return False


def _pool_of(F, call_nid):
    """Canonical name of the pool argument of ABTI_mem_pool_alloc/free (a temporary pointer is resolved)."""
    return canon.expr(F, F.nodes[call_nid]["a"][0])


def rule_R1(P, rep):
    # (a) flag stores in allocation functions
    n = 0
    for F in sorted(P.functions.values(), key=lambda f: f.line):
        if F.file != MH or "alloc" not in F.name:
            continue
        sel = seq.Sel(calls=lambda c: c in ALLOC_FAMILY or c == "ABTI_mem_pool_alloc", fields={"type"}, conds=_alloc_cond, canon=True)
        for toks, kind, rv, rtxt in seq.sequences(F, sel, max_len=40):
            sts = [t for t in toks if t[0] == "st" and t[1] == "ABTI_thread::type" and t[2] == "="]
            if kind != "ret" or not sts:
                continue
            st = sts[-1]
            node = resolve(F, F.nodes[st[-1]]["rh"])
            # conditional expression: take the arm chosen on this path through the constant value
            flags = _flag_of(F, node)
            val = st[3]
            chosen = [fl for fl in flags if P_flag_value(P, F, fl) == val] if isinstance(val, int) else flags
            if len(chosen) != 1:
                rep.ob("R1", "%s: provenance flag store is a single known flag" % F.name, False, "flags %s value %s" % (flags, val),
                       loc=F.loc(st[-1]), site="%s/flag-unknown" % F.name)
                continue
            flag = chosen[0]
            fam, role = _family(flag)
            allocs = [t for t in toks[:toks.index(st)] if t[0] == "call"]
            why = []
            if len(allocs) != 1:
                why.append("%d allocator calls before the flag store" % len(allocs))
            else:
                a = allocs[0]
                if a[1] == "ABTI_mem_pool_alloc":
                    afam = "mempool"
                    arole = "stack" if "mem_pool_stack" in _pool_of(F, a[-1]) else "desc"
                else:
                    afam, arole = ALLOC_FAMILY[a[1]]
                if afam != fam:
                    why.append("block from %s (%s) is tagged %s" % (a[1], afam, flag))
                if arole and role == "stack" and arole != "stack":
                    why.append("descriptor-pool block tagged as descriptor+stack")
                if arole == "stack" and role != "stack":
                    why.append("stack block tagged as descriptor-only")
            n += 1
            rep.ob("R1", "%s tags a block from %s as %s" % (F.name, allocs[0][1] if allocs else "?", flag.replace("ABTI_THREAD_TYPE_MEM_", "")),
                   not why, "; ".join(why), loc=F.loc(st[-1]), site="%s/%s/%s" % (F.name, flag, allocs[0][1] if allocs else "?"))
    rep.need(n >= 5, "only %d provenance-flag stores found" % n)
    # (b) free arms
    F = P.fn("ABTI_mem_free_thread", MH)
    dealloc = {"ABTI_mem_pool_free", "ABTU_free", "ABTI_mem_free_ythread_desc_mempool_impl", "ABTI_mem_free_nythread_mempool_impl"}
    sel = seq.Sel(calls=lambda c: c in dealloc, conds=_free_cond, canon=True)
    arms = set()
    for toks, kind, rv, rtxt in seq.sequences(F, sel, max_len=40):
        if kind != "ret":
            continue
        taken = [t for t in toks if t[0] == "if" and t[1].startswith("FLAG:") and t[2]]
        d = [t for t in toks if t[0] == "call"]
        why = []
        if taken:
            flags = taken[0][1][5:].split(",")
            arm = "+".join(f.replace("ABTI_THREAD_TYPE_MEM_", "") for f in flags)
        else:
            # fall-through arm: asserted to be MALLOC_DESC
            arm = "MALLOC_DESC(default)"
            flags = ["ABTI_THREAD_TYPE_MEM_MALLOC_DESC"]
        arms.add(arm)
        fam, role = _family(flags[0])
        if len(d) != 1:
            why.append("%d deallocations on this arm" % len(d))
        else:
            c = d[0]
            if fam == "malloc":
                if c[1] != "ABTU_free":
                    why.append("malloc'ed block released with %s" % c[1])
            else:
                if c[1] == "ABTU_free":
                    why.append("memory-pool block released with free()")
                elif c[1] == "ABTI_mem_pool_free":
                    pool = _pool_of(F, c[-1])
                    if role == "stack" and "mem_pool_stack" not in pool:
                        why.append("descriptor+stack block returned to %s" % pool)
                    if role == "desc" and "mem_pool_desc" not in pool:
                        why.append("descriptor block returned to %s" % pool)
                elif role == "stack":
                    why.append("descriptor+stack block released with %s" % c[1])
        rep.ob("R1", "free arm %s releases once with the inverse deallocator [%s]" % (arm, show(toks)[-160:]), not why,
               "; ".join(why), loc="%s:%d" % (F.file, F.line), site="free_thread/%s/%s" % (arm, d[0][1] if d else "none"))
    rep.need(len(arms) >= 5, "ABTI_mem_free_thread has only %d arms: %s" % (len(arms), sorted(arms)))
    for hn, role in (("ABTI_mem_free_ythread_desc_mempool_impl", "desc"), ("ABTI_mem_free_nythread_mempool_impl", "desc")):
        H = P.fn(hn, MH)
        pools = [_pool_of(H, i) for b, i in H.calls("ABTI_mem_pool_free")]
        rep.ob("R1", "%s returns the block to a descriptor pool" % hn, bool(pools) and all("mem_pool_desc" in p for p in pools), str(pools),
               loc=H.file, site=hn)
    # (c) pointer-term equality for MALLOC_DESC_STACK: structural terms over reaching definitions, no names of temporaries
    A = P.fn("ABTI_mem_alloc_ythread_malloc_desc_stack_impl", MH)
    size_p, top_p = param_of_type(A, "size_t"), param_of_type(A, "void**")
    rep.need(size_p and top_p, "%s: size / stack-top parameters not found in %s" % (A.name, A.params))
    top = [term(A, rh) for b, i, lh, rh in A.stores() if rh is not None and deref_param(A, lh, top_p)]
    mal = [addr_var(A, A.nodes[i]["a"][1]) for b, i in A.calls("ABTU_malloc")]
    ok = len(top) == 1 and len(mal) == 1 and mal[0] is not None
    why = "allocation shape not recognised: top=%s malloc out=%s" % ([tshow(t) for t in top], mal)
    if ok:
        base = ("var", mal[0])
        tt = top[0]
        ok = tt[0] == "bin" and tt[1] == "+" and base in tt[2:] and len([x for x in tt[2:] if x == base]) == 1
        why = "stack top %s is not base + offset" % tshow(tt)
        if ok:
            off_alloc = [x for x in tt[2:] if x != base][0]
            frees = []
            for toks, kind, rv, rtxt in seq.sequences(F, seq.Sel(calls={"ABTU_free"}, conds=_free_cond, canon=True), max_len=40):
                taken = [t for t in toks if t[0] == "if" and t[1].startswith("FLAG:") and t[2]]
                if taken and "MALLOC_DESC_STACK" in taken[0][1]:
                    for t in toks:
                        if t[0] == "call" and t[1] == "ABTU_free":
                            frees.append(term(F, F.nodes[t[-1]]["a"][0]))
            ok = len(set(frees)) == 1
            why = "free arm not found (%s)" % [tshow(t) for t in frees]
            if ok:
                ft = frees[0]
                # the pointer freed must be  TOP - off_alloc[requested size := size recorded in the same context]
                ctxs = [s[2] for s in subterms(ft) if s[0] == "call" and s[1] == "ABTD_ythread_context_get_stacktop" and len(s) == 3]
                ok = len(set(ctxs)) == 1
                why = "the pointer freed [%s] is not computed from the stack top recorded in the context" % tshow(ft)
                if ok:
                    TOP = ("call", "ABTD_ythread_context_get_stacktop", ctxs[0])
                    SIZE = ("call", "ABTD_ythread_context_get_stacksize", ctxs[0])
                    want = mk_bin("-", TOP, tsubst(off_alloc, ("var", size_p), SIZE))
                    ok = ft == want
                    why = "allocated base = top - [%s] but the pointer freed is [%s]" % (
                        tshow(off_alloc), tshow(tsubst(tsubst(ft, SIZE, ("var", size_p)), TOP, ("var", "TOP"))))
    rep.ob("R1", "MALLOC_DESC_STACK: the pointer passed to free() equals the pointer malloc() returned (term equality)", ok, why,
           loc=MH, site="malloc_desc_stack/pointer-term")
    # the size recorded in the context is the size the allocation was computed from
    for an in ("ABTI_mem_alloc_ythread_malloc_desc_stack", "ABTI_mem_alloc_ythread_mempool_desc_stack"):
        G = P.fn(an, MH)
        gsize = param_of_type(G, "size_t")
        # locals that receive the stack top from a descriptor+stack allocator (its last, `void **` argument)
        tops = set(addr_var(G, G.nodes[i]["a"][-1]) for b, i in G.calls(set(k for k, v in ALLOC_FAMILY.items() if v[1] == "stack")))
        bad = []
        for b, i in G.calls("ABTD_ythread_context_init"):
            a = G.nodes[i]["a"]
            got = (term(G, a[1]), term(G, a[2]))
            if not (got[0][0] == "var" and got[0][1] in tops and got[0][1] is not None and got[1] == ("var", gsize)):
                bad.append([tshow(x) for x in got])
        rep.ob("R1", "%s records the stack top and the requested size in the context" % an, not bad and bool(G.calls("ABTD_ythread_context_init")),
               str(bad), loc=G.file, site="%s/context-init" % an)
    # (d) large pages
    L = P.fn("ABTU_free_largepage", "src/util/largepage.c")
    tparam = param_of_type(L, "ABTU_MEM_LARGEPAGE_TYPE")
    rep.need(tparam, "ABTU_free_largepage: no ABTU_MEM_LARGEPAGE_TYPE parameter in %s" % L.params)
    lp_re = re.compile(r"^%s == (ABTU_MEM_LARGEPAGE_\w+)$" % re.escape(tparam))
    sel = seq.Sel(calls={"ABTU_free", "mmap_free"}, conds=lambda t: bool(lp_re.match(t)), canon=True)
    pairs = {}
    for toks, kind, rv, rtxt in seq.sequences(L, sel):
        t_true = [t for t in toks if t[0] == "if" and t[2]]
        d = [t[1] for t in toks if t[0] == "call"]
        if t_true:
            pairs[lp_re.match(t_true[-1][1]).group(1)] = d
    if not pairs:
        pairs = _switch_dispatch(L, tparam, {"ABTU_free", "mmap_free"})
    want = {"ABTU_MEM_LARGEPAGE_MALLOC": ["ABTU_free"], "ABTU_MEM_LARGEPAGE_MEMALIGN": ["ABTU_free"],
            "ABTU_MEM_LARGEPAGE_MMAP": ["mmap_free"], "ABTU_MEM_LARGEPAGE_MMAP_HUGEPAGE": ["mmap_free"]}
    for k, v in sorted(want.items()):
        rep.ob("R1", "large page of type %s is released with %s" % (k, v[0]), pairs.get(k) == v, "got %s" % pairs.get(k), loc=L.file,
               site="largepage/free/%s" % k)
    LA = P.fn("ABTU_alloc_largepage", "src/util/largepage.c")
    aparam = param_of_type(LA, "ABTU_MEM_LARGEPAGE_TYPE*", mutable=True)
    rep.need(aparam, "ABTU_alloc_largepage: no `ABTU_MEM_LARGEPAGE_TYPE *` out-parameter in %s" % LA.params)
    allocators = {"ABTU_malloc", "ABTU_memalign", "mmap_regular", "mmap_hugepage"}
    names = dict((v, k) for k, v in P.enum_consts.items() if k.startswith("ABTU_MEM_LARGEPAGE_"))
    got = {}
    # on every path the type recorded through the out-parameter is paired with the allocator called last before it
    # (the value is the constant stored, or the constant the stored variable was just compared equal to)
    for toks, kind, rv, rtxt in seq.sequences(LA, seq.Sel(calls=allocators, derefs={aparam}, canon=True), max_repeat=1, max_len=40):
        for j, t in enumerate(toks):
            if t[0] == "dst" and t[1] == aparam:
                al = [u[1] for u in toks[:j] if u[0] == "call"]
                got.setdefault(names.get(t[2], t[2]), set()).add(al[-1] if al else None)
    wantA = {"ABTU_MEM_LARGEPAGE_MALLOC": "ABTU_malloc", "ABTU_MEM_LARGEPAGE_MEMALIGN": "ABTU_memalign",
             "ABTU_MEM_LARGEPAGE_MMAP": "mmap_regular", "ABTU_MEM_LARGEPAGE_MMAP_HUGEPAGE": "mmap_hugepage"}
    for k, v in sorted(wantA.items()):
        rep.ob("R1", "large page recorded as %s was obtained from %s" % (k, v), got.get(k) == {v}, "got %s" % sorted(map(str, got.get(k, []))),
               loc=LA.file, site="largepage/alloc/%s" % k)
    # (e) descriptors: the tag word decides the deallocator
    if P.fns("ABTI_mem_alloc_desc"):
        D = P.fn("ABTI_mem_alloc_desc", MH)
        # path-wise: the constant stored into the tag word (directly or through a flag local) is paired with the
        # allocator that ran on that path
        from abtverif import paths as _paths

        def _sel_tag(F, nid, ctx):
            nd = F.nodes[nid]
            if nd.get("k") == "call" and nd.get("fn") in ("ABTU_malloc", "ABTI_mem_pool_alloc"):
                return ("call", nd["fn"], (), nid)
            if nd.get("k") == "bin" and nd.get("asg") and nd["op"] == "=" and _is_tag_word(F, nd["lh"]):
                return ("tag", ctx.value(nd["rh"]), nid)
            return None
        tags = {}
        for toks, kind, rv, rtxt in _paths.enumerate_paths(D, _sel_tag, max_len=40):
            for j, t in enumerate(toks):
                if t[0] == "tag":
                    al = [u[1] for u in toks[:j] if u[0] == "call"]
                    cur = tags.setdefault(t[1], al)
                    if cur != al:
                        tags[t[1]] = sorted(set(cur) | set(al)) + ["<disagree>"]
        noext = P.variant == "no_ext_thread"
        ok = tags.get(0) == ["ABTI_mem_pool_alloc"] and (noext or tags.get(1) == ["ABTU_malloc"])
        rep.ob("R1", "descriptor tag word: 1 = malloc'ed, 0 = memory pool", ok, str(tags), loc=D.file, site="desc/tag")
        FD = P.fn("ABTI_mem_free_desc", MH)

        def fd_cond(label, F, node):
            if _is_tag_word(F, resolve(F, cond_root(F, node))):
                return "TAG"             # true = tag word non-zero = malloc'ed
            return label.startswith(XS_NULL)
        sel = seq.Sel(calls={"ABTU_free", "ABTI_mem_pool_free"}, conds=fd_cond, canon=True)
        for toks, kind, rv, rtxt in seq.sequences(FD, sel):
            if kind != "ret":
                continue
            tag = [t for t in toks if t[0] == "if" and t[1] == "TAG"]
            d = [t[1] for t in toks if t[0] == "call"]
            ok = len(d) == 1 and ((tag and ((tag[0][2] and d == ["ABTU_free"]) or (not tag[0][2] and d == ["ABTI_mem_pool_free"]))) or
                                  (noext and not tag and d == ["ABTI_mem_pool_free"]))
            rep.ob("R1", "free_desc tag=%s -> %s" % (tag[0][2] if tag else "?", d), bool(ok), show(toks), loc=FD.file,
                   site="desc/free/%s" % (tag[0][2] if tag else "?"))
    rep.min_instances("R1", 25)


def _is_tag_word(F, node):
    """The descriptor's trailing tag word: `*(uint32_t *)((char *)desc + ABTI_MEM_POOL_DESC_SIZE)`, also when the
    address was first put into a local pointer."""
    if "ABTI_MEM_POOL_DESC_SIZE" in macros_in(F, node):
        return True
    n = F.nodes[F.strip(node)]
    if n.get("k") == "un" and n["op"] == "*":
        a = resolve(F, n["e"])
        e = F.nodes[a]
        return "ABTI_MEM_POOL_DESC_SIZE" in macros_in(F, a) or (e.get("k") == "bin" and e["op"] == "+")
    return False


def _switch_dispatch(F, var, want_calls):
    """{enumerator: [wanted callees reached]} for a `switch (var)`; fall-through into the next label is followed,
    `break`/`return` end a case."""
    out = {}
    heads = [b for b in F.blocks.values() if b.tk == "SwitchStmt" and b.tc is not None and canon.expr(F, b.tc) == var]
    for h in heads:
        for s in h.succs:
            if s is None or not F.blocks[s].casename:
                continue
            calls, seen, st = [], set(), [s]
            while st:
                x = st.pop()
                if x in seen:
                    continue
                seen.add(x)
                B = F.blocks[x]
                for i in B.elems:
                    nd = F.nodes[i]
                    if nd.get("k") == "call" and nd.get("fn") in want_calls:
                        calls.append(nd["fn"])
                if B.tk == "BreakStmt" or any(F.nodes[i].get("k") == "ret" for i in B.elems):
                    continue
                st.extend(y for y in B.succs if y is not None)
            out[F.blocks[s].casename] = calls
    return out


_FLAGVALS = {}


def P_flag_value(P, F, macro):
    """Value of an ABTI_THREAD_TYPE_MEM_* macro: found from any constant expression produced by it."""
    if macro in _FLAGVALS:
        return _FLAGVALS[macro]
    for G in P.functions.values():
        for nd in G.nodes:
            if nd and nd.get("m") and nd["m"][0] == macro and "cv" in nd and len(nd["m"]) == 1 and nd.get("k") == "cast":
                _FLAGVALS[macro] = nd["cv"]
                return nd["cv"]
    for G in P.functions.values():
        for nd in G.nodes:
            if nd and nd.get("m") and macro in nd["m"] and "cv" in nd and nd.get("k") in ("bin", "cast"):
                _FLAGVALS.setdefault(macro, nd["cv"])
    return _FLAGVALS.get(macro)


# ---- R2 ---------------------------------------------------------------------------------------------------------

def rule_R2(P, rep):
    LH = "src/include/abti_sync_lifo.h"
    for fn, kind in (("ABTI_sync_lifo_push", "cas"), ("ABTI_sync_lifo_pop", "cas"), ("ABTI_sync_lifo_push_unsafe", "store"),
                     ("ABTI_sync_lifo_pop_unsafe", "store")):
        F = P.fn(fn, LH)
        upd = F.calls({"ABTD_atomic_bool_cas_weak_tagged_ptr", "ABTD_atomic_relaxed_store_non_atomic_tagged_ptr",
                       "ABTD_atomic_release_store_non_atomic_tagged_ptr"})
        loads = F.calls({"ABTD_atomic_acquire_load_non_atomic_tagged_ptr", "ABTD_atomic_relaxed_load_non_atomic_tagged_ptr"})
        if not upd:
            rep.skip("R2", "%s: no tagged-pointer build in this configuration" % fn)
            continue
        for b, i in upd:
            nd = F.nodes[i]
            args = [F.render(a) for a in nd["a"]]
            targs = [term(F, a) for a in nd["a"]]
            why = []
            ld = [j for b2, j in loads if cfg.dominates(F, j, i)]
            if not ld:
                why.append("update not dominated by a load of the top word")
            else:
                la = F.nodes[ld[-1]]["a"]
                # the locals the load wrote the pointer and the tag into (out-parameters: never resolved further)
                pv, tv = addr_var(F, la[1]), addr_var(F, la[2])
                next_tag = mk_bin("+", ("var", tv), ("int", 1))
                if pv is None or tv is None:
                    why.append("the load of the top word does not write into two locals")
                elif nd["fn"].endswith("cas_weak_tagged_ptr"):
                    if targs[1] != ("var", pv) or targs[2] != ("var", tv):
                        why.append("CAS expects (%s,%s) but the iteration loaded (%s,%s)" % (args[1], args[2], pv, tv))
                    if targs[4] != next_tag:
                        why.append("new tag is %s, not %s + 1 (ABA protection)" % (args[4], tv))
                    if "acquire" not in F.nodes[ld[-1]]["fn"]:
                        why.append("top word not acquire-loaded before the CAS")
                    # the load must be re-done in every iteration: it lies inside the loop that contains the CAS
                    if not cfg.can_reach(F, i, ld[-1]):
                        why.append("top word loaded outside the retry loop (a failed CAS would retry with stale values)")
                else:
                    if targs[2] != next_tag:
                        why.append("new tag is %s, not %s + 1" % (args[2], tv))
            rep.ob("R2", "%s: %s(%s)" % (fn, nd["fn"].replace("ABTD_atomic_", ""), ", ".join(tshow(t) for t in targs[1:])), not why,
                   "; ".join(why), loc=F.loc(i), site="%s/%s" % (fn, nd["fn"]))
        # push links the element before publishing it; pop reads the successor before the CAS
        if "push" in fn:
            elem = param_of_type(F, "ABTI_sync_lifo_element*")
            st = [i for b, i, lh, rh in F.stores() if canon.rooted(F, lh) == "%s->p_next" % elem]
            ok = bool(st) and all(any(cfg.dominates(F, s, i) for s in st) for b, i in upd)
            rep.ob("R2", "%s links p_elem->p_next before publishing p_elem" % fn, ok, "", loc=F.file, site="%s/link-first" % fn)


def rule_R2_unsafe(P, rep):
    """Who may call the single-threaded LIFO variants: only the lock-based fallback inside abti_sync_lifo.h and the
    routines that run while no other stream can reach the pool (creation / destruction of a global pool)."""
    LH = "src/include/abti_sync_lifo.h"
    n = 0
    for F in sorted(P.functions.values(), key=lambda f: (f.file, f.line)):
        for _b, i in F.calls({"ABTI_sync_lifo_push_unsafe", "ABTI_sync_lifo_pop_unsafe"}):
            n += 1
            ok = F.file == LH or bool(re.search(r"(init|destroy)_global_pool$", F.name))
            rep.ob("R2", "%s uses %s only where no other stream can reach the list" % (F.name, F.nodes[i]["fn"]), ok,
                   "%s can run concurrently with ABTI_sync_lifo_push/pop on another stream: the unsynchronised variant loses or "
                   "duplicates a bucket" % F.name, loc=F.loc(i), site="%s/%s" % (F.name, F.nodes[i]["fn"]))
    rep.need(n >= 1, "no use of the unsynchronised LIFO variants found")


# ---- R3 ---------------------------------------------------------------------------------------------------------

def rule_R3(P, rep):
    n = 0
    for F in sorted(P.functions.values(), key=lambda f: (f.file, f.line)):
        sites = []
        for b, i in F.calls({"ABTI_mem_pool_alloc", "ABTI_mem_pool_free"}):
            p = _pool_of(F, i)
            if p.endswith("_ext"):
                sites.append((i, p))
        if not sites:
            continue
        ts = run_canon_locks(P, F)
        for i, p in sites:
            n += 1
            want = "mem_pool_stack_lock" if "stack" in p else "mem_pool_desc_lock"
            helds = ts.at.get(i, set())
            ok = bool(helds) and all(any(k.endswith("::" + want) for k in h) for h in helds)
            rep.ob("R3", "%s accesses %s under %s" % (F.name, p, want), ok, "lock sets %s" % sorted(sorted(h) for h in helds),
                   loc=F.loc(i), site="%s/%s" % (F.name, p))
        unb = [(k, nid, h) for k, nid, h, rv in ts.exits if k == "ret" and h]
        rep.ob("R3", "%s leaves the external-pool locks released" % F.name, not unb and not ts.errors, str(unb) + str(ts.errors),
               loc=F.file, site="%s/balance" % F.name)
    if P.variant != "no_ext_thread":
        rep.need(n >= 4, "only %d external-pool accesses found" % n)
    # partial bucket
    for F in P.functions.values():
        acc = [i for i, nd in enumerate(F.nodes) if nd and nd.get("k") == "mem" and nd["f"] == "partial_bucket" and nd.get("r") == "ABTI_mem_pool_global_pool"]
        if not acc or F.name in ("ABTI_mem_pool_init_global_pool", "ABTI_mem_pool_destroy_global_pool"):
            continue
        ts = run_canon_locks(P, F)
        pm = F.parent_map()
        bad = []
        for i in acc:
            j = i
            while j is not None and j not in ts.at:
                j = pm.get(j)
            if j is None:
                continue
            if not all(any(k.endswith("::partial_bucket_lock") for k in h) for h in ts.at[j]):
                bad.append(F.loc(i))
        rep.ob("R3", "%s touches partial_bucket only under partial_bucket_lock" % F.name, not bad, str(sorted(set(bad))), loc=F.file,
               site="%s/partial_bucket" % F.name)


# ---- R4 ---------------------------------------------------------------------------------------------------------

def rule_R4(P, rep):
    F = P.fn("ABT_thread_attr_set_stack", "src/thread_attr.c")
    addr = param_of_type(F, "void*")
    rep.need(addr, "ABT_thread_attr_set_stack: no `void *` stack-address parameter in %s" % F.params)

    def conds(label):
        if label == addr:
            return "nonnull"              # true = the address is not NULL
        if label in ("%s & 7" % addr, "7 & %s" % addr):
            return "misaligned"           # true = one of the low three bits is set
        if label in ("%s %% 8" % addr,):
            return "misaligned"
        return None
    sel = seq.Sel(calls={"thread_attr_set_stack"}, conds=conds, rets=True, canon=True)
    n = 0
    for toks, kind, rv, rtxt in seq.sequences(F, sel):
        call = idx(toks, is_call("thread_attr_set_stack"))
        if kind != "ret" or not call:
            continue
        n += 1
        pre = [t for t in toks[:call[0]] if t[0] == "if"]
        isnull = any(t[1] == "nonnull" and not t[2] for t in pre)
        aligned = any(t[1] == "misaligned" and not t[2] for t in pre)
        rep.ob("R4", "ABT_thread_attr_set_stack accepts only NULL or 8-byte aligned addresses", isnull or aligned, show(toks), loc=F.file,
               site="attr_set_stack/%s" % ("null" if isnull else "aligned"))
    rep.need(n >= 2, "attr_set_stack: %d accepting paths" % n)
    sub = type(rep)(rep.prop, rep.tier, rep.variant)
    C02.rules_asm(P, sub)
    for o in sub.obligations:
        if o["rule"] == "A4":
            rep.ob("R4", "[C02.A4] " + o["instance"], o["ok"], o["detail"], o["loc"], site="R4/" + o["instance"][:120])


def rule_R5(P, rep):
    D = P.fn("ABTI_mem_pool_destroy_global_pool", "src/mem/mem_pool.c")
    frees = [i for _b, i in D.calls("ABTU_free_largepage")]
    undo = [i for _b, i in D.calls("protect_memory") if D.nodes[D.strip(D.nodes[i]["a"][3])].get("cv") == 0]
    rep.need(len(frees) >= 2, "destroy_global_pool releases pages at %d sites" % len(frees))
    if P.fns("protect_memory"):
        rep.need(len(undo) >= 2, "destroy_global_pool undoes the guard at %d sites" % len(undo))
    for u in undo:
        # the release this undo belongs to: the nearest release it dominates
        mine = [f for f in frees if cfg.dominates(D, u, f) or cfg.can_reach(D, u, f, avoid_nodes=[x for x in frees if x != f])]
        mine = [f for f in mine if not any(cfg.can_reach(D, u, g) and cfg.can_reach(D, g, f) and g != f for g in frees)]
        ok = len(mine) == 1
        why = "no unique release follows this undo"
        if ok:
            ua, fa = D.nodes[u]["a"], D.nodes[mine[0]]["a"]
            got = (canon.expr(D, ua[0]), canon.expr(D, ua[1]))
            want = (canon.expr(D, fa[0]), canon.expr(D, fa[1]))
            ok = got == want
            why = "guard undone on (%s, %s) but the region released is (%s, %s): pages of the allocator keep a read-only hole" % (got + want)
        rep.ob("R5", "destroy_global_pool: the guard is undone on exactly the region that is released", ok, why, loc=D.loc(u),
               site="destroy_global_pool/undo/%d" % undo.index(u))
    # a user-supplied stack keeps the size the user gave
    A = P.fn("thread_attr_set_stack", "src/thread_attr.c")
    szp = param_of_type(A, "size_t")
    vals = [canon.expr(A, rh) for _b, i, lh, rh in A.stores() if rh is not None and A.field_of(lh) == ("ABTI_thread_attr", "stacksize")]
    rep.ob("R5", "thread_attr_set_stack records the caller's stack size unchanged", bool(vals) and all(v == szp for v in vals),
           "stores %s (a user-supplied stack of that many bytes ends before the recorded top)" % vals, loc=A.file, site="attr_set_stack/size")


def rule_R6(P, rep):
    def kind(F, a):
        # through pointer temporaries: the canonical value names the sub-object (`&ABTI_xstream::mem_pool_desc`)
        t = canon.expr(F, a)
        if "::" not in t:
            return None
        f = t.rsplit("::", 1)[1]
        return "stack" if "stack" in f else ("desc" if "desc" in f else f)
    n = 0
    for F in sorted(P.functions.values(), key=lambda f: (f.file, f.line)):
        for _b, i in F.calls("ABTI_mem_pool_init_local_pool"):
            a = F.nodes[i]["a"]
            k0, k1 = kind(F, a[0]), kind(F, a[1])
            n += 1
            rep.ob("R6", "%s: local pool %s is fed by the global pool of the same kind" % (F.name, canon.expr(F, a[0])),
                   k0 is not None and k0 == k1, "local pool %s initialised against %s" % (canon.expr(F, a[0]), canon.expr(F, a[1])),
                   loc=F.loc(i), site="%s/pool-pair/%s" % (F.name, canon.expr(F, a[0])))
    if P.variant != "no_mem_pool":
        rep.need(n >= 2, "only %d local pool initialisations" % n)
    # create_many: a user-supplied stack cannot be shared by the units of one batch
    C = P.fn("ABT_thread_create_many", "src/thread.c")
    ap = [p["n"] for p in C.params if p["t"].replace(" ", "") == "ABT_thread_attr"]
    rep.need(len(ap) == 1, "ABT_thread_create_many: attribute parameter not found")

    def conds(t):
        if t in ("%s == %s" % (ap[0], v) for v in ("0", "(void *)0")) or re.match(r"^%s == \d+$" % re.escape(ap[0]), t) or t == ap[0]:
            return ("attr", False) if t == ap[0] else "attr-null"
        if t == "ABTI_thread_attr::p_stack":
            return ("stack-null", True)
        return None
    sel = seq.Sel(calls={"ythread_create"}, conds=conds, canon=True, locks=False)
    m = 0
    for toks, kind_, rv, rtxt in seq.sequences(C, sel, max_repeat=1, max_len=40):
        cs = [j for j, t in enumerate(toks) if t[0] == "call"]
        if not cs:
            continue
        m += 1
        pre = [t for t in toks[:cs[0]] if t[0] == "if"]
        ok = any((t[1] in ("attr-null",) and t[2]) or (t[1] == "stack-null" and t[2]) for t in pre)
        rep.ob("R6", "create_many creates units only without an attribute or after testing that it carries no user stack", ok,
               "a creation is reached with an attribute whose p_stack was not tested: %s" % show(toks)[:160],
               loc="%s:%d" % (C.file, C.line), site="create_many/user-stack/%s" % show(pre)[:80])
    rep.need(m >= 2, "ABT_thread_create_many: %d creating paths" % m)


def rule_R7(P, rep):
    if not P.fns("ABTI_mem_pool_free"):
        rep.skip("R7", "no memory pool in this configuration")
        return
    F = P.fn("ABTI_mem_pool_free", "src/include/abti_mem_pool.h")
    fld = [x for x in P.record("ABTI_mem_pool_local_pool")["fields"] if x["n"] == "buckets"]
    m = re.search(r"\[(\d+)\]", fld[0]["t"]) if fld else None
    rep.need(m, "ABTI_mem_pool_local_pool::buckets is not an array")
    N = int(m.group(1))
    # loops whose body copies buckets[i] to a lower slot
    n = 0
    for _b, i, lh, rh in F.stores():
        if rh is None or F.field_of(lh) != ("ABTI_mem_pool_local_pool", "buckets") or \
                F.field_of(rh) != ("ABTI_mem_pool_local_pool", "buckets"):
            continue
        from abtverif import ctrldep
        heads = [a for a, k in ctrldep.closure(F, F.block_of(i)) if F.blocks[a].tk in ("ForStmt", "WhileStmt", "DoStmt") and F.blocks[a].tc is not None]
        bounds = []
        for a in heads[:1]:
            nd = F.nodes[F.strip(cfg.cond_atom(F, F.blocks[a].tc, True)[0])]
            if nd.get("k") == "bin" and nd["op"] in ("<", "<=", "!="):
                cv = F.nodes[F.strip(nd["rh"])].get("cv")
                if cv is not None:
                    bounds.append(cv + (1 if nd["op"] == "<=" else 0))
        n += 1
        # direction: the destination slot is the lower one (`buckets[i - K] = buckets[i]`)
        ln_, rn_ = F.nodes[F.strip(lh)], F.nodes[F.strip(rh)]
        if ln_.get("k") == "idx" and rn_.get("k") == "idx":
            di, si = common.const_eval(F, ln_["i"]), common.const_eval(F, rn_["i"])
            dtxt, stxt = canon.expr(F, ln_["i"], 0), canon.expr(F, rn_["i"], 0)
            down = (di is not None and si is not None and di < si) or re.match(r"^%s - \d+$" % re.escape(stxt), dtxt) is not None or \
                re.match(r"^%s \+ \d+$" % re.escape(dtxt), stxt) is not None
            rep.ob("R7", "ABTI_mem_pool_free moves kept buckets to LOWER slots (buckets[%s] = buckets[%s])" % (dtxt, stxt), down,
                   "the copy goes from the lower to the higher slot: the buckets just returned to the global pool stay "
                   "referenced by the local pool and their blocks are handed out twice", loc=F.loc(i), site="mem_pool_free/shift-direction")
        rep.ob("R7", "ABTI_mem_pool_free shifts every kept bucket down (loop runs to %d)" % N, bounds == [N],
               "the shift loop stops at %s of %d buckets: a returned bucket stays referenced, a kept one is lost" % (bounds, N),
               loc=F.loc(i), site="mem_pool_free/shift")
    rep.need(n >= 1, "ABTI_mem_pool_free: no bucket shift found")


def rule_R8(P, rep):
    """Sibling agreement of ABTI_mem_register_stack / ABTI_mem_unregister_stack: the guard page is made accessible again
    under exactly the stack_guard_kind values under which it was protected."""
    H = "src/include/abti_mem.h"
    kinds = {}
    for e in P.enums.values():
        for name, val in e["consts"].items():
            if name.startswith("ABTI_STACK_GUARD_"):
                kinds[val] = name
    rep.need(len(kinds) >= 3, "ABTI_STACK_GUARD_* enumerators: %s" % kinds)
    byname = dict((n_, v) for v, n_ in kinds.items())
    reach = {}
    for fn in ("ABTI_mem_register_stack", "ABTI_mem_unregister_stack"):
        F = P.fn(fn, H)

        def conds(label, F_, node):
            if "stack_guard_kind ==" in label and F_.nodes[F_.strip(node)].get("k") != "bin":
                return label            # an arm of `switch (kind)`: the engine's `kind == ENUMERATOR`
            lab, flip = canon.cond(F_, node)
            return (lab, flip) if "stack_guard_kind" in lab else None
        sel = seq.Sel(calls={"ABTU_mprotect"}, conds=conds, canon=True, locks=False)
        ok_for = set()
        ncalls = nt = 0
        for toks, kind, rv, rtxt in seq.sequences(F, sel, max_len=60):
            if not idx(toks, is_call("ABTU_mprotect")):
                continue
            ncalls += 1
            cut = idx(toks, is_call("ABTU_mprotect"))[0]
            tests = []
            for t in toks[:cut]:
                if t[0] != "if":
                    continue
                m = re.match(r"^ABTI_global::stack_guard_kind (==|!=|<|<=|>|>=) (\w+)$", t[1])
                if m:
                    c = m.group(2)
                    c = int(c) if c.isdigit() else byname.get(c)
                    if c is not None:
                        tests.append((m.group(1), c, bool(t[2])))
                        nt += 1
            OPS = {"==": lambda x, y: x == y, "!=": lambda x, y: x != y, "<": lambda x, y: x < y, "<=": lambda x, y: x <= y,
                   ">": lambda x, y: x > y, ">=": lambda x, y: x >= y}
            for v in kinds:
                if all(OPS[op](v, c) == truth for op, c, truth in tests):
                    ok_for.add(v)
        rep.need(ncalls >= 1, "%s never calls ABTU_mprotect" % fn)
        rep.need(nt >= 1, "%s: no recognised test of stack_guard_kind governs ABTU_mprotect" % fn)
        reach[fn] = ok_for
    a, b = reach["ABTI_mem_register_stack"], reach["ABTI_mem_unregister_stack"]
    show = lambda s_: sorted(kinds[v] for v in s_)
    rep.ob("R8", "the stack guard page is unprotected under the same stack_guard_kind values under which it is protected", a == b,
           "protected for %s, unprotected for %s" % (show(a), show(b)), loc=H, site="stack-guard/kinds")


def rule_R9(P, rep):
    """The element count written into a bucket header is the number of blocks linked into that bucket: where a bucket is
    being carved block by block, the count stored is the running counter -- or a value the path has just compared equal
    to it."""
    from abtverif import ctrldep
    if not P.fns("ABTI_mem_pool_take_bucket"):
        rep.skip("R9", "no memory pool in this configuration")
        return
    F = P.fn("ABTI_mem_pool_take_bucket", "src/mem/mem_pool.c")
    counters = [v for v in sorted(set(x["n"] for nd in F.nodes if nd and nd.get("k") == "decl" for x in nd["vars"]))
                if None in F.var_defs(v) and any(d is not None and F.nodes[F.strip(d)].get("cv") == 0 for d in F.var_defs(v))]
    n = 0
    for _b, i, lh, rh in F.stores():
        fo = F.field_of(lh)
        if rh is None or not fo or fo[1] != "num_headers":
            continue
        conds = ctrldep.conditions(F, i)
        scope = [c for c in counters if any(re.search(r"\b%s\b" % re.escape(c), lab) for lab, _v, _a in conds)]
        if not scope:
            continue            # a complete bucket taken from the shared list: nothing is being counted here
        n += 1
        val = canon.expr(F, rh, 0)
        full = canon.expr(F, rh)
        ok = val in scope
        if not ok:
            for c in scope:
                for lab, v, _a in conds:
                    if v is True and lab in ("%s == %s" % (full, c), "%s == %s" % (c, full)):
                        ok = True
        rep.ob("R9", "ABTI_mem_pool_take_bucket labels the bucket it carved with the number of blocks it holds (`%s`)" % val, ok,
               "the header count is set to `%s` although the path counted %s blocks and has not found the two equal: the partial "
               "bucket claims more elements than its list holds" % (val, "/".join(scope)), loc=F.loc(i),
               site="take_bucket/count/%s" % val)
    rep.need(n >= 2, "ABTI_mem_pool_take_bucket: only %d counted bucket labels (counters %s)" % (n, counters))


def run(P, rep, tier):
    common.rule_X9(P, rep, fields=[('ABTI_sync_lifo', 'p_top'), ('ABTI_mem_pool_global_pool', 'p_mem_page_empty')])
    common.rule_X7(P, rep, records=('ABTI_thread_attr',))
    common.rule_X4(P, rep)
    common.run_shared(P, rep, which=("X1", "X2"))
    rule_R1(P, rep)
    rule_R2(P, rep)
    rule_R2_unsafe(P, rep)
    rule_R3(P, rep)
    rule_R4(P, rep)
    rule_R5(P, rep)
    rule_R6(P, rep)
    rule_R7(P, rep)
    rule_R8(P, rep)
    rule_R9(P, rep)
    from . import C11
    common.borrow(rep, P, C11.rule_R6, "R10")
    from . import C16
    common.borrow(rep, P, C16.rule_R8, "R11")
