"""C01 -- every work unit runs exactly once (structural part)."""
import re

from abtverif import canon, cfg, seq
from abtverif.seq import idx, is_call, show, has_if
from . import common, C03, C06, C07, C12

EXPLANATION = (
    "Decides the single-publication / single-dispatch shape of the code.  R1: creation and revival push the new "
    "unit exactly once on success paths that request a push and never on error paths.  R2: no field of the new "
    "descriptor is written after that push (another stream may already run it).  R3: ABTI_ythread_schedule runs a "
    "unit exactly once (ULT: one run_child; tasklet: one call of its own f_thread with its own p_arg, then one "
    "terminate), does nothing for a cancelled unit and re-pushes a migrated unit once.  R4: the ULT entry wrapper "
    "calls the unit's function once with its argument and then exits; it never returns.  R5: every yield-family "
    "callback re-pushes the caller exactly once unless it was cancelled.  R6 (= C03.R6) termination shape.  R7: "
    "the four predefined scheduler loops schedule every unit they pop before popping again or leaving, leave only "
    "through a true ABTI_sched_has_to_stop (or the empty-scheduler early return) and check events before asking; "
    "the four siblings must agree.  R8/R9 (= C06.R5/R6) termination predicates and top-level loops.  R10 (= C07.R2) "
    "the emptiness flag is coherent.  Execution by user-defined schedulers/pools is opaque and not decided.")
DECLINED = ["'by some stream that schedules its pool' and completion before finalize for user-defined schedulers/pools",
            "duplication caused by a user pool that hands a unit out twice"]
ASSUMPTIONS = ["C02 (context switch), C07 (built-in pools)"]
RULES_DOC = dict(common.SHARED_DOC)
RULES_DOC["X9"] = common.X9_DOC
RULES_DOC["X8"] = common.X8_DOC
RULES_DOC["R11"] = "= C06.R2: a resumed unit is pushed before it stops being counted as blocked (never in flight and unaccounted: a stream may not terminate under it)"
RULES_DOC["R12"] = "= C07.R1: every queue operation installed for a shared access mode runs under the pool lock (no unit lost or handed out twice)"
RULES_DOC["R13"] = "= C12.R4: revive clears every pending request before the unit is pushed (a stale cancel/migrate request does not swallow the revived run)"
RULES_DOC["R14"] = "RANDWS scheduler: the pool it steals from ranges over every pool but its own -- the index is `random % A + B` with B = 1 and A + B = num_pools (or the constant 1 when there are two pools), so no pool of the scheduler is left unpolled"
RULES_DOC["R15"] = "= C07.R7: the batch push hands every non-NULL handle to the pool exactly once (compaction with one counter)"
RULES_DOC["X4"] = common.X4_DOC
RULES_DOC["R16"] = "work-unit constructors initialise every ABTI_thread field that a revive re-initialises (state, request, function, argument, parent, last stream): descriptors are recycled by the memory pool, so a constructor that leaves `request` alone lets a new unit inherit a stale cancel or migration request"
RULES_DOC["R18"] = "= C11.R4: yield_to takes the target out of the TARGET's pool: removing from the caller's pool drops another unit that waits there and leaves the target queued for a second start"
RULES_DOC["R20"] = "= C17.R6: a scan over a scheduler's pools is bounded by the pool count of the SAME scheduler: replacing the main scheduler re-associates the calling unit whichever pool of the old scheduler it lives in (otherwise it is suspended on a pool that is never drained)"
RULES_DOC["R22"] = "= C07.R10: ABT_sched_get_total_size counts the blocked units of the scheduler's pools: a user-defined scheduler that stops when it reports 0 does not abandon a unit that is blocked and will be pushed back"
RULES_DOC["R21"] = "= C19.R2: a timed-out waiter unlinks itself completely (predecessor link and, when it was the tail, the tail pointer): a waiter appended behind a stale tail is unreachable and never woken"
RULES_DOC["R19"] = "= C13.R4: a unit is migrated only to a stream observed RUNNING under the stream-list lock: pushed to the pool of a joined stream it would never complete"
RULES_DOC["R17"] = "= C06.R1/R3/R4: a unit that blocks is counted on the pool it belongs to after request handling (a blocked unit whose pool looks idle is lost when the only stream of that pool is joined)"
RULES_DOC.update({
    "R1": "create/revive push the unit exactly once iff pool_op == PUSH, never on error paths",
    "R2": "no store to the new descriptor after it was pushed",
    "R3": "schedule: NONE -> exactly one run; CANCELLED -> nothing; MIGRATED -> exactly one re-push",
    "R4": "ULT entry wrapper: f_thread(p_arg) of the same unit once, then exit; never returns",
    "R5": "yield callbacks: cancelled (no push) xor exactly one push of the caller",
    "R6": "= C03.R6 single release-store of TERMINATED",
    "R7": "predefined scheduler loops: popped => scheduled; exit only via has_to_stop (after check_events); siblings agree",
    "R8": "= C06.R5 has_unit / has_to_stop", "R9": "= C06.R6 main scheduler and root loops",
    "R10": "= C07.R2 emptiness flag coherence",
})
VARIANTS = ["no_ext_thread", "lazy_stack", "tool_interface"]
T = "src/thread.c"
YH = "src/include/abti_ythread.h"
PUSHES = {"ABTI_pool_push": 1, "ABTI_pool_add_thread": 0}       # callee -> index of the unit argument
# accessors that return the very object they are given (a ULT descriptor embeds its ABTI_thread)
SAME_OBJECT = {"ABTI_thread_get_ythread", "ABTI_thread_get_ythread_or_null"}


# ---- name-independent helpers (private to this file) ----------------------------------------

def _macro_cv(P, name):
    """Integer a repository macro expands to, taken from any expression of the program that was
    produced by expanding it (conditions are compared by value, never by their spelling)."""
    cache = P.__dict__.setdefault("_c01_macro_cv", {})
    if name not in cache:
        val = None
        for F in P.functions.values():
            for nd in F.nodes:
                if nd and nd.get("k") == "int" and "cv" in nd and (nd.get("m") or [None])[0] == name:
                    val = nd["cv"]
                    break
            if val is not None:
                break
        cache[name] = val
    return cache[name]


def _root(F, i, hops=10):
    """Identity of the object an access path is rooted at, whatever the locals are called:
    `x->f.g`, `&x->f`, `x[i]` are rooted at x; a local that has a single reaching definition is
    replaced by that definition; get_ythread(x) is x.  ('var', name) or ('expr', canonical text)."""
    at = i
    while hops > 0:
        hops -= 1
        i = F.strip(i)
        nd = F.nodes[i]
        k = nd.get("k")
        if k == "mem" or k == "idx":
            i = nd["b"]
        elif k == "un" and nd["op"] in ("&", "*"):
            i = nd["e"]
        elif k == "call" and nd.get("fn") in SAME_OBJECT and nd["a"]:
            i = nd["a"][0]
        elif k == "ref" and nd.get("dk") == "var":
            d = canon.reaching_def(F, nd["n"], at)
            if not isinstance(d, int) or F.nodes[F.strip(d)].get("k") in ("ilist", "zero", "int"):
                return ("var", nd["n"])
            i = at = d
        else:
            break
    i = F.strip(i)
    nd = F.nodes[i]
    if nd.get("k") == "ref":
        return ("var", nd["n"])
    return ("expr", canon.expr(F, i, 4))


def _val(F, i):
    """Canonical text of a value (locals replaced by what they were assigned from)."""
    return canon.expr(F, i, 6)


def _after_call(t, fn):
    """If the canonical text t starts with a call of fn: the text after its closing parenthesis; else None."""
    if not t.startswith(fn + "("):
        return None
    depth = 0
    for j in range(len(fn), len(t)):
        if t[j] == "(":
            depth += 1
        elif t[j] == ")":
            depth -= 1
            if depth == 0:
                return t[j + 1:]
    return None


class _Sel(seq.Sel):
    """seq.Sel (canonical mode) that also labels the edges of a `switch`: the rule's `conds` is
    given `<canonical selector> == <case value>` for a case edge (truth True) and
    `<canonical selector> == default` for the default edge, so that a rule does not care whether a
    dispatch is written as an if-chain or as a switch."""

    def edge_select(self, F, bid, key, truth, ctx):
        B = F.blocks[bid]
        if B.tk == "SwitchStmt" and B.tc is not None and self.conds is not None:
            lab = "%s == %s" % (canon.expr(F, B.tc, 4), key.rsplit(" == ", 1)[1] if key else "default")
            try:
                r = self.conds(lab, F, B.tc)
            except TypeError:
                r = self.conds(lab)
            if isinstance(r, tuple):
                return ("if", r[0], not bool(r[1]), bid)
            if isinstance(r, str):
                return ("if", r, True, bid)
            return ("if", lab, True, bid) if r else None
        return seq.Sel.edge_select(self, F, bid, key, truth, ctx)


def rule_R1_R2(P, rep):
    specs = [("ythread_create", T), ("task_create", "src/task.c"), ("thread_revive", T)]
    PUSH = P.enum_consts.get("THREAD_POOL_OP_PUSH")
    for fn, file in specs:
        F = P.fn(fn, file)
        opp = [p["n"] for p in F.params if p["t"] == "thread_pool_op_kind"]
        has_op = bool(opp)
        ops = {"THREAD_POOL_OP_NONE": P.enum_consts.get("THREAD_POOL_OP_NONE"), "THREAD_POOL_OP_PUSH": PUSH,
               "THREAD_POOL_OP_INIT": P.enum_consts.get("THREAD_POOL_OP_INIT")} if has_op else {"always": None}
        for opname, opval in sorted(ops.items()):
            if has_op and opval is None:
                rep.need(False, "enumerator %s not found" % opname)
            sel = seq.Sel(calls=set(PUSHES), rets=False, canon=True)
            ps = seq.sequences(F, sel, entry_consts={opp[0]: opval} if has_op else None, max_len=40)
            n_succ = 0
            for toks, kind, rv, rtxt in ps:
                if kind != "ret":
                    continue
                pushes = [t for t in toks if t[0] == "call"]
                want = 1 if (rv == 0 and (not has_op or opval == PUSH)) else 0
                if rv == 0:
                    n_succ += 1
                ok = len(pushes) == want
                rep.ob("R1", "%s(pool_op=%s) -> %s pushes %d time(s)" % (fn, opname, rtxt, len(pushes)), ok,
                       "expected %d push(es) on this path" % want, loc="%s:%d" % (F.file, F.line),
                       site="%s/%s/%s/%d" % (fn, opname, rtxt, len(pushes)))
            rep.need(n_succ >= 1, "%s(%s): no success path" % (fn, opname))
        # R2: nothing reachable after the push writes the descriptor.  The descriptor is the object the
        # pushed unit belongs to (root of the unit argument of the push), not a variable of a given name.
        push_sites = F.calls(set(PUSHES))
        rep.need(push_sites, "%s does not push the unit" % fn)
        descs = set(_root(F, F.nodes[nid]["a"][PUSHES[F.nodes[nid]["fn"]]]) for bid, nid in push_sites)
        rep.need(len(descs) == 1, "%s: pushed units belong to different objects %s" % (fn, sorted(descs)))
        desc = list(descs)[0]
        for bid, nid in push_sites:
            bad = []
            for b2, i, lh, rh in F.stores():
                if F.field_of(lh) and _root(F, lh) == desc and cfg.can_reach(F, nid, i):
                    bad.append("%s at %s" % (F.render(i)[:60], F.loc(i)))
            for b2, i in F.calls():
                nd = F.nodes[i]
                if (nd.get("fn") or "").startswith("ABTD_atomic_") and "store" in nd["fn"] and nd["a"] and \
                        F.field_of(nd["a"][0]) and _root(F, nd["a"][0]) == desc and cfg.can_reach(F, nid, i):
                    bad.append("%s at %s" % (F.render(i)[:60], F.loc(i)))
            rep.ob("R2", "%s: the descriptor is not written after the push at line %s" % (fn, F.nodes[nid]["l"]), not bad,
                   "; ".join(bad), loc=F.loc(nid), site="%s/after-push" % fn)
        # the function and its argument are stored (before any push)
        st = {}
        for b, i, lh, rh in F.stores():
            if rh is not None and F.field_of(lh) and _root(F, lh) == desc:
                st[F.field_of(lh)[1]] = _val(F, rh)
        fparam = [p["n"] for p in F.params if "(*)(void *)" in p["t"]][0]
        aparam = [p["n"] for p in F.params if p["t"] == "void *"][0]
        rep.ob("R2", "%s stores the caller's function and argument into the unit" % fn,
               st.get("f_thread") == fparam and st.get("p_arg") == aparam, "f_thread=%s p_arg=%s" % (st.get("f_thread"), st.get("p_arg")),
               loc="%s:%d" % (F.file, F.line), site="%s/func-arg" % fn)
    rep.min_instances("R1", 10)
    rep.min_instances("R2", 6)


def rule_R3(P, rep):
    F = P.fn("ABTI_ythread_schedule", YH)
    unit = F.params[2]["n"]            # the scheduled unit (third parameter of the existing function)
    REQ = {}
    for n in ("NONE", "CANCELLED", "MIGRATED"):
        REQ[n] = _macro_cv(P, "ABTI_THREAD_HANDLE_REQUEST_" + n)
        rep.need(REQ[n] is not None, "value of ABTI_THREAD_HANDLE_REQUEST_%s not found" % n)

    def conds(t):
        # canonical labels: `handle_request(..)` (true = non-zero), `handle_request(..) == N`,
        # `get_ythread_or_null(..)` (true = yieldable); switch edges give `.. == N` / `.. == default`
        rest = _after_call(t, "ABTI_thread_handle_request")
        if rest == "":
            return "req"
        m = re.match(r"^ == (\w+)$", rest or "")
        if m:
            return "req==%s" % m.group(1)
        if _after_call(t, "ABTI_thread_get_ythread_or_null") == "":
            return "yieldable"
        return None

    sel = _Sel(calls={"ABTI_ythread_run_child", "ABTI_thread_terminate", "ABTI_pool_add_thread", "ABTI_pool_push"},
               indirect=True, conds=conds, canon=True)
    kinds = set()
    for toks, kind, rv, rtxt in seq.sequences(F, sel):
        if kind != "ret":
            continue
        runs = idx(toks, is_call("ABTI_ythread_run_child"))
        ic = [t for t in toks if t[0] == "icall"]
        term = idx(toks, is_call("ABTI_thread_terminate"))
        push = idx(toks, is_call(set(PUSHES)))
        # the value of the request on this path, as far as the tests decide it
        req = None
        if has_if(toks, "req", False):
            req = 0
        for t in toks:
            if t[0] == "if" and t[1].startswith("req==") and t[2] and t[1][5:].lstrip("-").isdigit():
                req = int(t[1][5:])
        why = []
        if req == REQ["NONE"]:
            if has_if(toks, "yieldable", True):
                k = "run-ult"
                if len(runs) != 1 or ic or term or push:
                    why.append("a ULT must be run through exactly one run_child")
                else:
                    a = F.nodes[toks[runs[0]][-1]]["a"][2]
                    if _root(F, a) != ("var", unit) or not re.match(r"^ABTI_thread_get_ythread(_or_null)?\(", _val(F, a)):
                        why.append("runs %s" % _val(F, a))
            else:
                k = "run-tasklet"
                if len(ic) != 1 or runs or len(term) != 1 or push:
                    why.append("a tasklet must be called once and terminated once")
                else:
                    call = F.nodes[ic[0][-1]]
                    callee = canon.rooted(F, call["fe"], 6)
                    arg = canon.rooted(F, call["a"][0], 6)
                    if callee != unit + "->f_thread" or arg != unit + "->p_arg":
                        why.append("calls %s(%s): function and argument must both come from the scheduled unit" % (callee, arg))
                    if toks.index(ic[0]) > term[0]:
                        why.append("terminated before it ran")
                    targ = F.nodes[toks[term[0]][-1]]["a"][-1]
                    if canon.rooted(F, targ, 6) != unit:
                        why.append("terminates %s" % canon.rooted(F, targ, 6))
        else:
            if push:
                k = "migrated"
                if len(push) != 1 or runs or ic or term:
                    why.append("a migrated unit must be re-pushed exactly once and not run")
                if req == REQ["CANCELLED"]:
                    why.append("a cancelled unit is pushed back")
            else:
                k = "cancelled"
                if runs or ic or term:
                    why.append("a cancelled unit must not run")
        kinds.add(k)
        rep.ob("R3", "schedule %s path [%s]" % (k, show(toks)[:200]), not why, "; ".join(why), loc="%s:%d" % (F.file, F.line),
               site="schedule/%s" % k)
    rep.ob("R3", "schedule has ULT, tasklet, cancelled and migrated arms", kinds == {"run-ult", "run-tasklet", "cancelled", "migrated"},
           str(sorted(kinds)), loc=F.file, site="schedule/kinds")


def rule_R4(P, rep):
    F = P.fn("ABTD_ythread_func_wrapper", "src/arch/abtd_ythread.c")
    # the unit of this context: whatever local holds it, it is ABTI_ythread_context_get_ythread(<the argument>)
    unit = "ABTI_ythread_context_get_ythread(%s)" % F.params[0]["n"]
    sel = seq.Sel(calls={"ABTI_ythread_exit", "ABTI_ythread_context_get_ythread"}, indirect=True, canon=True)
    n = 0
    for toks, kind, rv, rtxt in seq.sequences(F, sel):
        n += 1
        why = []
        if kind == "ret":
            why.append("the entry wrapper returns (the ULT would fall off its stack)")
        ic = [t for t in toks if t[0] == "icall"]
        ex = idx(toks, is_call("ABTI_ythread_exit"))
        if len(ic) != 1:
            why.append("unit function called %d times" % len(ic))
        else:
            call = F.nodes[ic[0][-1]]
            callee, arg = canon.rooted(F, call["fe"], 6), canon.rooted(F, call["a"][0], 6)
            if not (callee.endswith("->thread.f_thread") and arg.endswith("->thread.p_arg") and
                    callee[:-len("->thread.f_thread")] == arg[:-len("->thread.p_arg")]):
                why.append("calls %s(%s)" % (callee, arg))
            else:
                base = callee[:-len("->thread.f_thread")]
                if base != unit:
                    why.append("%s is not derived from the context argument" % base)
                if ex:
                    e = canon.rooted(F, F.nodes[toks[ex[0]][-1]]["a"][-1], 6)
                    if e != base:
                        why.append("exits %s instead of %s" % (e, base))
        if len(ex) != 1 or (ic and toks.index(ic[0]) > ex[0]):
            why.append("must exit exactly once, after the function returned")
        rep.ob("R4", "ULT entry wrapper [%s]" % show(toks)[:200], not why, "; ".join(why), loc=F.file, site="func_wrapper/%s" % kind)
    rep.need(n >= 1, "func wrapper has no path")
    W = P.fn("ABTD_ythread_context_func_wrapper", "src/include/abtd_fcontext.h")
    c = W.calls("ABTD_ythread_func_wrapper")
    rep.ob("R4", "assembly entry -> ABTD_ythread_func_wrapper(context of the given fcontext)", len(c) == 1, "", loc=W.file,
           site="context_func_wrapper")


def rule_R5(P, rep):
    CANCELLED = _macro_cv(P, "ABTI_THREAD_HANDLE_REQUEST_CANCELLED")
    rep.need(CANCELLED is not None, "value of ABTI_THREAD_HANDLE_REQUEST_CANCELLED not found")

    def conds(t):
        # `handle_request(..) & CANCELLED` (true = cancelled) however the test is spelled or stored
        m = re.match(r"^ (&|==) (\d+)$", _after_call(t, "ABTI_thread_handle_request") or "")
        if m and int(m.group(2)) == CANCELLED:
            return "cancelled"
        return None

    # the caller (previous ULT) as the callback receives it: the argument itself, or its p_prev member
    cbs = [("ythread_callback_yield_impl", "&%s->thread"), ("ABTI_ythread_callback_thread_yield_to", "&%s->thread"),
           ("ABTI_ythread_callback_resume_yield_to", "&%s->p_prev->thread")]
    for cb, caller in cbs:
        F = P.fn(cb, "src/ythread.c", flat=True)
        caller = caller % F.params[0]["n"]
        sel = seq.Sel(calls={"ABTI_pool_add_thread", "ABTI_pool_push", "ABTI_thread_handle_request"}, conds=conds, canon=True)
        kinds = set()
        for toks, kind, rv, rtxt in seq.sequences(F, sel):
            if kind != "ret":
                continue
            push = [t for t in toks if t[0] == "call" and t[1] in PUSHES]
            cancelled = has_if(toks, "cancelled", True)
            why = []
            if cancelled:
                kinds.add("cancelled")
                if push:
                    why.append("a cancelled (terminated) caller is pushed back")
            else:
                kinds.add("pushed")
                if len(push) != 1:
                    why.append("caller pushed %d times" % len(push))
                else:
                    nd = F.nodes[push[0][-1]]
                    who = canon.rooted(F, nd["a"][PUSHES[nd["fn"]]], 6)
                    if who != (caller if nd["fn"] == "ABTI_pool_add_thread" else caller[1:] + ".unit"):
                        why.append("pushes %s" % who)
            rep.ob("R5", "%s %s path [%s]" % (cb, "cancelled" if cancelled else "re-push", show(toks)[:160]), not why,
                   "; ".join(why), loc="%s:%d" % (F.file, F.line), site="%s/%s" % (cb, "cancelled" if cancelled else "pushed"))
        rep.ob("R5", "%s has both arms" % cb, kinds == {"cancelled", "pushed"}, str(kinds), loc=F.file, site="%s/arms" % cb)
    # the five named yield callbacks forward to the implementation with their own argument
    for name in ("ABTI_ythread_callback_yield_user_yield", "ABTI_ythread_callback_yield_loop",
                 "ABTI_ythread_callback_yield_user_yield_to", "ABTI_ythread_callback_yield_create_to",
                 "ABTI_ythread_callback_yield_revive_to"):
        F = P.fn(name, "src/ythread.c")
        c = F.calls("ythread_callback_yield_impl")
        rep.ob("R5", "%s forwards its argument to the yield implementation once" % name,
               len(c) == 1 and _val(F, F.nodes[c[0][1]]["a"][0]) == F.params[0]["n"], "", loc=F.file, site=name)
    rep.min_instances("R5", 14)


SCHEDS = {"basic": "src/sched/basic.c", "basic_wait": "src/sched/basic_wait.c", "prio": "src/sched/prio.c",
          "randws": "src/sched/randws.c"}
POPS = {"ABTI_pool_pop", "ABTI_pool_pop_wait", "ABTI_pool_pop_timedwait"}


def _r7_cond(t):
    """Canonical labels of the tests of a scheduler loop -> the rule's own labels (polarity fixed here):
    'popped' (true = the pop returned a unit), 'stop' (true = has_to_stop answered TRUE),
    'no-pools' (true = the scheduler has no pool)."""
    m = re.match(r"^(.*) == (\d+)$", t)
    if m and m.group(1).lstrip("{").startswith(tuple(p + "(" for p in POPS)):
        return ("popped", True)          # the label says: popped handle == ABT_THREAD_NULL
    rest = _after_call(t, "ABTI_sched_has_to_stop")
    if rest == "" or rest == " == 1":    # non-zero / == ABT_TRUE
        return "stop"
    if re.match(r"^\w+::num_pools$", t):
        return ("no-pools", True)        # the label says: num_pools != 0
    return None


def rule_R7(P, rep):
    sigs = {}
    for name, file in sorted(SCHEDS.items()):
        F = P.fn("sched_run", file)
        # the definition table of this scheduler installs this function as .run
        g = [v for (f, n), v in P.globals.items() if f == file and "sched_def" in v.get("t", "").lower() or (f == file and n.endswith("_def"))]
        installed = any(nd and nd.get("k") == "ref" and nd.get("n") == "sched_run" for v in g for nd in v.get("nodes", []))
        rep.ob("R7", "%s: sched_run is the .run slot of the scheduler definition" % name, installed, "", loc=file,
               site="%s/installed" % name)
        sel = seq.Sel(calls=lambda c: c in POPS or c in ("ABTI_ythread_schedule", "ABTI_xstream_check_events", "ABTI_sched_has_to_stop"),
                      conds=_r7_cond, canon=True)
        ps = seq.sequences(F, sel, max_repeat=2, max_len=60)
        n_exit = 0
        pops_seen = 0
        for toks, kind, rv, rtxt in ps:
            why = []
            # (a) every successful pop is scheduled before the next pop / exit
            for i, t in enumerate(toks):
                if t[0] == "call" and t[1] in POPS:
                    pops_seen += 1
                    rest = toks[i + 1:]
                    test = [j for j, r in enumerate(rest) if r[0] == "if" and r[1] == "popped"]
                    nxt_pop = [j for j, r in enumerate(rest) if r[0] == "call" and r[1] in POPS]
                    end = nxt_pop[0] if nxt_pop else len(rest)
                    if test and test[0] < end and rest[test[0]][2]:
                        sch = [j for j, r in enumerate(rest[:end]) if r[0] == "call" and r[1] == "ABTI_ythread_schedule" and j > test[0]]
                        if not sch:
                            why.append("unit popped by %s at line %s is dropped (not scheduled before the next pop / exit)" %
                                       (t[1], F.nodes[t[-1]]["l"]))
            if kind == "ret":
                n_exit += 1
                conds = [t for t in toks if t[0] == "if" and t[1] in ("stop", "no-pools")]
                last = conds[-1] if conds else None
                if last is None:
                    why.append("returns without consulting ABTI_sched_has_to_stop")
                elif last[1] == "no-pools":
                    if not last[2] or any(t[0] == "call" for t in toks):
                        why.append("early return not guarded by num_pools == 0")
                else:
                    if not last[2]:
                        why.append("leaves the loop although has_to_stop did not answer TRUE")
                    # nothing but the exit may follow the decisive test; check_events precedes it
                    li = toks.index(last)
                    calls_after = [t for t in toks[li + 1:] if t[0] == "call"]
                    if calls_after:
                        why.append("work after the stop decision: %s" % [c[1] for c in calls_after])
                    hs = [j for j, t in enumerate(toks[:li]) if t[0] == "call" and t[1] == "ABTI_sched_has_to_stop"]
                    ce = [j for j, t in enumerate(toks[:li]) if t[0] == "call" and t[1] == "ABTI_xstream_check_events"]
                    if not hs or not ce or ce[-1] > hs[-1]:
                        why.append("events not checked before asking has_to_stop")
            rep.ob("R7", "%s sched_run path %s [%s]" % (name, kind, show(toks)[-260:]), not why, "; ".join(why),
                   loc="%s:%d" % (F.file, F.line), site="%s/path/%s/%d" % (name, kind, len(toks)))
        rep.need(n_exit >= 2 and pops_seen >= 1, "%s: %d exits, %d pops" % (name, n_exit, pops_seen))
        # signature for the sibling cross-check: how the loop can be left
        exits = set()
        for toks, kind, rv, rtxt in ps:
            if kind == "ret":
                conds = [t for t in toks if t[0] == "if" and t[1] in ("stop", "no-pools")]
                exits.add((conds[-1][1], conds[-1][2]) if conds else ("none", None))
        sigs[name] = frozenset(exits)
    ref = sigs["basic"]
    for name, s in sorted(sigs.items()):
        rep.ob("R7", "%s leaves its loop the same way as the BASIC scheduler" % name, s == ref,
               "%s vs %s" % (sorted(s, key=str), sorted(ref, key=str)), loc=SCHEDS[name], site="%s/exit-agreement" % name)
    rep.min_instances("R7", 20)


def _import(rep, P, mod_rule, label, **kw):
    sub = type(rep)(rep.prop, rep.tier, rep.variant)
    mod_rule(P, sub, **kw)
    for o in sub.obligations:
        rep.ob(label, "[%s] %s" % (o["rule"], o["instance"]), o["ok"], o["detail"], o["loc"], site="%s/%s" % (label, o["instance"][:150]))


def _lin(F, i, sym, depth=4):
    """Linear form (coefficient of `sym`, constant) of an integer expression, or None."""
    i = F.strip(i)
    nd = F.nodes[i]
    if "cv" in nd and nd.get("k") != "ref":
        return (0, nd["cv"])
    if canon.expr(F, i, 1).endswith(sym):
        return (1, 0)
    if nd.get("k") == "ref" and nd.get("dk") == "var" and depth > 0:
        d = canon.reaching_def(F, nd["n"], i)
        if isinstance(d, int):
            return _lin(F, d, sym, depth - 1)
        return None
    if nd.get("k") == "bin" and nd["op"] in ("+", "-"):
        a, b = _lin(F, nd["lh"], sym, depth), _lin(F, nd["rh"], sym, depth)
        if a is None or b is None:
            return None
        sg = 1 if nd["op"] == "+" else -1
        return (a[0] + sg * b[0], a[1] + sg * b[1])
    return None


def rule_R14(P, rep):
    F = P.fn("sched_run", "src/sched/randws.c")
    pops = [i for _b, i in F.calls(POPS) if "ABT_POOL_CONTEXT_OWNER_SECONDARY" in seq.macros_in(F, F.nodes[i]["a"][-1])]
    rep.need(pops, "randws sched_run: no pop with the SECONDARY owner context (the steal)")
    n = 0
    for i in pops:
        # the pool that is stolen from: pools[<index>]
        pa = F.nodes[i]["a"][0]
        idxs = [j for j in _expanded_nodes(F, pa) if F.nodes[j].get("k") == "idx"]
        rep.need(idxs, "randws steal: the pool is not an element of the pool array")
        ix = F.nodes[idxs[0]]["i"]
        alts = _alternatives(F, ix)
        for a in alts:
            an = F.nodes[F.strip(a)]
            n += 1
            if an.get("cv") is not None:
                ok = an["cv"] == 1
                why = "constant victim %s" % an["cv"]
            elif an.get("k") == "bin" and an["op"] == "+" and F.nodes[F.strip(an["lh"])].get("k") == "bin" and \
                    F.nodes[F.strip(an["lh"])]["op"] == "%":
                A = _lin(F, F.nodes[F.strip(an["lh"])]["rh"], "::num_pools")
                B = _lin(F, an["rh"], "::num_pools")
                ok = A is not None and B is not None and B == (0, 1) and (A[0] + B[0], A[1] + B[1]) == (1, 0)
                why = "victim = random %% (%s) + (%s): the range is not 1 .. num_pools-1" % (A, B)
            else:
                ok = False
                why = "victim index %s is not `random %% A + B`" % canon.expr(F, a)
            rep.ob("R14", "randws steals from an index that ranges over all other pools (%s)" % canon.expr(F, a)[:60], ok, why,
                   loc=F.loc(i), site="randws/victim/%d" % alts.index(a))
    rep.need(n >= 1, "randws: no victim expression")


def _expanded_nodes(F, i, depth=3):
    """Nodes of expression i with locals looked through (single reaching definition)."""
    out = []
    st = [(i, depth)]
    while st:
        x, d = st.pop()
        x = F.strip(x)
        out.append(x)
        nd = F.nodes[x]
        if nd.get("k") == "ref" and nd.get("dk") == "var" and d > 0:
            r = canon.reaching_def(F, nd["n"], x)
            if isinstance(r, int):
                st.append((r, d - 1))
        for c in F.children(x):
            st.append((c, d))
    return out


def _alternatives(F, i, depth=3):
    """The alternative values of expression i: through locals (single definition) and ?: arms."""
    i = F.strip(i)
    nd = F.nodes[i]
    if nd.get("k") == "cond":
        return _alternatives(F, nd["th"], depth) + _alternatives(F, nd["el"], depth)
    if nd.get("k") == "ref" and nd.get("dk") == "var" and depth > 0:
        r = canon.reaching_def(F, nd["n"], i)
        if isinstance(r, int):
            return _alternatives(F, r, depth - 1)
        rs = canon.reaching_defs(F, nd["n"], i)
        if rs:
            out = []
            for r in rs:
                out += _alternatives(F, r, depth - 1)
            return out
    return [i]


def _thread_fields_written(F):
    """ABTI_thread fields stored by F (plain stores, atomic store wrappers), also through a local pointer to the field."""
    def fld(a):
        fo = F.field_of(seq._through_pointer_temp(F, a))
        if fo is None:
            n = F.nodes[F.strip(a)]
            if n.get("k") == "un" and n["op"] == "*":          # *q with q = &p->field
                fo = F.field_of(seq._through_pointer_temp(F, n["e"]))
        return fo
    out = set()
    for _b, i, lh, rh in F.stores():
        fo = fld(lh)
        if fo and fo[0] == "ABTI_thread":
            out.add(fo[1])
    for _b, i in F.calls():
        nd = F.nodes[i]
        if (nd.get("fn") or "").startswith("ABTD_atomic_") and "store" in nd["fn"] and nd["a"]:
            fo = fld(nd["a"][0])
            if fo and fo[0] == "ABTI_thread":
                out.add(fo[1])
    return out


def rule_R16(P, rep):
    T = "src/thread.c"
    base = _thread_fields_written(P.flat(P.fn("thread_revive", T)))
    rep.need(len(base) >= 4 and {"state", "request"} <= base, "thread_revive re-initialises only %s" % sorted(base))
    for fn, file in (("ythread_create", T), ("task_create", "src/task.c")):
        F = P.flat(P.fn(fn, file))
        got = _thread_fields_written(F)
        rep.ob("R16", "%s initialises every descriptor field a revive re-initialises" % fn, base <= got,
               "not initialised: %s (the descriptor may be a recycled one)" % sorted(base - got), loc="%s:%d" % (F.file, F.line),
               site="%s/init-fields" % fn)


def run(P, rep, tier):
    common.rule_X9(P, rep, fields=[('ABTI_thread', 'request'), ('ABTI_pool', 'num_blocked')])
    common.rule_X8(P, rep)
    common.rule_X4(P, rep)
    common.run_shared(P, rep, which=("X1",))
    rule_R1_R2(P, rep)
    rule_R3(P, rep)
    rule_R4(P, rep)
    rule_R5(P, rep)
    _import(rep, P, C03.rule_R6, "R6")
    rule_R7(P, rep)
    _import(rep, P, C06.rule_R5, "R8")
    _import(rep, P, C06.rule_R6, "R9")
    _import(rep, P, C07.rule_R2, "R10")
    common.borrow(rep, P, C06.rule_R2, "R11")
    common.borrow(rep, P, C07.rule_R1_R5, "R12", only=("R1",))
    common.borrow(rep, P, C12.rule_R4, "R13")
    rule_R14(P, rep)
    common.borrow(rep, P, C07.rule_R7, "R15")
    rule_R16(P, rep)
    common.borrow(rep, P, C06.rule_R1_R3_R4, "R17")
    from . import C11, C13
    common.borrow(rep, P, C11.rule_R4, "R18")
    common.borrow(rep, P, C13.rule_R4, "R19")
    from . import C17, C19
    common.borrow(rep, P, C17.rule_R6, "R20")
    common.borrow(rep, P, C19.rule_R2, "R21")
    common.borrow(rep, P, C07.rule_R10, "R22")
