"""C20 -- configuration objects and textual settings (structural part)."""
import re

from abtverif import canon, cfg, seq
from abtverif.seq import idx, is_call, show, has_if
from . import common

EXPLANATION = (
    "Decides the shape that makes textual settings safe: R1 every return of the load_env_* helpers is "
    "max(min, min(max, X)) with X the parsed value or the default, the parse-error arm uses the default, getenv is "
    "reached only through get_abt_env and the ABTU_ato* parsers only through load_env_*; R2 each global that is "
    "documented as rounded is assigned through its rounding function; R3 every narrowing of the 64-bit accumulator "
    "to int / uint32_t is dominated by a comparison with that type's limit whose failing arm stores the limit and "
    "raises the overflow flag; R4 every digit accumulation `v = v * 10 + d` in the library is guarded against "
    "overflow on all paths (both halves of the two-step guard, or a single (MAX - d) / 10 guard); R5 the typed "
    "writer and reader of the configuration objects handle the same enumerators through the same union member, and "
    "the hash table's get/set/delete compute the bucket with the same normalisation of negative keys and keep the "
    "trailing link pointer in step with the cursor while unlinking.  Map semantics over arbitrary histories, the "
    "affinity grammar and out-of-bounds freedom of the parsers are not decided.")
DECLINED = ["map semantics of the config objects over arbitrary histories",
            "acceptance of exactly the documented affinity grammar",
            "out-of-bounds freedom of the parsers (goto-analyzer too imprecise, see DESIGN 2.11)"]
ASSUMPTIONS = ["ABTU_min/ABTU_max/ABTU_roundup helpers compute what their names say"]
RULES_DOC = dict(common.SHARED_DOC)
RULES_DOC["R6"] = "config getters: each out-parameter of ABT_{sched,pool}_config_get is written whenever the key is found and that out-parameter is non-NULL, independent of the other out-parameter (sibling agreement between the two getters)"
RULES_DOC["R7"] = "every load_env_<T> call whose bound is one of the ABTD_ENV_*_MAX type limits uses the limit of its own type <T> (a 64-bit setting is not clamped with the 32-bit maximum)"
RULES_DOC["R8"] = "roundup_pow2_<T> shifts over all bits of its own type: the loop bound is 8*sizeof(T)-1 for the T it returns (a size_t value above 2^31 is not rounded with the 32-bit bound)"
RULES_DOC["R11"] = "sibling agreement on the element size of the hash table: the bucket stride of get_element, the table allocation, the allocation of a chained element and the whole-element memcpy of delete use the same ABTU_roundup_size expression (a packed stride with a cache-line-sized copy clears the next bucket)"
RULES_DOC["R10"] = "ABTU_hashtable_set appends at the tail of a collision chain: the p_next link it writes belongs to the element whose p_next was tested (NULL) on the way to the store -- writing the head's link instead drops every element behind the head once three keys collide"
RULES_DOC["R9"] = "ABT_{sched,pool}_config_set changes the map only after the new element was built: on every path the deletion / replacement of an entry follows the successful typed construction, and an error return has not touched the map"
RULES_DOC.update({
    "R1": "load_env_*: every return is max(min_val, min(max_val, X)), X in {parsed value, default}; parse error -> default; getenv / ABTU_ato* call sites confined",
    "R2": "rounded globals are assigned through their rounding function",
    "R3": "atoi.c: narrowing stores are dominated by the limit comparison; the failing arm saturates and flags overflow",
    "R4": "every `v = v * 10 + d` is guarded against overflow on all paths",
    "R5": "config writer/reader agree per enumerator; hashtable get/set/delete agree on the bucket; delete keeps the trailing pointer in step",
})
VARIANTS = ["no_mem_pool"]
ENV = "src/arch/abtd_env.c"


def rule_R1(P, rep):
    for fn, parser, mx, mn in (("load_env_int", "ABTU_atoi", "ABTU_max_int", "ABTU_min_int"),
                               ("load_env_uint32", "ABTU_atoui32", "ABTU_max_uint32", "ABTU_min_uint32"),
                               ("load_env_uint64", "ABTU_atoui64", "ABTU_max_uint64", "ABTU_min_uint64"),
                               ("load_env_size", "ABTU_atosz", "ABTU_max_size", "ABTU_min_size")):
        F = P.fn(fn, ENV)
        defp = F.params[1]["n"]
        lo, hi = F.params[2]["n"], F.params[3]["n"]
        sel = seq.Sel(calls={parser, "get_abt_env"}, conds=lambda t: t.startswith(parser + "(") or t.startswith("get_abt_env("),
                      rets=True, canon=True)
        n = 0
        for toks, kind, rv, rtxt in seq.sequences(F, sel):
            if kind != "ret":
                continue
            n += 1
            # canonical return text: locals that merely copy another variable on this path are resolved
            m = re.match(r"^%s\(%s, %s\(%s, (\w+)\)\)$" % (mx, re.escape(lo), mn, re.escape(hi)), rtxt or "")
            why = []
            if not m:
                why.append("return value %s is not %s(%s, %s(%s, X))" % (rtxt, mx, lo, mn, hi))
            else:
                x = m.group(1)
                parsed = idx(toks, is_call(parser))
                # the parser's result compared with ABT_SUCCESS (0): label true = non-zero = failed
                failed = any(t[0] == "if" and t[1].startswith(parser + "(") and t[2] for t in toks)
                outs = set(a[5:] for i in parsed for a in toks[i][2] if a.startswith("&var:"))
                if x in outs:
                    if not parsed or failed:
                        why.append("returns the parsed value although nothing was parsed successfully")
                    if not any(t[0] == "if" and t[1].startswith(parser + "(") and not t[2] for t in toks):
                        why.append("returns the parsed value without testing the parser's result")
                elif x != defp:
                    why.append("clamps %s" % x)
                if parsed and failed and x != defp:
                    why.append("parse error does not fall back to the default")
            rep.ob("R1", "%s return [%s] -> %s" % (fn, show(toks)[:120], rtxt), not why, "; ".join(why), loc="%s:%d" % (F.file, F.line),
                   site="%s/%s/%d" % (fn, rtxt, len(toks)))
        rep.need(n >= 3, "%s: %d returns" % (fn, n))
    callers = sorted(x.split(":")[-1] for x in P.callers().get("ext:getenv", []))
    rep.ob("R1", "getenv is called only by get_abt_env", callers == ["get_abt_env"], str(callers), loc=ENV, site="getenv-callers")
    for parser in ("ABTU_atoi", "ABTU_atoui32", "ABTU_atoui64", "ABTU_atosz"):
        cs = sorted(x.split(":")[-1] for x in P.callers().get("src/util/atoi.c:" + parser, []))
        ok = all(c.startswith("load_env_") or c.startswith("ABTU_ato") for c in cs) and bool(cs)
        rep.ob("R1", "%s is reached only through the clamping loaders" % parser, ok, str(cs), loc="src/util/atoi.c", site="parser-callers/" + parser)


def _defs_of(F, ref_node):
    """Right-hand sides of the assignments of the local read at `ref_node` that reach it (reaching
    definitions over the CFG), or None when one of them is not a plain `x = expr`."""
    name = F.nodes[ref_node]["n"]
    d = canon.reaching_def(F, name, ref_node)
    if isinstance(d, int):
        return [d]
    return canon.reaching_defs(F, name, ref_node)


def _through(P, F, i, rf, depth=6):
    """Is the value of expression i, on every path, the result of a call of `rf`?  Locals are followed
    through their reaching definitions (whatever they are called), `c ? a : b` through both arms and the
    ABTD_env_* getter functions of abtd_env.c through every return statement."""
    i = F.strip(i)
    if i is None or i < 0 or depth < 0:
        return False
    nd = F.nodes[i]
    k = nd.get("k")
    if k == "call":
        fn = nd.get("fn")
        if fn == rf:
            return True
        if fn and fn.startswith("ABTD_env_"):
            G = P.fn(fn, ENV, required=False)
            if G is not None:
                rets = [G.nodes[j]["e"] for _b, j in G.all_events() if G.nodes[j].get("k") == "ret" and "e" in G.nodes[j]]
                return bool(rets) and all(_through(P, G, e, rf, depth - 1) for e in rets)
        return False
    if k == "cond":
        return _through(P, F, nd["th"], rf, depth - 1) and _through(P, F, nd["el"], rf, depth - 1)
    if k == "ref" and nd.get("dk") == "var":
        ds = _defs_of(F, i)
        return bool(ds) and all(_through(P, F, d, rf, depth - 1) for d in ds)
    return False


def rule_R2(P, rep):
    table = {"key_table_size": "roundup_pow2_uint32", "sys_page_size": "roundup_pow2_size", "mem_page_size": "roundup_pow2_size",
             "thread_stacksize": "ABTU_roundup_size", "sched_stacksize": "ABTU_roundup_size", "mem_sp_size": "ABTU_roundup_size",
             "mem_max_stacks": "ABTU_roundup_uint32", "mem_max_descs": "ABTU_roundup_uint32"}
    F = P.fn("ABTD_env_init", ENV)
    got = {}
    for b, i, lh, rh in F.stores():
        fo = F.field_of(lh)
        if fo and fo[0] == "ABTI_global" and fo[1] in table and rh is not None:
            ok = F.nodes[i].get("op") == "=" and _through(P, F, rh, table[fo[1]])
            prev = got.get(fo[1])
            got[fo[1]] = (ok and (prev is None or prev[0]), canon.expr(F, rh, depth=4))
    have = {f["n"] for f in P.record("ABTI_global").get("fields", [])}
    for field, rf in sorted(table.items()):
        if field.startswith("mem_") and field not in have and P.variant == "no_mem_pool":
            continue  # the memory-pool settings do not exist when the pool is configured out
        rep.ob("R2", "ABTI_global::%s is assigned through %s" % (field, rf), field in got and got[field][0],
               "assigned %s" % (got.get(field) or (None, None))[1], loc=F.file, site="rounding/" + field)


def _impl_outs(F):
    """Names of the locals that receive atoi_impl's results (sign, 64-bit accumulator, overflow flag),
    identified by their position in the call, not by what they are called."""
    cs = F.calls("atoi_impl")
    if len(cs) != 1:
        return None
    out = []
    for a in F.nodes[cs[0][1]]["a"][1:4]:
        n = F.nodes[F.strip(a)]
        inner = F.nodes[F.strip(n["e"])] if n.get("k") == "un" and n["op"] == "&" else {}
        if inner.get("k") != "ref":
            return None
        out.append(inner["n"])
    return out if len(out) == 3 else None


def _r3_cond(sign, val):
    vq = re.escape(val)

    def f(t):
        """'exceeds:C' = accumulator > C (also written C < acc, !(acc <= C), acc >= C+1, ...);
        'signed' / 'nonzero' = truth of the sign flag / of the accumulator."""
        m = re.match(r"^(\d+) < %s$" % vq, t)
        if m:
            return "exceeds:%s" % m.group(1)
        m = re.match(r"^%s < (\d+)$" % vq, t)
        if m:
            return ("exceeds:%d" % (int(m.group(1)) - 1), True)
        if t == sign:
            return "signed"
        if t == val:
            return "nonzero"
        return None
    return f


def _gt_facts(F, node, truth, depth=3):
    """[(big, small, holds)]: what is known about relations `big > small` / `big >= small` once condition
    `node` evaluated to `truth`.  Independent of the way the test is written: `a < b` is `b > a`, `a <= b`
    is `!(a > b)`; `!`, __builtin_expect and locals that only hold an earlier comparison are looked through,
    a false `x || y` makes both operands false, a true `x && y` both true."""
    out = []
    i = F.strip(node)
    if i is None or i < 0 or depth < 0:
        return out
    nd = F.nodes[i]
    k = nd.get("k")
    if k == "un" and nd["op"] == "!":
        return _gt_facts(F, nd["e"], not truth, depth)
    if k == "call" and nd.get("fn") in ("__builtin_expect", "ABTU_likely", "ABTU_unlikely") and nd.get("a"):
        return _gt_facts(F, nd["a"][0], truth, depth)
    if k == "bin" and nd["op"] in ("||", "&&"):
        if truth == (nd["op"] == "&&"):
            return _gt_facts(F, nd["lh"], truth, depth) + _gt_facts(F, nd["rh"], truth, depth)
        return out
    if k == "bin" and nd["op"] in ("!=", "==") and F.nodes[F.strip(nd["rh"])].get("cv") == 0:
        return _gt_facts(F, nd["lh"], truth == (nd["op"] == "!="), depth)
    if k == "cond":
        tv, ev = F.nodes[F.strip(nd["th"])].get("cv"), F.nodes[F.strip(nd["el"])].get("cv")
        if tv is not None and ev is not None and bool(tv) != bool(ev):
            return _gt_facts(F, nd["c"], truth == bool(tv), depth)
        return out
    if k == "ref" and nd.get("dk") == "var":
        d = canon.reaching_def(F, nd["n"], i)
        if isinstance(d, int):
            dn = F.nodes[F.strip(d)]
            if dn.get("k") in ("bin", "un", "cond") and not dn.get("asg"):
                return _gt_facts(F, d, truth, depth - 1)
        return out
    if k == "bin" and nd["op"] in (">", ">=", "<", "<="):
        a, b = nd["lh"], nd["rh"]
        if nd["op"] in ("<", "<="):
            a, b = b, a
        # `a > b` evaluated to `truth`; read the other way round it says `b >= a` is `not truth`
        out.append((a, b, truth))
        out.append((b, a, not truth))
    return out


def _ident(F, i, depth=3):
    """Identity of an accumulated variable: a local that merely copies another variable stands for it."""
    i = F.strip(i)
    nd = F.nodes[i]
    if nd.get("k") == "ref" and nd.get("dk") == "var" and depth > 0:
        d = canon.reaching_def(F, nd["n"], i)
        if isinstance(d, int) and F.nodes[F.strip(d)].get("k") == "ref":
            return _ident(F, d, depth - 1)
    return F.render(i)


def _times10(F, i):
    """Operand x of `x * 10` / `10 * x`, else None."""
    nd = F.nodes[F.strip(i)]
    if nd.get("k") == "bin" and nd["op"] == "*":
        for x, c in ((nd["lh"], nd["rh"]), (nd["rh"], nd["lh"])):
            if F.nodes[F.strip(c)].get("cv") == 10 and F.nodes[F.strip(x)].get("cv") is None:
                return x
    return None


def _guard_kind(F, big, small):
    """(variable, kind) of an overflow guard `big > small`:
    G1  v > MAX / 10          G2  v * 10 > MAX - d          G3  v > (MAX - d) / 10"""
    bn, sn = F.nodes[F.strip(big)], F.nodes[F.strip(small)]
    x = _times10(F, big)
    if sn.get("cv") is not None and sn["cv"] >= 214748364 and x is None and bn.get("cv") is None:
        return _ident(F, big), "G1"
    if x is not None and sn.get("k") == "bin" and sn["op"] == "-":
        return _ident(F, x), "G2"
    if sn.get("k") == "bin" and sn["op"] == "/" and F.nodes[F.strip(sn["rh"])].get("cv") == 10:
        num = F.nodes[F.strip(sn["lh"])]
        if num.get("k") == "bin" and num["op"] == "-" and bn.get("cv") is None:
            return _ident(F, big), "G3"
    return None


def rule_R3_R4(P, rep):
    A = "src/util/atoi.c"
    limits = {"ABTU_atoi": {2147483647: 2147483647, 2147483648: -2147483648}, "ABTU_atoui32": {4294967295: 4294967295}}
    for fn in ("ABTU_atoi", "ABTU_atoui32"):
        F = P.fn(fn, A)
        outs = _impl_outs(F)
        rep.need(outs is not None, "%s: the locals receiving atoi_impl's results were not found" % fn)
        SIGN, VAL, OVF = outs
        OUT = F.params[1]["n"]
        cond = _r3_cond(SIGN, VAL)
        sel = seq.Sel(derefs={OUT}, conds=cond, assigns={OVF}, decls={OVF}, canon=True)
        n = 0
        for toks, kind, rv, rtxt in seq.sequences(F, sel):
            st = [t for t in toks if t[0] == "dst" and t[1] == OUT]
            if kind != "ret" or not st:
                continue
            n += 1
            why = []
            v = st[-1][2]
            cmps = [t for t in toks if t[0] == "if" and t[1].startswith("exceeds:")]
            ov = [t for t in toks if t[0] == "decl" and t[1] == OVF]
            if isinstance(v, int):
                # a constant is stored: it must be the limit selected by a true comparison, with overflow raised
                if v != 0:
                    if not cmps or not cmps[-1][2]:
                        why.append("stores the constant %s without a failed range test" % v)
                    if not ov or ov[-1][2] != "1":
                        why.append("saturates without raising the overflow flag")
            else:
                if re.search(r"\b%s\b" % re.escape(VAL), str(v)) and (not cmps or cmps[-1][2]):
                    why.append("narrows the 64-bit accumulator (%s) without a passed range test" % v)
            rep.ob("R3", "%s path [%s]" % (fn, show(toks)[:160]), not why, "; ".join(why), loc="%s:%d" % (F.file, F.line),
                   site="%s/%s" % (fn, show(toks)[:120]))
        rep.need(n >= 3, "%s: %d storing paths" % (fn, n))
        # the compared constants are the limits of the target type
        consts = set()
        for B in F.blocks.values():
            if B.tc is not None:
                r = cond(canon.cond(F, cfg.cond_atom(F, B.tc)[0])[0])
                lab = r[0] if isinstance(r, tuple) else r
                if lab and lab.startswith("exceeds:"):
                    consts.add(int(lab[8:]))
        rep.ob("R3", "%s compares with the limits of its result type" % fn, consts == set(limits[fn]), "compares with %s" % sorted(consts, key=str),
               loc=F.file, site="%s/limits" % fn)
        # ... and compares the whole unsigned accumulator: a cast of the 64-bit magnitude to a signed or narrower type
        # inside the range test lets 2^63.. (everything atoi_impl saturates to) pass as "small"
        for B in F.blocks.values():
            if B.tc is None:
                continue
            atom = cfg.cond_atom(F, B.tc)[0]
            r = cond(canon.cond(F, atom)[0])
            lab = r[0] if isinstance(r, tuple) else r
            if not (lab and lab.startswith("exceeds:")):
                continue
            an = F.nodes[F.strip(atom)]
            bad = []
            for side in (an.get("lh"), an.get("rh")):
                j = side
                casts = []
                while j is not None and j >= 0 and F.nodes[j].get("k") in ("cast", "load"):
                    if F.nodes[j].get("k") == "cast":
                        casts.append(F.nodes[j].get("t", ""))
                    j = F.nodes[j]["e"]
                if j is not None and j >= 0 and F.nodes[j].get("k") == "ref" and F.nodes[j].get("n") == VAL:
                    bad = [t for t in casts if t.strip() not in ("uint64_t", "size_t", "unsigned long", "unsigned long long", "uintmax_t")]
            rep.ob("R3", "%s tests the full unsigned magnitude in `%s`" % (fn, lab), not bad,
                   "the 64-bit accumulator is cast to %s before the comparison" % bad, loc=F.loc(atom), site="%s/unsigned-compare/%s" % (fn, lab))
    # R4: every digit accumulation in the library
    n = 0
    for F in sorted(P.functions.values(), key=lambda f: (f.file, f.line)):
        accs = []
        for b, i, lh, rh in F.stores():
            if rh is None or F.nodes[i].get("op") != "=":
                continue
            rn = F.nodes[F.strip(rh)]
            if rn.get("k") == "bin" and rn["op"] == "+":
                for m, d in ((rn["lh"], rn["rh"]), (rn["rh"], rn["lh"])):
                    x = _times10(F, m)
                    if x is not None and _ident(F, x) == _ident(F, lh):
                        accs.append((i, _ident(F, lh), d))
                        break
        if not accs:
            continue

        class TS(cfg.Typestate):
            init = frozenset()

            def __init__(self, accs):
                self.accs = {a[0]: a for a in accs}
                self.bad = {}
                self.seen = set()

            def edge(self, F, bid, key, truth, st, ctx):
                if ctx.cond_node is None:
                    return st
                for big, small, holds in _gt_facts(F, ctx.cond_node, bool(ctx.cond_val)):
                    g = _guard_kind(F, big, small)
                    if g:
                        var, kind = g
                        st = frozenset(x for x in st if not (x[0] == var and x[1] == kind)) | {(var, kind, holds)}
                return st

            def event(self, F, nid, st, ctx):
                if nid in self.accs:
                    var = self.accs[nid][1]
                    self.seen.add(nid)
                    g = {k: v for (vv, k, v) in st if vv == var}
                    ok = g.get("G3") is False or (g.get("G1") is False and g.get("G2") is False)
                    if not ok:
                        self.bad[nid] = g
                    # guards are consumed by the update of the variable
                    return frozenset(x for x in st if x[0] != var)
                return st
        ts = TS(accs)
        cfg.simulate(F, ts)
        for i, var, d in accs:
            n += 1
            rep.ob("R4", "%s: `%s` is guarded against overflow on every path" % (F.name, F.render(i)[:60]), i in ts.seen and i not in ts.bad,
                   "guards seen on an unguarded path: %s (need G3 false, or G1 and G2 both false)" % ts.bad.get(i), loc=F.loc(i),
                   site="%s/accumulate/%s" % (F.name, var))
    rep.need(n >= 2, "only %d digit accumulations found" % n)


def _rooted(F, i, keep=(), depth=3, at=None):
    """canon.rooted, except that the locals in `keep` (the variables the rule reasons about) stay as they
    are: only *other* temporaries are resolved through their single reaching definition."""
    at = i if at is None else at
    i = F.strip(i)
    if i is None or i < 0:
        return ""
    nd = F.nodes[i]
    k = nd.get("k")
    if k == "mem":
        return "%s%s%s" % (_rooted(F, nd["b"], keep, depth, at), "->" if nd["arrow"] else ".", nd["f"])
    if k == "un" and nd["op"] in ("&", "*"):
        return nd["op"] + _rooted(F, nd["e"], keep, depth, at)
    if k == "ref":
        if nd.get("dk") == "var" and depth > 0 and nd["n"] not in keep:
            d = canon.reaching_def(F, nd["n"], at)
            if isinstance(d, int) and F.nodes[F.strip(d)].get("k") in ("ref", "un", "mem"):
                return _rooted(F, d, keep, depth - 1, d)
        return nd["n"]
    return F.render(i)


def rule_R5(P, rep):
    for file, rec_prefix, create, read, enums in (
            ("src/sched/sched_config.c", "sched_config", "sched_config_create_element_typed", "sched_config_read_element",
             ("ABT_SCHED_CONFIG_INT", "ABT_SCHED_CONFIG_DOUBLE", "ABT_SCHED_CONFIG_PTR")),
            ("src/pool/pool_config.c", "pool_config", "pool_config_create_element_typed", "pool_config_read_element",
             ("ABT_POOL_CONFIG_INT", "ABT_POOL_CONFIG_DOUBLE", "ABT_POOL_CONFIG_PTR"))):
        C = P.fn(create, file)
        R = P.fn(read, file)

        def by_type(F, writer):
            """{enumerator: (set of union members touched, [canonical value written / None])} per path; the arm is the
            last `<x> == ENUMERATOR` test that holds on the path (a `case` label or a link of an if-chain)."""
            out = {}
            vals = {}

            def conds(t):
                m = re.match(r"^(.*) == (%s)$" % "|".join(enums), t)
                return ("arm:" + m.group(2)) if m else None
            sel = seq.Sel(calls=lambda fn: "create_element_" in fn, reads={"v_int", "v_double", "v_ptr"},
                          fields={"v_int", "v_double", "v_ptr"}, conds=conds, canon=True, locks=False)
            for toks, kind, rv, rtxt in seq.sequences(F, sel, max_len=40):
                arms = [t[1][4:] for t in toks if t[0] == "if" and t[1].startswith("arm:") and t[2]]
                if not arms:
                    continue
                e = arms[-1]
                mem = out.setdefault(e, set())
                for t in toks:
                    if t[0] in ("rd", "st"):
                        mem.add(t[1].rsplit("::", 1)[-1].rsplit(".", 1)[-1])
                    if t[0] == "call":
                        G = P.fn(t[1], file)
                        for gn in G.nodes:
                            if gn and gn.get("k") == "mem" and gn["f"].startswith("v_"):
                                mem.add(gn["f"])
                        vals.setdefault(e, []).append((canon.expr(F, F.nodes[t[-1]]["a"][-1]), t[-1]))
                    if t[0] == "st" and writer:
                        vals.setdefault(e, []).append((str(t[3]), t[-1]))
            return out, vals
        (w, wvals), (r, _rv) = by_type(C, True), by_type(R, False)
        # the typed writer takes the value *through* the caller's pointer in every arm (the reader stores through its
        # pointer in every arm): `set(key, PTR, &p)` stores p, not &p
        vp = C.params[-1]["n"]
        for e in enums:
            for got, nid in wvals.get(e, [])[:1]:
                rep.ob("R5", "%s: arm %s stores the value the caller's pointer points to" % (rec_prefix, e), got == "*" + vp,
                       "stores `%s`, expected `*%s`" % (got, vp), loc=C.loc(nid), site="%s/deref/%s" % (rec_prefix, e))
        for e in enums:
            rep.ob("R5", "%s: %s is written and read through the same union member" % (rec_prefix, e),
                   e in w and e in r and w[e] == r[e] and len(w[e]) == 1, "writer %s reader %s" % (w.get(e), r.get(e)), loc=file,
                   site="%s/%s" % (rec_prefix, e))
        rep.ob("R5", "%s: writer and reader handle the same set of types" % rec_prefix, set(w) == set(r) == set(enums),
               "writer %s reader %s" % (sorted(w), sorted(r)), loc=file, site="%s/types" % rec_prefix)
    H = "src/util/hashtable.c"
    idxs = {}
    for fn in ("ABTU_hashtable_get", "ABTU_hashtable_set", "ABTU_hashtable_delete"):
        F = P.fn(fn, H)
        ge = [i for _b, i in F.calls("get_element")]
        rep.need(len(ge) == 1, "%s: %d bucket lookups through get_element" % (fn, len(ge)))
        idxs[fn] = re.sub(r"\s", "", canon.expr(F, F.nodes[ge[0]]["a"][1], depth=4))
    ref = idxs["ABTU_hashtable_get"]
    for fn, v in sorted(idxs.items()):
        # the remainder of a negative key is negative: one alternative must add num_entries back
        norm = "%ABTU_hashtable::num_entries" in (v or "") and "+ABTU_hashtable::num_entries" in (v or "")
        rep.ob("R5", "%s computes the bucket like ABTU_hashtable_get (negative keys normalised)" % fn, v is not None and v == ref and
               norm, "%s vs %s" % (v, ref), loc=H, site="hashtable/index/" + fn)
    D = P.fn("ABTU_hashtable_delete", H)
    # the trailing link pointer and the cursor are found by type and use, not by name
    pps = sorted(set(v["n"] for nd in D.nodes if nd and nd.get("k") == "decl" for v in nd["vars"]
                     if v["t"].replace(" ", "") == "ABTU_hashtable_element**"))
    rep.need(len(pps) == 1, "hashtable_delete: trailing link pointers %s" % pps)
    PP = pps[0]
    curs = set()
    for _b, _i, lh, rh in D.stores():
        if rh is None:
            continue
        rn = D.nodes[D.strip(rh)]
        ln = D.nodes[D.strip(lh)]
        if _deref_of(D, rn, PP) and ln.get("k") == "ref":
            curs.add(ln["n"])
    for nd in D.nodes:      # ... or initialised from it in its declaration
        if nd and nd.get("k") == "decl":
            for v in nd["vars"]:
                rn = D.nodes[D.strip(v["init"])] if v.get("init") is not None else {}
                if _deref_of(D, rn, PP):
                    curs.add(v["n"])
    rep.need(len(curs) == 1, "hashtable_delete: cursors loaded through the link pointer: %s" % sorted(curs))
    CUR = sorted(curs)[0]
    KEY = D.params[1]["n"]

    def key_test(t, F, node):
        lab, flip = canon.cond(F, node)
        if lab in ("ABTU_hashtable_element::key == %s" % KEY, "%s == ABTU_hashtable_element::key" % KEY):
            return "key-mismatch" if flip else "key-match"
        return None

    def val(t):
        """Object-identity preserving text of the value a decl/assignment/store token writes: temporaries
        are resolved through their reaching definition (`tmp = cur->p_next; *pp = tmp` reads `cur->p_next`)."""
        nd = D.nodes[t[-1]]
        if nd.get("k") == "decl":
            init = [v.get("init") for v in nd["vars"] if v["n"] == t[1]]
            return _rooted(D, init[0], (CUR, PP)) if init and init[0] is not None else None
        return _rooted(D, nd["rh"], (CUR, PP)) if "rh" in nd else t[2]

    def seats_link(t):
        """Does the decl/assignment token seat the link pointer at `&X->p_next` with X the cursor, or (first
        seat) the bucket head, i.e. a local that holds the result of get_element()?"""
        if val(t) == "&%s->p_next" % CUR:
            return True
        nd = D.nodes[t[-1]]
        rhs = ([v.get("init") for v in nd["vars"] if v["n"] == t[1]] or [None])[0] if nd.get("k") == "decl" else nd.get("rh")
        if rhs is None:
            return False
        a = D.nodes[D.strip(rhs)]
        m = D.nodes[D.strip(a["e"])] if a.get("k") == "un" and a["op"] == "&" else {}
        if m.get("k") != "mem" or m.get("f") != "p_next" or m.get("r") != "ABTU_hashtable_element":
            return False
        b = D.strip(m["b"])
        if D.nodes[b].get("k") != "ref":
            return False
        d = canon.reaching_def(D, D.nodes[b]["n"], b)
        return isinstance(d, int) and D.nodes[D.strip(d)].get("k") == "call" and D.nodes[D.strip(d)].get("fn") == "get_element"
    sel = seq.Sel(assigns={CUR, PP}, decls={CUR, PP}, derefs={PP},
                  calls={"ABTU_free"}, conds=key_test)
    n = 0
    for toks, kind, rv, rtxt in seq.sequences(D, sel, max_repeat=3, max_len=80):
        un = [i for i, t in enumerate(toks) if t[0] == "dst" and t[1] == PP]
        if kind != "ret" or not un:
            continue
        n += 1
        why = []
        # walk the cursor updates before the unlink: each advance of the cursor must re-seat the link pointer first
        for i, t in enumerate(toks[:un[0]]):
            if t[0] == "decl" and t[1] == CUR and val(t) not in ("*" + PP,) and "get_element" not in (val(t) or ""):
                why.append("cursor advanced with `%s = %s` without re-seating the trailing link pointer" % (CUR, val(t)))
            if t[0] == "decl" and t[1] == CUR and val(t) == "*" + PP:
                prev = [u for u in toks[:i] if u[0] == "decl"][-1:]
                if not prev or prev[0][1] != PP or not seats_link(prev[0]):
                    why.append("`%s = *%s` not immediately preceded by `%s = &%s->p_next`" % (CUR, PP, PP, CUR))
        if val(toks[un[0]]) != "%s->p_next" % CUR:
            why.append("unlink stores %s" % val(toks[un[0]]))
        fr = idx(toks, is_call("ABTU_free"))
        if not fr or fr[0] < un[0] or _rooted(D, D.nodes[toks[fr[0]][-1]]["a"][0], (CUR, PP)) != CUR:
            why.append("unlinked element not freed after the unlink")
        rep.ob("R5", "hashtable_delete unlink path (%d advances)" % sum(1 for t in toks if t[0] == "decl" and t[1] == PP),
               not why, "; ".join(sorted(set(why))), loc="%s:%d" % (D.file, D.line), site="hashtable/delete/%d" % len(toks))
    rep.need(n >= 2, "hashtable_delete: %d unlink paths" % n)


def rule_R6(P, rep):
    from abtverif import ctrldep
    sigs = {}
    for fn, file in (("ABT_sched_config_get", "src/sched/sched_config.c"), ("ABT_pool_config_get", "src/pool/pool_config.c")):
        F = P.fn(fn, file)
        outs = [p["n"] for p in F.params if p["t"].rstrip().endswith("*") and "const" not in p["t"]]
        rep.need(len(outs) >= 2, "%s: out-parameters %s" % (fn, outs))
        sig = {}
        for o in outs:
            # the write through o: a store `*o = ...` or a call that receives o as its destination
            sites = [i for _b, i, lh, rh in F.stores() if F.nodes[F.strip(lh)].get("k") == "un" and F.nodes[F.strip(lh)]["op"] == "*" and
                     F.base_var(lh) == o]
            sites += [i for _b, i in F.calls() if any(F.nodes[F.strip(a)].get("k") == "ref" and F.nodes[F.strip(a)].get("n") == o
                                                      for a in F.nodes[i]["a"]) and "read_element" in (F.nodes[i].get("fn") or "")]
            rep.need(sites, "%s never writes through %s" % (fn, o))
            gov = set()
            for i in sites:
                for lab, val, a in ctrldep.conditions(F, i):
                    A = F.blocks[a]
                    others = [x for x in A.succs if x is not None]
                    # keep only tests of parameters (NULL tests of out-parameters); everything else (found, handle checks,
                    # assertions) is common to both writes
                    if lab in outs:
                        gov.add((lab, val))
            sig[o] = sorted(gov)
            rep.ob("R6", "%s writes through `%s` whenever the key is found and `%s` is not NULL" % (fn, o, o), sig[o] == [(o, True)],
                   "the write also depends on %s" % [g for g in sig[o] if g != (o, True)], loc=F.file, site="%s/out/%s" % (fn, o))
        sigs[fn] = sorted(len(v) for v in sig.values())
    rep.ob("R6", "sched and pool config getters agree", len(set(map(tuple, sigs.values()))) == 1, str(sigs),
           loc="src/sched/sched_config.c", site="config-get/agree")


def rule_R7(P, rep):
    kinds = {"load_env_int": "ABTD_ENV_INT_MAX", "load_env_uint32": "ABTD_ENV_UINT32_MAX", "load_env_uint64": "ABTD_ENV_UINT64_MAX",
             "load_env_size": "ABTD_ENV_SIZE_MAX"}
    limits = set(kinds.values())
    n = 0
    for F in sorted(P.functions.values(), key=lambda f: (f.file, f.line)):
        if F.file != ENV:
            continue
        for _b, i in F.calls(set(kinds)):
            nd = F.nodes[i]
            for a in nd["a"][2:]:
                used = seq.macros_in(F, a) & limits
                if not used:
                    continue
                n += 1
                rep.ob("R7", "%s: %s(%s, ...) is bounded by the limit of its own type" % (F.name, nd["fn"], F.render(nd["a"][0])),
                       used == {kinds[nd["fn"]]}, "bound %s used with %s" % (sorted(used), nd["fn"]), loc=F.loc(i),
                       site="%s/%s/%s" % (F.name, nd["fn"], F.render(nd["a"][0])))
    rep.need(n >= 8, "only %d type-limit bounds found" % n)


def _deref_of(F, nd, var):
    """`*var`, also after abtverif/normalize.py replaced it by the lvalue the temporary points to."""
    if nd.get("via_temp") == var:
        return True
    return nd.get("k") == "un" and nd["op"] == "*" and F.nodes[F.strip(nd["e"])].get("n") == var


def rule_R8(P, rep):
    n = 0
    for F in sorted(P.functions.values(), key=lambda f: (f.file, f.line)):
        if F.file != ENV or not F.name.startswith("roundup_pow2_"):
            continue
        bits = {"size_t": 64, "uint64_t": 64, "uint32_t": 32, "int": 32, "unsigned int": 32}.get(F.ret.strip())
        rep.need(bits, "%s returns %s" % (F.name, F.ret))
        # the shift count is advanced only while it is below the last bit position: the governing `<var> < K`
        # (K folded through const locals, any loop form, also as an operand of &&)
        from abtverif import ctrldep
        bounds = []
        for _b, i, lh, rh in F.stores():
            nd = F.nodes[i]
            inc = (nd.get("k") == "un" and nd["op"] in ("post++", "pre++")) or \
                  (nd.get("k") == "bin" and nd.get("op") == "+=" and F.nodes[F.strip(nd["rh"])].get("cv") == 1)
            var = F.nodes[F.strip(lh)]
            if not inc or var.get("k") != "ref":
                continue
            for lab, val, _a in ctrldep.conditions(F, i):
                m = re.match(r"^(\w+) (<|<=) (\d+)$", lab)
                if m and m.group(1) == var["n"] and val is not False:
                    bounds.append(int(m.group(3)) + (1 if m.group(2) == "<=" else 0))
        bounds = sorted(set(bounds))
        n += 1
        rep.ob("R8", "%s scans all %d bit positions of its type" % (F.name, bits), bounds == [bits - 1],
               "loop bound(s) %s, expected %d" % (bounds, bits - 1), loc="%s:%d" % (F.file, F.line), site="%s/bits" % F.name)
    rep.need(n >= 2, "only %d roundup_pow2 helpers" % n)


def rule_R9(P, rep):
    for fn, file in (("ABT_sched_config_set", "src/sched/sched_config.c"), ("ABT_pool_config_set", "src/pool/pool_config.c")):
        F = P.fn(fn, file)
        sel = seq.Sel(calls=lambda c: "create_element_typed" in c or c in ("ABTU_hashtable_set", "ABTU_hashtable_delete"),
                      conds=lambda t: "create_element_typed(" in t, canon=True, locks=False)
        n = 0
        for toks, kind, rv, rtxt in seq.sequences(F, sel, max_len=40):
            if kind != "ret":
                continue
            n += 1
            cs = [t for t in toks if t[0] == "call"]
            built = [i for i, t in enumerate(cs) if "create_element_typed" in t[1]]
            muts = [i for i, t in enumerate(cs) if t[1].startswith("ABTU_hashtable_")]
            why = []
            if built and any(m < built[0] for m in muts):
                why.append("the map is changed before the new element is built (a rejected set has already removed the old entry)")
            failed = any(t[0] == "if" and "create_element_typed(" in t[1] and t[2] for t in toks)
            if failed and muts:
                why.append("the map is changed although building the element failed")
            rep.ob("R9", "%s path [%s]" % (fn, show(toks)[:120]), not why, "; ".join(why), loc="%s:%d" % (F.file, F.line),
                   site="%s/%s" % (fn, show(cs)[:100]))
        rep.need(n >= 2, "%s: %d paths" % (fn, n))


def rule_R10(P, rep):
    """Appending to a collision chain: the link that is written is the one that was just seen to be NULL."""
    from abtverif import ctrldep
    F = P.fn("ABTU_hashtable_set", "src/util/hashtable.c")
    n = 0
    for _b, i, lh, rh in F.stores():
        if rh is None or F.field_of(lh) != ("ABTU_hashtable_element", "p_next"):
            continue
        if F.nodes[F.strip(rh)].get("cv") == 0:
            continue
        base = common.copy_root(F, F.base_var(lh), i)
        tested = []
        for a, _k in ctrldep.closure(F, F.block_of(i)):
            tc = F.blocks[a].tc
            if tc is None:
                continue
            for leaf in ctrldep._operands(F, tc):
                for j in F.descendants(leaf):
                    nd = F.nodes[j]
                    if nd.get("k") == "mem" and nd.get("r") == "ABTU_hashtable_element" and nd.get("f") == "p_next":
                        tested.append(common.copy_root(F, F.base_var(j), j))
        n += 1
        rep.ob("R10", "ABTU_hashtable_set links a new element behind the element whose p_next it found empty", base in tested,
               "the store goes to %s->p_next but the emptiness test looked at %s->p_next: a longer chain loses the elements "
               "behind %s" % (base, sorted(set(t for t in tested if t)), base), loc=F.loc(i), site="hashtable_set/append")
    rep.need(n >= 1, "ABTU_hashtable_set never links a new element")


def rule_R11(P, rep):
    """Every routine of hashtable.c computes the size of an in-table / chained element the same way: the bucket stride
    of get_element, the allocation of the table, the allocation of a chained element and the whole-element copy of
    delete must agree, or a copy overruns the neighbouring bucket."""
    H = "src/util/hashtable.c"
    sizes = {}
    for F in sorted(P.functions.values(), key=lambda f: (f.file, f.line)):
        if F.file != H:
            continue
        for _b, i in F.calls("ABTU_roundup_size"):
            txt = canon.expr(F, i)
            if True:
                # the constant parts: header size added to the payload size, and the alignment (the payload size is a
                # field in one routine and a parameter in another)
                key = "roundup(%s + data_size, %s)" % tuple((re.findall(r"\b\d+\b", txt) + ["?", "?"])[:2])
                sizes.setdefault(key, []).append("%s (%s)" % (F.name, F.loc(i)))
    rep.need(sum(len(v) for v in sizes.values()) >= 3, "only %s element-size computations in hashtable.c" % sizes)
    rep.ob("R11", "hashtable.c computes the element size identically everywhere (stride, allocation, whole-element copy)",
           len(sizes) == 1, "different element sizes: %s" % "; ".join("%s in %s" % (k, ", ".join(v)) for k, v in sorted(sizes.items())),
           loc=H, site="hashtable/element-size")


def run(P, rep, tier):
    rule_R1(P, rep)
    rule_R2(P, rep)
    rule_R3_R4(P, rep)
    rule_R5(P, rep)
    rule_R6(P, rep)
    rule_R7(P, rep)
    rule_R8(P, rep)
    rule_R9(P, rep)
    rule_R10(P, rep)
    rule_R11(P, rep)
