"""C09 -- eventuals and futures (structural part)."""
from abtverif import seq
from abtverif.seq import idx, is_call, is_acq, is_rel, is_xfer, held_at, show, has_if
from . import common

EXPLANATION = (
    "Decides on every path that ABT_eventual_set copies the value, marks the eventual ready and broadcasts, in "
    "this order, inside one critical section of the eventual's lock, and that the already-ready arm releases the "
    "lock, returns an error and writes nothing (R1); that wait/test/reset read or write `ready` only under the "
    "lock and that the not-ready arm of wait enqueues handing over that same lock (R2); that ABT_future_set, under "
    "the future's lock, rejects out-of-range sets without mutating anything, stores the compartment, invokes the "
    "callback at most once and only when the last compartment was filled, before the counter is release-stored "
    "and before the broadcast (R3); that future wait compares under the lock and enqueues with the same lock, and "
    "test uses an acquire load (R4).  The content of the copied value is not decided.")
DECLINED = ["'read the value that was set' (contents of the memcpy'd buffer)"]
ASSUMPTIONS = ["C05.R4 / C04.R3 for the wait list", "user callbacks are opaque"]
RULES_DOC = dict(common.SHARED_DOC)
RULES_DOC["X7"] = common.X7_DOC
RULES_DOC["X4"] = common.X4_DOC
RULES_DOC["X5"] = common.X5_DOC
RULES_DOC["R7"] = "ABT_future_test reports ready exactly when counter == num_compartments (no arithmetic on either side): the same condition under which ABT_future_set runs the callback and releases the waiters, so test and wait never disagree"
RULES_DOC["R6"] = "= C06.R5: the scheduler of a blocked waiter's pool keeps running while the waiter is blocked, for every shared access mode: the set that makes the eventual / future ready pushes the waiter to a pool that is still consumed"
RULES_DOC["R5"] = "= C06.R2 and C06.R1/R3/R4: the waiter that a set wakes is pushed before it stops being counted as blocked, and is counted on the pool it will be resumed on (a woken waiter is never stranded in a pool whose stream already terminated)"
RULES_DOC["X6"] = common.X6_DOC
RULES_DOC.update({
    "R1": "eventual_set: copy -> ready=TRUE -> broadcast inside one lock section; already-ready arm mutates nothing and returns ABT_ERR_EVENTUAL",
    "R2": "eventual wait/test/reset access `ready` only under the lock; not-ready wait enqueues with the eventual's own list and lock",
    "R3": "future_set under the lock: range check first; store; callback at most once iff full, before the release-store of the counter and the broadcast",
    "R4": "future wait compares under the lock and enqueues with the same lock; test reads the counter with an acquire load",
})
VARIANTS = ["active_wait", "no_ext_thread"]
EL, FL = "ABTI_eventual::lock", "ABTI_future::lock"


def _paths(F, sel, **kw):
    return [p for p in seq.sequences(F, sel, **kw) if p[1] == "ret"]


READY = "ABTI_eventual::ready"
VALUE = "ABTI_eventual::value"
CNT_LOAD = "_load_size(&ABTI_future::counter)"
NCOMP = "ABTI_future::num_compartments"


def _ev_cond(t):
    """Canonical labels (independent of local names and of the polarity of the test)."""
    if t == READY:
        return "ready"              # ready != FALSE
    if t == VALUE:
        return "has-value"
    return None


def _fu_cond(t):
    if CNT_LOAD in t and NCOMP in t:
        if "+ 1" in t and "==" in t:
            return "last"           # counter + 1 == num_compartments
        if t.endswith("< " + NCOMP) and "+ 1" not in t:
            return "in-range"       # counter < num_compartments
        if t.startswith(NCOMP + " < ") and "+ 1" in t:
            return "overfull"
    if t == "ABTI_future::p_callback":
        return "has-cb"
    if t == "ABTI_future::counter" or "ABTI_future::counter" in t:
        return "counter:" + t
    return None


def rule_R1(P, rep):
    F = P.fn("ABT_eventual_set", "src/eventual.c")
    ERR = P.macro_int("ABT_ERR_EVENTUAL")
    rep.need(ERR, "ABT_ERR_EVENTUAL not found in abt.h")
    sel = seq.Sel(calls={"memcpy", "ABTI_waitlist_broadcast", "__builtin___memcpy_chk", "__builtin_memcpy"},
                  fields={"ready", "value"}, conds=_ev_cond, reads={READY}, canon=True)
    ps = _paths(F, sel)
    kinds = set()
    for toks, kind, rv, rtxt in ps:
        why = []
        cs = idx(toks, lambda t: t[0] == "acq" and t[1] == EL)
        if not cs:
            if rv == 0:
                why.append("success without taking the lock")
            if any(t[0] in ("st", "call") for t in toks):
                why.append("argument-error path touches the eventual")
            rep.ob("R1", "eventual_set early error path -> %s" % rtxt, not why, "; ".join(why), loc=F.file,
                   site="eventual_set/early/%s" % rtxt)
            continue
        rd = idx(toks, lambda t: t[0] == "rd" and t[1] == READY)
        tests = idx(toks, lambda t: t[0] == "if" and t[1] == "ready")
        if not rd or not tests or any(not held_at(toks, EL, i) for i in rd) or rd[0] > tests[0]:
            why.append("`ready` not read under the lock")
        if has_if(toks, "ready", False):
            k = "first-set"
            sets = [i for i, t in enumerate(toks) if t[0] == "st" and t[1] == READY]
            bc = idx(toks, is_call("ABTI_waitlist_broadcast"))
            cp = idx(toks, lambda t: t[0] == "call" and "memcpy" in t[1])
            rl = idx(toks, is_rel(EL))
            if len(sets) != 1 or toks[sets[0]][3] != 1 or len(bc) != 1 or len(rl) != 1:
                why.append("must set ready=TRUE once, broadcast once and release once")
            else:
                if not (sets[0] < bc[0] < rl[0]):
                    why.append("order must be ready=TRUE < broadcast < release")
                if cp and not cp[0] < sets[0]:
                    why.append("value copied after `ready` was set")
                if has_if(toks, "has-value", True) and not cp:
                    why.append("value buffer present but not copied")
                if "&ABTI_eventual::waitlist" not in toks[bc[0]][2]:
                    why.append("broadcast on %s" % (toks[bc[0]][2],))
            if rv != 0:
                why.append("first set returns %s" % rv)
        else:
            k = "already-ready"
            if any(t[0] == "st" or (t[0] == "call") for t in toks):
                why.append("second set writes state or wakes waiters")
            if rv != ERR:
                why.append("second set returns %s, expected ABT_ERR_EVENTUAL" % rv)
        if held_at(toks, EL, len(toks)):
            why.append("returns holding the lock")
        kinds.add(k)
        rep.ob("R1", "eventual_set %s [%s]" % (k, show(toks)), not why, "; ".join(why), loc=F.file,
               site="eventual_set/%s/%s" % (k, has_if(toks, "has-value", True)))
    rep.ob("R1", "eventual_set has first-set and already-ready arms", kinds == {"first-set", "already-ready"},
           str(kinds), loc=F.file, site="eventual_set/kinds")
    rep.min_instances("R1", 4)


def rule_R2(P, rep):
    sel = seq.Sel(calls={"ABTI_waitlist_broadcast"}, fields={"ready"}, conds=_ev_cond, reads={READY}, canon=True)
    # wait
    F = P.fn("ABT_eventual_wait", "src/eventual.c")
    kinds = set()
    for toks, kind, rv, rtxt in _paths(F, sel):
        if rv != 0:
            continue
        why = []
        tests = [i for i, t in enumerate(toks) if t[0] == "if" and t[1] == "ready"]
        rd = idx(toks, lambda t: t[0] == "rd" and t[1] == READY)
        # one read under the lock; a helper's flattened result / a temporary may be tested again, which is the
        # same decision as long as every test of that one value goes the same way
        if not tests or len(set(toks[i][2] for i in tests)) != 1 or len(rd) != 1 or any(not held_at(toks, EL, i) for i in rd) or \
                rd[0] > tests[0]:
            why.append("`ready` must be tested exactly once under the lock")
        else:
            notready = toks[tests[0]][2] is False
            xf = idx(toks, is_xfer(EL))
            if notready:
                kinds.add("not-ready")
                if len(xf) != 1 or toks[xf[0]][1] != "ABTI_waitlist_wait_and_unlock" or \
                        "&ABTI_eventual::waitlist" not in toks[xf[0]][3]:
                    why.append("not-ready arm must enqueue on the eventual's own list handing over its lock")
            else:
                kinds.add("ready")
                if xf or len(idx(toks, is_rel(EL))) != 1:
                    why.append("ready arm must just release the lock")
        if held_at(toks, EL, len(toks)):
            why.append("returns holding the lock")
        rep.ob("R2", "eventual_wait [%s]" % show(toks), not why, "; ".join(why), loc=F.file,
               site="eventual_wait/%s" % show(toks))
    rep.ob("R2", "eventual_wait has ready and not-ready arms", kinds == {"ready", "not-ready"}, str(kinds), loc=F.file,
           site="eventual_wait/kinds")
    # test / reset: every access of `ready` under the lock
    for fn in ("ABT_eventual_test", "ABT_eventual_reset"):
        F = P.fn(fn, "src/eventual.c")
        n = 0
        for toks, kind, rv, rtxt in _paths(F, sel):
            acc = [i for i, t in enumerate(toks) if (t[0] == "rd" and t[1] == READY) or (t[0] == "st" and t[1] == READY)]
            if rv != 0:
                continue
            n += 1
            why = []
            if not acc:
                why.append("does not access `ready`")
            if any(not held_at(toks, EL, i) for i in acc):
                why.append("`ready` accessed outside the lock")
            if held_at(toks, EL, len(toks)):
                why.append("returns holding the lock")
            if fn.endswith("reset") and not any(t[0] == "st" and t[3] == 0 for t in toks):
                why.append("reset does not clear `ready`")
            rep.ob("R2", "%s [%s]" % (fn, show(toks)), not why, "; ".join(why), loc=F.file, site="%s/%s" % (fn, show(toks)))
        rep.need(n >= 1, "%s: no success path" % fn)
    rep.min_instances("R2", 5)


def rule_R3(P, rep):
    F = P.fn("ABT_future_set", "src/futures.c")
    ERR = P.macro_int("ABT_ERR_FUTURE")
    rep.need(ERR, "ABT_ERR_FUTURE not found in abt.h")
    sel = seq.Sel(calls={"ABTI_waitlist_broadcast"}, fields={"counter", "array"}, conds=_fu_cond, indirect=True,
                  reads={"ABTI_future::counter"}, canon=True)
    ps = _paths(F, sel)
    kinds = set()
    for toks, kind, rv, rtxt in ps:
        why = []
        if not idx(toks, is_acq(FL)):
            if rv == 0 or any(t[0] in ("st", "ast", "icall", "call") for t in toks):
                why.append("path without the lock succeeds or mutates")
            rep.ob("R3", "future_set early error path -> %s" % rtxt, not why, "; ".join(why), loc=F.file,
                   site="future_set/early/%s" % rtxt)
            continue
        rd = idx(toks, lambda t: t[0] == "rd" and t[1] == "ABTI_future::counter")
        if not rd or any(not held_at(toks, FL, i) for i in rd):
            why.append("counter not read under the lock")
        full = has_if(toks, "in-range", False)
        stores = [i for i, t in enumerate(toks) if t[0] == "st" and t[1] == "ABTI_future::array"]
        ast = [i for i, t in enumerate(toks) if t[0] == "ast" and t[2] == "ABTI_future::counter"]
        cb = [i for i, t in enumerate(toks) if t[0] == "icall"]
        bc = idx(toks, is_call("ABTI_waitlist_broadcast"))
        if full:
            k = "rejected"
            if stores or ast or cb or bc:
                why.append("out-of-range set mutates the future")
            if rv != ERR:
                why.append("returns %s, expected ABT_ERR_FUTURE" % rv)
        else:
            last = has_if(toks, "last", True)
            k = "last" if last else "partial"
            if not has_if(toks, "in-range", True):
                why.append("range test missing before the store")
            if any(t[0] == "if" and t[1].startswith("counter:") for t in toks):
                why.append("unrecognised test of the counter: %s" % [t[1] for t in toks if t[0] == "if" and t[1].startswith("counter:")][0])
            if len(stores) != 1 or len(ast) != 1:
                why.append("must store one compartment and publish the counter once")
            else:
                if "release" not in toks[ast[0]][1]:
                    why.append("counter not release-stored")
                if not stores[0] < ast[0]:
                    why.append("counter published before the compartment is stored")
                pv = str(toks[ast[0]][3])
                if not (CNT_LOAD in pv and pv.endswith("+ 1")):
                    why.append("publishes %s" % pv)
            if len(cb) > 1:
                why.append("callback invoked %d times" % len(cb))
            if last:
                has_cb = has_if(toks, "has-cb", True)
                if has_cb and len(cb) != 1:
                    why.append("callback registered but not invoked on the last set")
                if cb and ast and not cb[0] < ast[0]:
                    why.append("callback after the counter was published (waiters may return first)")
                if len(bc) != 1:
                    why.append("last set must broadcast once")
                elif ast and not ast[0] < bc[0]:
                    why.append("broadcast before the counter is published")
                if cb and toks[cb[0]][1] != "*ABTI_future::p_callback":
                    why.append("indirect call through %s" % toks[cb[0]][1])
            else:
                if cb or bc:
                    why.append("partial set invokes the callback or wakes waiters")
            if rv != 0:
                why.append("returns %s" % rv)
            for i in stores + ast + cb + bc:
                if not held_at(toks, FL, i):
                    why.append("effect outside the lock")
                    break
        if held_at(toks, FL, len(toks)):
            why.append("returns holding the lock")
        kinds.add(k)
        rep.ob("R3", "future_set %s [%s]" % (k, show(toks)[:320]), not why, "; ".join(why), loc=F.file,
               site="future_set/%s/%s" % (k, has_if(toks, "has-cb", True)))
    rep.ob("R3", "future_set has rejected, partial and last arms", kinds == {"rejected", "partial", "last"}, str(kinds),
           loc=F.file, site="future_set/kinds")
    rep.min_instances("R3", 5)


def rule_R4(P, rep):
    F = P.fn("ABT_future_wait", "src/futures.c")
    sel = seq.Sel(conds=_fu_cond, reads={"ABTI_future::counter"}, canon=True)
    kinds = set()
    for toks, kind, rv, rtxt in _paths(F, sel):
        if rv != 0:
            continue
        why = []
        tests = [i for i, t in enumerate(toks) if t[0] == "if" and (t[1] == "in-range" or t[1].startswith("counter:"))]
        rd = idx(toks, lambda t: t[0] == "rd" and t[1] == "ABTI_future::counter")
        # one read of the counter under the lock; re-tests of a local holding that one comparison (a helper's
        # flattened result) are the same decision as long as they all go the same way
        if not tests or any(toks[i][1] != "in-range" for i in tests) or len(set(toks[i][2] for i in tests)) != 1 or \
                len(rd) != 1 or any(not held_at(toks, FL, i) for i in rd) or rd[0] > tests[0]:
            why.append("counter must be compared with num_compartments once under the lock")
        else:
            xf = idx(toks, is_xfer(FL))
            if toks[tests[0]][2]:
                kinds.add("not-ready")
                if len(xf) != 1 or "&ABTI_future::waitlist" not in toks[xf[0]][3]:
                    why.append("not-ready arm must enqueue on the future's own list handing over its lock")
            else:
                kinds.add("ready")
                if xf:
                    why.append("ready arm enqueues")
        if held_at(toks, FL, len(toks)):
            why.append("returns holding the lock")
        rep.ob("R4", "future_wait [%s]" % show(toks), not why, "; ".join(why), loc=F.file, site="future_wait/%s" % show(toks))
    rep.ob("R4", "future_wait has ready and not-ready arms", kinds == {"ready", "not-ready"}, str(kinds), loc=F.file,
           site="future_wait/kinds")
    T = P.fn("ABT_future_test", "src/futures.c")
    loads = [T.nodes[i] for _b, i in T.calls() if T.nodes[i]["a"] and T.field_of(T.nodes[i]["a"][0]) == ("ABTI_future", "counter")]
    rep.ob("R4", "future_test reads the counter with an acquire load", bool(loads) and all(
        nd["fn"] == "ABTD_atomic_acquire_load_size" for nd in loads), str([nd["fn"] for nd in loads]), loc=T.file,
        site="future_test/acquire")
    R = P.fn("ABT_future_reset", "src/futures.c")
    sel = seq.Sel(fields={"counter"})
    for toks, kind, rv, rtxt in _paths(R, sel):
        if rv != 0:
            continue
        ast = [i for i, t in enumerate(toks) if t[0] == "ast" and t[2] == "ABTI_future::counter"]
        ok = len(ast) == 1 and toks[ast[0]][3] == 0 and held_at(toks, FL, ast[0]) and not held_at(toks, FL, len(toks))
        rep.ob("R4", "future_reset clears the counter under the lock", ok, show(toks), loc=R.file, site="future_reset")
    rep.min_instances("R4", 5)


def rule_R7(P, rep):
    import re
    from abtverif import canon
    """ABT_future_test reports ready exactly when all compartments are set: the value it stores is decided by
    `counter == num_compartments` (the condition under which ABT_future_set ran the callback and woke the waiters), with
    no arithmetic on either side."""
    F = P.fn("ABT_future_test", "src/futures.c", flat=True)
    outp = [p_["n"] for p_ in F.params if p_["t"].replace(" ", "") == "ABT_bool*"]
    rep.need(len(outp) == 1, "ABT_future_test: out-parameter not found")
    labs = []
    for i, nd in enumerate(F.nodes):
        if nd and nd.get("k") == "bin" and nd["op"] in ("==", "!=", "<", "<=", ">", ">=") and F.block_of(i) is not None or \
                (nd and nd.get("k") == "bin" and nd["op"] in ("==", "!=", "<", "<=", ">", ">=")):
            txt = canon.expr(F, i)
            if "ABTI_future::counter" in txt and "num_compartments" in txt:
                lab, _flip = canon.cond(F, i)       # `!=`, `>=` ... are normalised to `==` / `<` (polarity aside)
                labs.append(re.sub(r"ABTD_atomic_\w+\(&?(ABTI_future::counter)\)", r"\1", lab))
    rep.need(labs, "ABT_future_test: no comparison of counter with num_compartments")
    want = ("ABTI_future::counter == ABTI_future::num_compartments", "ABTI_future::num_compartments == ABTI_future::counter",
            "ABTI_future::counter < ABTI_future::num_compartments")     # counter never exceeds num_compartments (C09.R2)
    rep.ob("R7", "ABT_future_test: ready iff counter == num_compartments", all(l in want for l in labs),
           "readiness is decided by `%s`: ABT_future_test and ABT_future_wait disagree while one compartment is still unset" %
           "; ".join(labs), loc="%s:%d" % (F.file, F.line), site="future_test/predicate")


def run(P, rep, tier):
    common.rule_X7(P, rep, records=('ABTI_eventual', 'ABTI_future'))
    common.rule_X6(P, rep)
    common.rule_widths(P, rep, [('ABTI_future', 'counter'), ('ABTI_future', 'num_compartments')])
    common.rule_X4(P, rep)
    common.run_shared(P, rep)
    rule_R1(P, rep)
    rule_R2(P, rep)
    rule_R3(P, rep)
    rule_R4(P, rep)
    from . import C06
    common.borrow(rep, P, C06.rule_R2, "R5")
    common.borrow(rep, P, C06.rule_R1_R3_R4, "R5")
    common.borrow(rep, P, C06.rule_R5, "R6")
    rule_R7(P, rep)
