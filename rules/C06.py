"""C06 -- stream join/free and finalize wait for all work; the blocked-unit
counter that drives the decision is balanced (structural part)."""
from abtverif import canon, cfg, seq
from abtverif.seq import idx, is_call, show, has_if, atomic_cmp
from . import common

EXPLANATION = (
    "Decides the bookkeeping that ABT_xstream_join/free and ABT_finalize rely on.  R1: in every callback that "
    "release-stores BLOCKED the caller was counted into a pool's blocked counter first.  R2: a resumed unit is "
    "pushed before it is un-counted (queue size + blocked count never reads 0 while the unit is in flight), the "
    "decrement uses a pool value loaded before the push, and ABT_thread_yield_to's pre-increment is rolled back on "
    "its error path.  R3: the pool whose counter is incremented is read after the last call that may re-associate "
    "the unit with another pool (transitive mod-ref of ABTI_thread::p_pool), because the resume side decrements the "
    "pool the unit belongs to at resume time.  R4: per post-switch callback, the net counter effect on every path "
    "equals the class of the primitive (suspend +1 on the caller's pool, resume_* -1 on the target's pool, "
    "yield/exit 0, thread_yield_to -1 compensating the pre-increment).  R5: ABTI_sched_has_unit answers FALSE only "
    "after all pools were found empty and un-blocked, ABTI_sched_has_to_stop answers TRUE only on an exit request or "
    "after has_unit was false (twice on the finish/replace arm).  R6: the main-scheduler and root loops leave only "
    "on cancel / finish-and-no-unit / main scheduler TERMINATED and always schedule a popped unit.  R7: join and "
    "finalize request finish, then join the main scheduler's ULT, then the native thread; the stream is marked "
    "TERMINATED after the root loop.  R8: check_events maps JOIN to finish and CANCEL to exit.  Whether user-defined "
    "schedulers honour ABT_sched_has_to_stop is not decided.")
DECLINED = ["that user-defined schedulers honour ABT_sched_has_to_stop / keep popping",
            "numeric value of the counter over histories (only per-path balance and ordering)"]
ASSUMPTIONS = ["C02/C11: each switch primitive runs exactly the callback it passes"]
RULES_DOC = dict(common.SHARED_DOC)
RULES_DOC.update({
    "R1": "count-before-publish: inc_num_blocked precedes the BLOCKED release-store in every suspend callback",
    "R2": "push-before-uncount in resume_and_push / thread_yield_to callback (pool loaded before the push); yield_to pre-increment rolled back on error",
    "R3": "the pool read for the increment is not stale: no call that may write ABTI_thread::p_pool between that read and the BLOCKED store",
    "R4": "net blocked-counter effect of each post-switch callback equals its primitive's class on every path",
    "R5": "has_unit / has_to_stop termination predicates",
    "R6": "main scheduler and root loops exit conditions; a popped unit is always scheduled",
    "R7": "xstream join / finalize sequences; TERMINATED stored after the root loop",
    "R8": "check_events: REQ_JOIN -> sched_finish, REQ_CANCEL -> sched_exit",
})
VARIANTS = ["no_ext_thread", "active_wait", "tool_interface"]
Y = "src/ythread.c"
SUSPEND_CBS = ["ABTI_ythread_callback_suspend", "ABTI_ythread_callback_resume_suspend_to",
               "ABTI_ythread_callback_suspend_unlock", "ABTI_ythread_callback_suspend_join",
               "ABTI_ythread_callback_suspend_replace_sched"]
INC, DEC = "ABTI_pool_inc_num_blocked", "ABTI_pool_dec_num_blocked"


def _cb_sel():
    return seq.Sel(calls={INC, DEC, "ABTI_thread_handle_request", "ABTI_pool_add_thread", "ABTI_thread_terminate"},
                   fields={"state"}, conds=lambda t: "p_prev_pool" in t or "handle_request" in t,
                   decls={"p_pool", "p_prev_pool", "p_next_pool", "p_prev", "p_next"})


def _pool_expr(F, nid):
    """(base ULT variable, how the pool value was obtained, node of the p_pool read)"""
    nd = F.nodes[nid]
    a = F.strip(nd["a"][0])
    an = F.nodes[a]
    if an.get("k") == "mem" and an["f"] == "p_pool":
        return F.base_var(a), "direct", a
    if an.get("k") == "ref":
        # local variable: find its (single) definition
        for bid, j in F.all_events():
            dn = F.nodes[j]
            if dn.get("k") == "decl":
                for v in dn["vars"]:
                    if v["n"] == an["n"] and "init" in v:
                        i2 = F.strip(v["init"])
                        if F.nodes[i2].get("k") == "mem" and F.nodes[i2]["f"] == "p_pool":
                            return F.base_var(i2), "local", j
    return None, "unknown", nid


def rule_R1_R3_R4(P, rep):
    BLOCKED = P.enum_consts["ABT_THREAD_STATE_BLOCKED"]
    maywrite = P.may_write("ABTI_thread", "p_pool")
    for cb in SUSPEND_CBS:
        F = P.fn(cb, Y)
        ps = [p for p in seq.sequences(F, _cb_sel()) if p[1] == "ret"]
        rep.need(ps, "%s: no path" % cb)
        for toks, kind, rv, rtxt in ps:
            st = [i for i, t in enumerate(toks) if t[0] == "ast" and t[2] == "ABTI_thread::state" and t[3] == BLOCKED]
            incs = idx(toks, is_call(INC))
            decs = idx(toks, is_call(DEC))
            why = []
            if len(st) != 1:
                why.append("BLOCKED stored %d times" % len(st))
            elif cb == "ABTI_ythread_callback_resume_suspend_to" and has_if(toks, "p_prev_pool != p_next_pool", False):
                if incs or decs:
                    why.append("same pool: the +1/-1 pair must be skipped entirely")
            else:
                if len(incs) != 1 or incs[0] > st[0]:
                    why.append("the caller is not counted as blocked before BLOCKED becomes visible (a resumer may "
                               "decrement first: negative count)")
            rep.ob("R1", "%s: blocked count incremented before BLOCKED is published [%s]" % (cb, show(toks)[:200]),
                   not why, "; ".join(why), loc="%s:%d" % (F.file, F.line), site="%s/count-before-publish/%d" % (cb, len(toks)))
        # R3: stale pool
        for bid, nid in F.calls(INC):
            base, how, readnode = _pool_expr(F, nid)
            stores = [i for b, i in F.calls() if F.nodes[i].get("fn", "").startswith("ABTD_atomic_release_store_int") and
                      F.field_of(F.nodes[i]["a"][0]) == ("ABTI_thread", "state")]
            bad = []
            for b2, c in F.calls():
                cn = F.nodes[c]
                G = P.resolve_call(F, cn)
                if G is None or G.key not in maywrite:
                    continue
                if cfg.can_reach(F, readnode, c) and any(cfg.can_reach(F, c, s) for s in stores):
                    chain = P.call_chain(G.key, P.direct_writers("ABTI_thread", "p_pool"))
                    bad.append("%s at %s may write ABTI_thread::p_pool (%s) after the pool was read at %s" %
                               (cn["fn"], F.loc(c), " -> ".join(chain), F.loc(readnode)))
            ok = base is not None and not bad
            rep.ob("R3", "%s increments the counter of the pool %s belongs to when BLOCKED is published" % (cb, base),
                   ok, "; ".join(bad) or ("pool expression not understood (%s)" % how), loc=F.loc(nid),
                   site="%s/stale-pool" % cb)
    # R4 classes
    classes = {
        "ABTI_ythread_callback_suspend": ("+1 prev", None),
        "ABTI_ythread_callback_suspend_unlock": ("+1 prev", None),
        "ABTI_ythread_callback_suspend_join": ("+1 prev", None),
        "ABTI_ythread_callback_suspend_replace_sched": ("+1 prev", None),
        "ABTI_ythread_callback_resume_suspend_to": ("+1 prev, -1 next (or none if same pool)", None),
        "ABTI_ythread_callback_resume_yield_to": ("-1 next", None),
        "ABTI_ythread_callback_resume_exit_to": ("-1 next", None),
        "ABTI_ythread_callback_thread_yield_to": ("-1 pool read before the push", None),
        "ABTI_ythread_callback_exit": ("0", None),
        "ABTI_ythread_callback_orphan": ("0", None),
        "ythread_callback_yield_impl": ("0", None),
    }
    for cb, (cls, _) in sorted(classes.items()):
        F = P.fn(cb, Y)
        for toks, kind, rv, rtxt in seq.sequences(F, _cb_sel()):
            if kind != "ret":
                continue
            incs = [toks[i] for i in idx(toks, is_call(INC))]
            decs = [toks[i] for i in idx(toks, is_call(DEC))]
            def who(t):
                # identity of the unit whose pool is counted: the callback's own argument (or the p_prev
                # member of its argument struct) is the outgoing unit, the p_next member the resumed one
                a = canon.rooted(F, F.nodes[t[-1]]["a"][0])
                p0 = F.params[0]["n"]
                if a.startswith(p0 + "->p_prev->") or a.startswith(p0 + "->thread."):
                    return "prev"
                if a.startswith(p0 + "->p_next->"):
                    return "next"
                return a
            got = sorted(["+1 " + who(t) for t in incs] + ["-1 " + who(t) for t in decs])
            if cls == "0":
                want = [[]]
            elif cls == "+1 prev":
                want = [["+1 prev"]]
            elif cls == "-1 next":
                want = [["-1 next"]]
            elif cls.startswith("+1 prev, -1 next"):
                want = [["+1 prev", "-1 next"], []] if not has_if(toks, "p_prev_pool != p_next_pool", True) else [["+1 prev", "-1 next"]]
                if has_if(toks, "p_prev_pool != p_next_pool", False):
                    want = [[]]
            else:
                want = [["-1 prev"]]
            rep.ob("R4", "%s path: counter effects %s (class: %s)" % (cb, got, cls), got in want,
                   "expected %s on every path" % want, loc="%s:%d" % (F.file, F.line), site="%s/net/%s" % (cb, len(toks)))
    rep.min_instances("R1", 5)
    rep.min_instances("R3", 5)
    rep.min_instances("R4", 12)


def rule_R2(P, rep):
    F = P.fn("ABTI_ythread_resume_and_push", "src/include/abti_ythread.h")
    sel = seq.Sel(calls={"ABTI_pool_add_thread", DEC, INC}, decls={"p_pool"})
    for toks, kind, rv, rtxt in seq.sequences(F, sel):
        if kind != "ret":
            continue
        why = []
        add = idx(toks, is_call("ABTI_pool_add_thread"))
        dec = idx(toks, is_call(DEC))
        rd = [i for i, t in enumerate(toks) if t[0] == "decl" and t[1] == "p_pool"]
        if len(add) != 1 or len(dec) != 1:
            why.append("must push once and decrement once")
        else:
            if not add[0] < dec[0]:
                why.append("blocked count decremented before the unit is pushed: size + blocked can read 0 while the unit "
                           "is in flight and the only scheduler of the pool may terminate")
            if not rd or rd[0] > add[0] or toks[rd[0]][2] != "p_ythread->thread.p_pool":
                why.append("pool not loaded before the push (after the push another stream may re-associate the unit)")
            elif toks[dec[0]][2] != ("var:p_pool",):
                why.append("decrements %s instead of the pool loaded before the push" % (toks[dec[0]][2],))
        rep.ob("R2", "resume_and_push: READY+push, then decrement of the pre-loaded pool [%s]" % show(toks), not why,
               "; ".join(why), loc="%s:%d" % (F.file, F.line), site="resume_and_push")
    F = P.fn("ABTI_ythread_callback_thread_yield_to", Y)
    sel = seq.Sel(calls={"ABTI_pool_add_thread", DEC, INC, "ABTI_thread_handle_request"}, decls={"p_pool"},
                  conds=lambda t: "handle_request" in t)
    for toks, kind, rv, rtxt in seq.sequences(F, sel):
        if kind != "ret":
            continue
        why = []
        add = idx(toks, is_call("ABTI_pool_add_thread"))
        dec = idx(toks, is_call(DEC))
        rd = [i for i, t in enumerate(toks) if t[0] == "decl" and t[1] == "p_pool"]
        hr = idx(toks, is_call("ABTI_thread_handle_request"))
        if len(dec) != 1:
            why.append("the pre-increment of ABT_thread_yield_to is undone %d times on this path" % len(dec))
        else:
            if add and add[0] > dec[0]:
                why.append("decrement before the push")
            if not rd or (hr and rd[0] > hr[0]) or toks[dec[0]][2] != ("var:p_pool",):
                why.append("must decrement the pool loaded before request handling / push (the one that was incremented)")
        rep.ob("R2", "thread_yield_to callback path [%s]" % show(toks)[:220], not why, "; ".join(why),
               loc="%s:%d" % (F.file, F.line), site="callback_thread_yield_to/%d" % len(add))
    F = P.fn("ABT_thread_yield_to", "src/thread.c")
    sel = seq.Sel(calls={INC, DEC, "ABTI_pool_remove", "ABTI_ythread_thread_yield_to"}, conds=lambda t: "abt_errno" in t)
    n = 0
    for toks, kind, rv, rtxt in seq.sequences(F, sel):
        rm = idx(toks, is_call("ABTI_pool_remove"))
        if kind != "ret" or not rm:
            continue
        n += 1
        inc = idx(toks, is_call(INC))
        dec = idx(toks, is_call(DEC))
        sw = idx(toks, is_call("ABTI_ythread_thread_yield_to"))
        why = []
        if len(inc) != 1 or inc[0] > rm[0]:
            why.append("caller's pool not counted before the target is removed from its pool")
        if sw:
            if dec:
                why.append("pre-increment undone although the switch happens (the callback undoes it)")
            if rv != 0:
                why.append("returns %s after switching" % rv)
        else:
            if len(dec) != 1:
                why.append("error path leaves the pre-increment in place")
            elif inc and F.render(F.nodes[toks[inc[0]][-1]]["a"][0]) != F.render(F.nodes[toks[dec[0]][-1]]["a"][0]):
                why.append("rolls back a different pool")
        rep.ob("R2", "ABT_thread_yield_to path -> %s [%s]" % (rtxt, show(toks)[:200]), not why, "; ".join(why),
               loc="%s:%d" % (F.file, F.line), site="ABT_thread_yield_to/%s" % ("switch" if sw else "error"))
    rep.need(n >= 2, "ABT_thread_yield_to: %d paths through pool_remove" % n)
    rep.min_instances("R2", 5)


def rule_R5(P, rep):
    F = P.fn("ABTI_sched_has_unit", "src/sched/sched.c")
    sel = seq.Sel(calls={"ABTI_pool_is_empty"}, rets=True,
                  conds=lambda t: "is_empty" in t or "num_blocked" in t or "num_scheds" in t or "p < num_pools" in t)
    sel.conds = lambda t: True if ("is_empty" in t or "num_blocked" in t or "num_scheds" in t or t == "p < num_pools") else False
    ps = seq.sequences(F, sel, max_repeat=2, max_len=60)
    n_false = 0
    for toks, kind, rv, rtxt in ps:
        if kind != "ret":
            continue
        why = []
        if rv == 0:
            n_false += 1
            loop = [t for t in toks if t[0] == "if" and t[1] == "p < num_pools"]
            if not loop or loop[-1][2] is not False:
                why.append("returns FALSE before all pools were inspected")
            if any(t[0] == "if" and "is_empty" in t[1] and ((t[1].startswith("!") or "== 0" in t[1]) == t[2]) and False for t in toks):
                pass
        else:
            # TRUE must be justified by the immediately preceding test: non-empty pool or non-zero blocked count
            conds = [t for t in toks if t[0] == "if" and t[1] != "p < num_pools"]
            last = conds[-1] if conds else None
            ok = last is not None and (("ABTI_pool_is_empty" in last[1] and last[2] is False) or
                                       ("num_blocked" in last[1] and last[2] is True))
            if not ok:
                why.append("returns TRUE after %s=%s" % (last[1] if last else None, last[2] if last else None))
        rep.ob("R5", "has_unit path -> %s [%s]" % (rv, show(toks)[:200]), not why, "; ".join(why),
               loc="%s:%d" % (F.file, F.line), site="has_unit/%s/%d" % (rv, len(toks)))
    rep.need(n_false >= 1, "has_unit never returns FALSE")
    # which access modes look at num_blocked
    accs = {}
    for bid, b in F.blocks.items():
        if b.casename:
            accs[b.casename] = bid
    rep.ob("R5", "has_unit distinguishes all five access modes", set(accs) >= {
        "ABT_POOL_ACCESS_PRIV", "ABT_POOL_ACCESS_SPSC", "ABT_POOL_ACCESS_MPSC", "ABT_POOL_ACCESS_SPMC",
        "ABT_POOL_ACCESS_MPMC"}, str(sorted(accs)), loc=F.file, site="has_unit/access-modes")
    loads = [F.nodes[i] for b, i in F.calls() if F.nodes[i]["a"] and (F.field_of(F.nodes[i]["a"][0]) or ("", ""))[1] in ("num_blocked", "num_scheds")]
    rep.ob("R5", "has_unit reads num_blocked / num_scheds with acquire loads", bool(loads) and all("acquire_load" in nd["fn"] for nd in loads),
           str([nd["fn"] for nd in loads]), loc=F.file, site="has_unit/acquire")
    G = P.fn("ABTI_sched_has_to_stop", "src/sched/sched.c")
    sel = seq.Sel(calls={"ABTI_sched_has_unit"}, conds=lambda t: True, rets=True)
    for toks, kind, rv, rtxt in seq.sequences(G, sel):
        if kind != "ret":
            continue
        why = []
        hu = [t for t in toks if t[0] == "if" and "ABTI_sched_has_unit" in t[1]]
        ex = [t for t in toks if t[0] == "if" and "<< 0" in t[1] or (t[0] == "if" and "ABTI_SCHED_REQ_EXIT" in t[1])]
        if rv == 1:
            exit_req = any(t[0] == "if" and "request" in t[1] and t[2] and not hu for t in toks[:2])
            if not exit_req:
                if not hu or any(t[2] for t in hu):
                    why.append("TRUE although has_unit was not observed false")
                fin = [t for t in toks if t[0] == "if" and "request" in t[1] and "has_unit" not in t[1]]
                if len(fin) >= 2 and fin[-1][2] and len(hu) < 2:
                    why.append("finish/replace arm must re-check has_unit after reading the request")
        rep.ob("R5", "has_to_stop path -> %s [%s]" % (rv, show(toks)[:220]), not why, "; ".join(why),
               loc="%s:%d" % (G.file, G.line), site="has_to_stop/%s/%d" % (rv, len(toks)))
    rep.min_instances("R5", 10)


def rule_R6(P, rep):
    F = P.fn("thread_main_sched_func", "src/thread.c")
    sel = seq.Sel(calls={"ABTI_sched_has_unit", "ABTI_ythread_resume_and_push", "ABTI_sched_discard_and_free"},
                  indirect=True, conds=lambda t: "request" in t or "has_unit" in t, fields={"p_main_sched"})
    ps = seq.sequences(F, sel, max_repeat=1, max_len=60)
    n = 0
    for toks, kind, rv, rtxt in ps:
        if kind != "ret":
            continue
        n += 1
        why = []
        runs = [t for t in toks if t[0] == "icall"]
        if not runs or runs[0][1] != "ABTI_sched::run":
            why.append("does not call the scheduler's run function")
        conds = [t for t in toks if t[0] == "if"]
        last = conds[-1] if conds else None
        cancel = last is not None and "request & (1 << 2)" in last[1] or (last is not None and "REQ_CANCEL" in last[1])
        if last is None:
            why.append("leaves the loop unconditionally")
        elif "ABTI_sched_has_unit" in last[1]:
            if last[2] is not False:
                why.append("leaves the loop although has_unit is true")
            fin = [t for t in conds[:-1] if "p_sched->request" in t[1]]
            if not fin or fin[-1][2] is not True:
                why.append("leaves on !has_unit without a finish request")
        elif not (last[2] is True and "request" in last[1]):
            why.append("leaves the loop on %s=%s" % (last[1], last[2]))
        rep.ob("R6", "main scheduler loop exit [%s]" % show(toks)[-220:], not why, "; ".join(why),
               loc="%s:%d" % (F.file, F.line), site="main_sched_loop/%s" % (last[1][:40] if last else "none"))
    rep.need(n >= 2, "thread_main_sched_func: %d exits" % n)
    R = P.fn("thread_root_func", "src/thread.c")
    TERM = P.enum_consts["ABT_THREAD_STATE_TERMINATED"]
    XT = P.enum_consts["ABT_XSTREAM_STATE_TERMINATED"]

    def conds(text, F, node):
        c = atomic_cmp(F, node, "ABTI_thread::state")
        if c and c[2] == TERM:
            return "mainsched.state%sTERMINATED/%s" % (c[1], c[0])
        if "thread != " in text or "thread ==" in text:
            return "popped"
        return False
    sel = seq.Sel(calls={"ABTI_pool_pop", "ABTI_ythread_schedule", "ABTI_ythread_exit_to_primary"}, fields={"state"}, conds=conds)
    for toks, kind, rv, rtxt in seq.sequences(R, sel, max_repeat=1, max_len=40):
        st = [i for i, t in enumerate(toks) if t[0] == "ast" and t[2] == "ABTI_xstream::state"]
        if not st:
            continue
        why = []
        loops = [t for t in toks if t[0] == "if" and t[1].startswith("mainsched.state")]
        if not loops or not ((loops[-1][1].startswith("mainsched.state!=") and loops[-1][2] is False) or
                             (loops[-1][1].startswith("mainsched.state==") and loops[-1][2] is True)) or "/acquire" not in loops[-1][1]:
            why.append("root loop left without an acquire observation that the main scheduler's ULT terminated")
        if toks[st[0]][3] != XT or "release" not in toks[st[0]][1]:
            why.append("stream state not release-stored TERMINATED")
        pops = idx(toks, is_call("ABTI_pool_pop"))
        sch = idx(toks, is_call("ABTI_ythread_schedule"))
        for p_i in pops:
            got = [t for t in toks[p_i:] if t[0] == "if" and t[1] == "popped"]
            if got and got[0][2] and not [s for s in sch if s > p_i]:
                why.append("popped unit not scheduled")
        rep.ob("R6", "root loop exit and TERMINATED publication [%s]" % show(toks)[:220], not why, "; ".join(why),
               loc="%s:%d" % (R.file, R.line), site="root_loop/%d" % len(sch))
    rep.min_instances("R6", 3)


def rule_R7_R8(P, rep):
    F = P.fn("xstream_join", "src/stream.c")
    sel = seq.Sel(calls={"ABTI_sched_finish", "ABTI_thread_join", "ABTD_xstream_context_join", "ABTI_sched_exit"})
    n = 0
    for toks, kind, rv, rtxt in seq.sequences(F, sel):
        if kind != "ret" or rv != 0:
            continue
        calls = [t[1] for t in toks if t[0] == "call"]
        if "ABTD_xstream_context_join" not in calls and "ABTI_thread_join" not in calls:
            continue
        n += 1
        want = ["ABTI_sched_finish", "ABTI_thread_join", "ABTD_xstream_context_join"]
        pos = [calls.index(c) if c in calls else -1 for c in want]
        ok = all(p >= 0 for p in pos) and pos == sorted(pos)
        tj = [t for t in toks if t[0] == "call" and t[1] == "ABTI_thread_join"]
        if ok and "p_ythread" not in F.render(F.nodes[tj[0][-1]]["a"][1]):
            ok = False
        rep.ob("R7", "xstream_join: finish request -> join main scheduler ULT -> join native thread [%s]" % calls, ok, "",
               loc="%s:%d" % (F.file, F.line), site="xstream_join/sequence")
    rep.need(n >= 1, "xstream_join: no joining path")
    G = P.fn("finailze_library", "src/global.c", required=False) or P.fn("finalize_library", "src/global.c")
    sel = seq.Sel(calls={"ABTI_sched_finish", "ABTI_ythread_yield_orphan", "ABTI_xstream_free", "ABTI_ythread_free_primary",
                         "ABTI_sched_exit"})
    n = 0
    for toks, kind, rv, rtxt in seq.sequences(G, sel, max_len=80):
        calls = [t[1] for t in toks if t[0] == "call"]
        if kind != "ret" or "ABTI_xstream_free" not in calls:
            continue
        n += 1
        ok = "ABTI_sched_finish" in calls and "ABTI_ythread_yield_orphan" in calls and \
            calls.index("ABTI_sched_finish") < calls.index("ABTI_ythread_yield_orphan") < calls.index("ABTI_xstream_free")
        rep.ob("R7", "finalize: finish request -> yield to the root (runs remaining units) -> free [%s]" % calls, ok, "",
               loc="%s:%d" % (G.file, G.line), site="finalize/sequence")
    rep.need(n >= 1, "finalize: no freeing path")
    E = P.fn("ABTI_xstream_check_events", "src/stream.c")
    def conds(text, F, node):
        ms = seq.macros_in(F, node)
        if "ABTI_THREAD_REQ_JOIN" in ms:
            return "REQ_JOIN"
        if "ABTI_THREAD_REQ_CANCEL" in ms:
            return "REQ_CANCEL"
        return False
    sel = seq.Sel(calls={"ABTI_sched_finish", "ABTI_sched_exit"}, conds=conds)
    for toks, kind, rv, rtxt in seq.sequences(E, sel):
        if kind != "ret":
            continue
        j = [t for t in toks if t[0] == "if" and t[1] == "REQ_JOIN"]
        c = [t for t in toks if t[0] == "if" and t[1] == "REQ_CANCEL"]
        calls = [t[1] for t in toks if t[0] == "call"]
        ok = len(j) == 1 and len(c) == 1 and (("ABTI_sched_finish" in calls) == j[0][2]) and (("ABTI_sched_exit" in calls) == c[0][2])
        rep.ob("R8", "check_events: JOIN=%s CANCEL=%s -> %s" % (j[0][2] if j else "?", c[0][2] if c else "?", calls), ok, show(toks),
               loc="%s:%d" % (E.file, E.line), site="check_events/%s" % calls)
    rep.min_instances("R8", 4)


def run(P, rep, tier):
    common.run_shared(P, rep, which=("X1",))
    rule_R1_R3_R4(P, rep)
    rule_R2(P, rep)
    rule_R5(P, rep)
    rule_R6(P, rep)
    rule_R7_R8(P, rep)
