"""C06 -- stream join/free and finalize wait for all work; the blocked-unit
counter that drives the decision is balanced (structural part)."""
import re

from abtverif import canon, cfg, seq
from abtverif.seq import idx, is_call, show, has_if
from . import common, c06_refs

EXPLANATION = (
    "Decides the bookkeeping that ABT_xstream_join/free and ABT_finalize rely on.  R1: in every callback that "
    "release-stores BLOCKED the caller was counted into a pool's blocked counter first.  R2: a resumed unit is "
    "pushed before it is un-counted (queue size + blocked count never reads 0 while the unit is in flight), the "
    "decrement uses a pool value loaded before the push, and ABT_thread_yield_to's pre-increment is rolled back on "
    "its error path.  R3: the pool whose counter is incremented is read after the last call that may re-associate "
    "the unit with another pool (transitive mod-ref of ABTI_thread::p_pool), because the resume side decrements the "
    "pool the unit belongs to at resume time.  R4: per post-switch callback, the net counter effect on every path "
    "equals the class of the primitive (suspend +1 on the caller's pool, resume_* -1 on the target's pool, "
    "yield/exit 0, thread_yield_to -1 compensating the pre-increment).  R5: ABTI_sched_has_unit answers FALSE only "
    "after all pools were found empty and un-blocked, ABTI_sched_has_to_stop answers TRUE only on an exit request or "
    "after has_unit was false (twice on the finish/replace arm).  R6: the main-scheduler and root loops leave only "
    "on cancel / finish-and-no-unit / main scheduler TERMINATED and always schedule a popped unit.  R7: join and "
    "finalize request finish, then join the main scheduler's ULT, then the native thread; the stream is marked "
    "TERMINATED after the root loop.  R8: check_events maps JOIN to finish and CANCEL to exit.  Whether user-defined "
    "schedulers honour ABT_sched_has_to_stop is not decided."
    ' R9 (control dependence): every pool of a scheduler is retained when the scheduler is created and released when it is freed, for every element of the pool array and independent of anything but the pool being there (ABTI_sched_has_unit trusts num_scheds == 1).')
DECLINED = ["that user-defined schedulers honour ABT_sched_has_to_stop / keep popping",
            "numeric value of the counter over histories (only per-path balance and ordering)"]
ASSUMPTIONS = ["C02/C11: each switch primitive runs exactly the callback it passes"]
RULES_DOC = dict(common.SHARED_DOC)
RULES_DOC["X9"] = common.X9_DOC
RULES_DOC["X8"] = common.X8_DOC
RULES_DOC["X7"] = common.X7_DOC
RULES_DOC["R10"] = "= C07.R2: the emptiness flag of a pool agrees with its element count on every path (also when the last unit is taken by a remove): a pool that claims to be non-empty for ever keeps its scheduler from finishing"
RULES_DOC["R9"] = c06_refs.DOC
RULES_DOC["X5"] = common.X5_DOC
RULES_DOC["X4"] = common.X4_DOC
RULES_DOC.update({
    "R1": "count-before-publish: inc_num_blocked precedes the BLOCKED release-store in every suspend callback",
    "R2": "push-before-uncount in resume_and_push / thread_yield_to callback (pool loaded before the push); yield_to pre-increment rolled back on error",
    "R3": "the pool read for the increment is not stale: no call that may write ABTI_thread::p_pool between that read and the BLOCKED store",
    "R4": "net blocked-counter effect of each post-switch callback equals its primitive's class on every path",
    "R5": "has_unit / has_to_stop termination predicates",
    "R6": "main scheduler and root loops exit conditions; a popped unit is always scheduled",
    "R7": "xstream join / finalize sequences; TERMINATED stored after the root loop",
    "R8": "check_events: REQ_JOIN -> sched_finish, REQ_CANCEL -> sched_exit",
})
VARIANTS = ["no_ext_thread", "active_wait", "tool_interface"]
Y = "src/ythread.c"
SUSPEND_CBS = ["ABTI_ythread_callback_suspend", "ABTI_ythread_callback_resume_suspend_to",
               "ABTI_ythread_callback_suspend_unlock", "ABTI_ythread_callback_suspend_join",
               "ABTI_ythread_callback_suspend_replace_sched"]
INC, DEC = "ABTI_pool_inc_num_blocked", "ABTI_pool_dec_num_blocked"


# ---- private, name-independent helpers (also used by rules/C11.py) -----------------------------

_EXPECT = ("__builtin_expect", "ABTU_likely", "ABTU_unlikely")


def _origin(F, node, depth=5, at=None):
    """(expression node, node it is evaluated at) the value of `node` comes from: a local is followed
    through its single reaching definition (plain copies, casts), whatever the local is called."""
    at = node if at is None else at
    i = F.strip(node)
    while depth > 0:
        nd = F.nodes[i]
        if nd.get("k") == "ref" and nd.get("dk") == "var":
            d = canon.reaching_def(F, nd["n"], at)
            if isinstance(d, int) and d >= 0:
                at, i, depth = d, F.strip(d), depth - 1
                continue
        break
    return i, at


def rooted(F, i, depth=4, at=None):
    """canon.rooted (access path that keeps the identity of the object, locals resolved through their single reaching
    definition) that additionally folds `(&x->f)->g` to `x->f.g` and `*&x` to `x`, so that a temporary holding the
    address of a sub-object (`ABTI_thread *p_t = &p_y->thread; p_t->p_pool`) renders like the direct access."""
    at = i if at is None else at
    i = F.strip(i)
    if i is None or i < 0:
        return ""
    nd = F.nodes[i]
    k = nd.get("k")
    if k == "mem":
        b = rooted(F, nd["b"], depth, at)
        if nd["arrow"] and b.startswith("&") and _addr_of(F, nd["b"], depth, at):
            return "%s.%s" % (b[1:], nd["f"])
        return "%s%s%s" % (b, "->" if nd["arrow"] else ".", nd["f"])
    if k == "un" and nd["op"] in ("&", "*"):
        inner = rooted(F, nd["e"], depth, at)
        if nd["op"] == "*" and inner.startswith("&") and _addr_of(F, nd["e"], depth, at):
            return inner[1:]
        return nd["op"] + inner
    if k == "idx":
        return "%s[%s]" % (rooted(F, nd["b"], depth, at), canon.expr(F, nd["i"], 1, at))
    if k == "ref":
        if nd.get("dk") == "var" and depth > 0:
            d = canon.reaching_def(F, nd["n"], at)
            if isinstance(d, int) and d >= 0:
                dn = F.nodes[F.strip(d)]
                if dn.get("k") in ("ref", "un", "idx", "mem"):
                    return rooted(F, d, depth - 1, d)
                if dn.get("k") == "call":
                    return canon.expr(F, d, 1, d)
        return nd["n"]
    return canon.expr(F, i, 1, at)


def _addr_of(F, i, depth, at):
    """is the value of expression i (after resolving locals) literally an address-of expression `&E`?"""
    nd = F.nodes[_origin(F, i, at=at)[0]]
    return nd.get("k") == "un" and nd["op"] == "&"


def _eq_operands(F, node):
    """(lhs, rhs) of the ==/!= comparison a condition atom finally tests, looking through `!`, likely(),
    `c ? TRUE : FALSE`, `(a == b) == 0` and locals that only hold the comparison (the same way
    canon.cond does, so the polarity of the canonical label applies); None if there is none."""
    i = node
    for _ in range(10):
        i = F.strip(i)
        nd = F.nodes[i]
        k = nd.get("k")
        if k == "un" and nd["op"] == "!":
            i = nd["e"]
        elif k == "call" and nd.get("fn") in _EXPECT and nd.get("a"):
            i = nd["a"][0]
        elif k == "ref" and nd.get("dk") == "var":
            d = canon.reaching_def(F, nd["n"], i)
            if not (isinstance(d, int) and d >= 0):
                return None
            i = d
        elif k == "cond":
            tv, ev = F.nodes[F.strip(nd["th"])].get("cv"), F.nodes[F.strip(nd["el"])].get("cv")
            if tv is None or ev is None or bool(tv) == bool(ev):
                return None
            i = nd["c"]
        elif k == "bin" and nd["op"] in ("==", "!="):
            for a, b in ((nd["lh"], nd["rh"]), (nd["rh"], nd["lh"])):
                if canon._is_zero(F, b) and not canon._is_const(F, a):
                    i = a
                    break
            else:
                return nd["lh"], nd["rh"]
        else:
            return None
    return None


def atomic_test(F, node, field, value):
    """'acquire' | 'relaxed' if the condition atom compares an atomic load of `field` ('Rec::name') with the
    constant `value` (directly or through a local that holds the loaded value); else None.  The truth of the
    canonical label (`load == value`) applies."""
    ops = _eq_operands(F, node)
    if not ops:
        return None
    for a, b in (ops, ops[::-1]):
        src, _at = _origin(F, a)
        an, bn = F.nodes[src], F.nodes[F.strip(b)]
        if an.get("k") == "call" and (an.get("fn") or "").startswith("ABTD_atomic_") and "_load_" in an["fn"] and an["a"]:
            fo = field_of_through(F, an["a"][0])
            if fo and "%s::%s" % fo == field and bn.get("cv") == value:
                return "acquire" if "acquire" in an["fn"] else "relaxed"
    return None


def field_of_through(F, node):
    """F.field_of, also when the address of the member is held in a local (`ABTD_atomic_int *p = &x->state`)"""
    fo = F.field_of(node)
    if fo is None:
        src, _at = _origin(F, node)
        if src != F.strip(node):
            fo = F.field_of(src)
    return fo


class Sel(seq.Sel):
    """seq.Sel that also recognises an atomic store / RMW wrapper on a selected field when the address of the field
    reaches the wrapper through a local pointer (emulates a missing engine feature; same token shape)."""

    def select(self, F, nid, ctx):
        tok = seq.Sel.select(self, F, nid, ctx)
        if tok is None and self.fields:
            nd = F.nodes[nid]
            fn = nd.get("fn") if nd.get("k") == "call" else None
            if fn and fn.startswith("ABTD_atomic_") and "_load_" not in fn and nd["a"] and F.field_of(nd["a"][0]) is None:
                fo = field_of_through(F, nd["a"][0])
                if fo and (fo[1] in self.fields or "%s::%s" % fo in self.fields):
                    val = None
                    if len(nd["a"]) > 1:
                        val = ctx.value(nd["a"][-1])
                        if val is None:
                            val = self._txt(F, nd["a"][-1])
                    return ("ast", fn, "%s::%s" % fo, val, nid)
        return tok


def descendants_through(F, node, depth=3):
    """sub-expression nodes of `node`, and of the definitions of the locals it mentions (`q = f(x); if (q != 1)`
    still shows the call f(x))"""
    out = list(F.descendants(node))
    if depth > 0:
        for d in list(out):
            dn = F.nodes[d]
            if dn.get("k") == "ref" and dn.get("dk") == "var":
                src, at = _origin(F, d, depth=1)
                if src != F.strip(d):
                    out += descendants_through(F, src, depth - 1)
    return out


def macros_through(F, node, depth=3):
    """macros whose expansion produced any part of the expression, also inside the definitions of the locals it
    mentions (`m = req & MASK; if (m != 0)` still shows MASK)"""
    out = set(seq.macros_in(F, node))
    if depth > 0:
        for d in F.descendants(node):
            dn = F.nodes[d]
            if dn.get("k") == "ref" and dn.get("dk") == "var":
                src, at = _origin(F, d, depth=1)
                if src != F.strip(d):
                    out |= macros_through(F, src, depth - 1)
    return out


def _rd_index(F, toks, mem):
    """index of the ('rd', ...) token of the load of member-access node `mem` on this path, or None"""
    for i, t in enumerate(toks):
        if t[0] == "rd" and t[2] is None and F.nodes[t[-1]].get("e") == mem:
            return i
    return None


def _pool_of(F, node):
    """(object identity, mem node) when the value of `node` is a read of some unit's ABTI_thread::p_pool (possibly
    through locals), else (rendering, None).  Identity is canon.rooted: `arg->p_prev->thread.p_pool`."""
    src, at = _origin(F, node)
    if F.nodes[src].get("k") == "mem" and F.field_of(src) == ("ABTI_thread", "p_pool"):
        return rooted(F, src), src
    return rooted(F, node), None


def _unit(F, path):
    """'prev' | 'next' | path: which unit of a post-switch callback an access path belongs to.  The callback's own
    argument (or the p_prev member of its argument struct) is the outgoing unit, p_next the resumed one."""
    p0 = F.params[0]["n"]
    if path.startswith(p0 + "->p_prev->") or path.startswith(p0 + "->thread."):
        return "prev"
    if path.startswith(p0 + "->p_next->"):
        return "next"
    return path


def _cb_cond(text, F, node):
    ops = _eq_operands(F, node)
    if ops:
        sides = sorted(_unit(F, _pool_of(F, x)[0]) for x in ops if _pool_of(F, x)[1] is not None)
        if sides == ["next", "prev"]:
            return "same-pool"          # canonical polarity: true = the two units share one pool
    return "ABTI_thread_handle_request(" in text


def _cb_sel():
    return Sel(calls={INC, DEC, "ABTI_thread_handle_request", "ABTI_pool_add_thread", "ABTI_thread_terminate"},
                   fields={"state"}, conds=_cb_cond, canon=True)


def _pool_expr(F, nid):
    """(identity of the unit whose pool is counted, how the pool value was obtained, node of the p_pool read)"""
    path, mem = _pool_of(F, F.nodes[nid]["a"][0])
    if mem is not None:
        return _unit(F, path), "read", mem
    return None, "unknown", nid


def rule_R1_R3_R4(P, rep):
    BLOCKED = P.enum_consts["ABT_THREAD_STATE_BLOCKED"]
    maywrite = P.may_write("ABTI_thread", "p_pool")
    for cb in SUSPEND_CBS:
        F = P.fn(cb, Y, flat=True)
        ps = [p for p in seq.sequences(F, _cb_sel()) if p[1] == "ret"]
        rep.need(ps, "%s: no path" % cb)
        for toks, kind, rv, rtxt in ps:
            st = [i for i, t in enumerate(toks) if t[0] == "ast" and t[2] == "ABTI_thread::state" and t[3] == BLOCKED]
            incs = idx(toks, is_call(INC))
            decs = idx(toks, is_call(DEC))
            why = []
            if len(st) != 1:
                why.append("BLOCKED stored %d times" % len(st))
            elif cb == "ABTI_ythread_callback_resume_suspend_to" and has_if(toks, "same-pool", True):
                if incs or decs:
                    why.append("same pool: the +1/-1 pair must be skipped entirely")
            else:
                if len(incs) != 1 or incs[0] > st[0]:
                    why.append("the caller is not counted as blocked before BLOCKED becomes visible (a resumer may "
                               "decrement first: negative count)")
            rep.ob("R1", "%s: blocked count incremented before BLOCKED is published [%s]" % (cb, show(toks)[:200]),
                   not why, "; ".join(why), loc="%s:%d" % (F.file, F.line), site="%s/count-before-publish/%d" % (cb, len(toks)))
        # R3: stale pool
        for bid, nid in F.calls(INC):
            base, how, readnode = _pool_expr(F, nid)
            stores = [i for b, i in F.calls() if F.nodes[i].get("fn", "").startswith("ABTD_atomic_release_store_int") and
                      field_of_through(F, F.nodes[i]["a"][0]) == ("ABTI_thread", "state")]
            bad = []
            for b2, c in F.calls():
                cn = F.nodes[c]
                G = P.resolve_call(F, cn)
                if G is None or G.key not in maywrite:
                    continue
                if cfg.can_reach(F, readnode, c) and any(cfg.can_reach(F, c, s) for s in stores):
                    chain = P.call_chain(G.key, P.direct_writers("ABTI_thread", "p_pool"))
                    bad.append("%s at %s may write ABTI_thread::p_pool (%s) after the pool was read at %s" %
                               (cn["fn"], F.loc(c), " -> ".join(chain), F.loc(readnode)))
            ok = base is not None and not bad
            rep.ob("R3", "%s increments the counter of the pool the outgoing unit belongs to when BLOCKED is published" % cb,
                   ok, "; ".join(bad) or ("pool expression not understood (%s: %s)" % (how, base)), loc=F.loc(nid),
                   site="%s/stale-pool" % cb)
    # R4 classes
    classes = {
        "ABTI_ythread_callback_suspend": ("+1 prev", None),
        "ABTI_ythread_callback_suspend_unlock": ("+1 prev", None),
        "ABTI_ythread_callback_suspend_join": ("+1 prev", None),
        "ABTI_ythread_callback_suspend_replace_sched": ("+1 prev", None),
        "ABTI_ythread_callback_resume_suspend_to": ("+1 prev, -1 next (or none if same pool)", None),
        "ABTI_ythread_callback_resume_yield_to": ("-1 next", None),
        "ABTI_ythread_callback_resume_exit_to": ("-1 next", None),
        "ABTI_ythread_callback_thread_yield_to": ("-1 pool read before the push", None),
        "ABTI_ythread_callback_exit": ("0", None),
        "ABTI_ythread_callback_orphan": ("0", None),
        "ythread_callback_yield_impl": ("0", None),
    }
    for cb, (cls, _) in sorted(classes.items()):
        F = P.fn(cb, Y, flat=True)
        for toks, kind, rv, rtxt in seq.sequences(F, _cb_sel()):
            if kind != "ret":
                continue
            incs = [toks[i] for i in idx(toks, is_call(INC))]
            decs = [toks[i] for i in idx(toks, is_call(DEC))]
            def who(t):
                # identity of the unit whose pool is counted (see _unit)
                return _unit(F, _pool_of(F, F.nodes[t[-1]]["a"][0])[0])
            got = sorted(["+1 " + who(t) for t in incs] + ["-1 " + who(t) for t in decs])
            if cls == "0":
                want = [[]]
            elif cls == "+1 prev":
                want = [["+1 prev"]]
            elif cls == "-1 next":
                want = [["-1 next"]]
            elif cls.startswith("+1 prev, -1 next"):
                want = [["+1 prev", "-1 next"], []] if not has_if(toks, "same-pool", False) else [["+1 prev", "-1 next"]]
                if has_if(toks, "same-pool", True):
                    want = [[]]
            else:
                want = [["-1 prev"]]
            rep.ob("R4", "%s path: counter effects %s (class: %s)" % (cb, got, cls), got in want,
                   "expected %s on every path" % want, loc="%s:%d" % (F.file, F.line), site="%s/net/%s" % (cb, len(toks)))
    rep.min_instances("R1", 5)
    rep.min_instances("R3", 5)
    rep.min_instances("R4", 12)


POOLF = "ABTI_thread::p_pool"


def rule_R2(P, rep):
    F = P.fn("ABTI_ythread_resume_and_push", "src/include/abti_ythread.h")
    unit = [p["n"] for p in F.params if p["t"].replace(" ", "") == "ABTI_ythread*"]
    rep.need(len(unit) == 1, "ABTI_ythread_resume_and_push: no single ABTI_ythread * parameter")
    sel = Sel(calls={"ABTI_pool_add_thread", DEC, INC}, reads={POOLF}, canon=True)
    for toks, kind, rv, rtxt in seq.sequences(F, sel):
        if kind != "ret":
            continue
        why = []
        add = idx(toks, is_call("ABTI_pool_add_thread"))
        dec = idx(toks, is_call(DEC))
        if len(add) != 1 or len(dec) != 1:
            why.append("must push once and decrement once")
        else:
            if not add[0] < dec[0]:
                why.append("blocked count decremented before the unit is pushed: size + blocked can read 0 while the unit "
                           "is in flight and the only scheduler of the pool may terminate")
            # the value handed to the decrement: which read of ABTI_thread::p_pool produced it, and when
            path, mem = _pool_of(F, F.nodes[toks[dec[0]][-1]]["a"][0])
            rd = _rd_index(F, toks, mem) if mem is not None else None
            if mem is None or path != unit[0] + "->thread.p_pool":
                why.append("decrements %s instead of the pool of the resumed unit loaded before the push" % path)
            elif rd is None or rd > add[0]:
                why.append("pool not loaded before the push (after the push another stream may re-associate the unit)")
        rep.ob("R2", "resume_and_push: READY+push, then decrement of the pre-loaded pool [%s]" % show(toks), not why,
               "; ".join(why), loc="%s:%d" % (F.file, F.line), site="resume_and_push")
    F = P.fn("ABTI_ythread_callback_thread_yield_to", Y, flat=True)
    sel = Sel(calls={"ABTI_pool_add_thread", DEC, INC, "ABTI_thread_handle_request"}, reads={POOLF},
                  conds=lambda t: "ABTI_thread_handle_request(" in t, canon=True)
    for toks, kind, rv, rtxt in seq.sequences(F, sel):
        if kind != "ret":
            continue
        why = []
        add = idx(toks, is_call("ABTI_pool_add_thread"))
        dec = idx(toks, is_call(DEC))
        hr = idx(toks, is_call("ABTI_thread_handle_request"))
        if len(dec) != 1:
            why.append("the pre-increment of ABT_thread_yield_to is undone %d times on this path" % len(dec))
        else:
            if add and add[0] > dec[0]:
                why.append("decrement before the push")
            path, mem = _pool_of(F, F.nodes[toks[dec[0]][-1]]["a"][0])
            rd = _rd_index(F, toks, mem) if mem is not None else None
            if mem is None or _unit(F, path) != "prev" or rd is None or (hr and rd > hr[0]) or (add and rd > add[0]):
                why.append("must decrement the pool loaded before request handling / push (the one that was incremented)")
        rep.ob("R2", "thread_yield_to callback path [%s]" % show(toks)[:220], not why, "; ".join(why),
               loc="%s:%d" % (F.file, F.line), site="callback_thread_yield_to/%d" % len(add))
    F = P.fn("ABT_thread_yield_to", "src/thread.c")
    sel = Sel(calls={INC, DEC, "ABTI_pool_remove", "ABTI_ythread_thread_yield_to"},
                  conds=lambda t: "ABTI_pool_remove(" in t, canon=True)
    n = 0
    for toks, kind, rv, rtxt in seq.sequences(F, sel):
        rm = idx(toks, is_call("ABTI_pool_remove"))
        if kind != "ret" or not rm:
            continue
        n += 1
        inc = idx(toks, is_call(INC))
        dec = idx(toks, is_call(DEC))
        sw = idx(toks, is_call("ABTI_ythread_thread_yield_to"))
        why = []
        if len(inc) != 1 or inc[0] > rm[0]:
            why.append("caller's pool not counted before the target is removed from its pool")
        if sw:
            if dec:
                why.append("pre-increment undone although the switch happens (the callback undoes it)")
            if rv != 0:
                why.append("returns %s after switching" % rv)
        else:
            if len(dec) != 1:
                why.append("error path leaves the pre-increment in place")
            elif inc and rooted(F, F.nodes[toks[inc[0]][-1]]["a"][0]) != rooted(F, F.nodes[toks[dec[0]][-1]]["a"][0]):
                why.append("rolls back a different pool")
        rep.ob("R2", "ABT_thread_yield_to path -> %s [%s]" % (rv if rv is not None else rtxt, show(toks)[:200]), not why,
               "; ".join(why), loc="%s:%d" % (F.file, F.line), site="ABT_thread_yield_to/%s" % ("switch" if sw else "error"))
    rep.need(n >= 2, "ABT_thread_yield_to: %d paths through pool_remove" % n)
    rep.min_instances("R2", 5)


def _all_cond_labels(F):
    """canonical labels of every branch condition of F (name- and polarity-independent)"""
    out = []
    for bid, B in F.blocks.items():
        if B.tc is not None:
            aj, _t = cfg.cond_atom(F, B.tc, True)
            out.append(canon.cond(F, aj)[0])
    return out


def _hu_cond(t):
    """has_unit: the rule's own labels for the canonical conditions (truth = the expression is non-zero / holds)"""
    if t.endswith(" < ABTI_sched::num_pools"):
        return "more-pools"
    if "ABTI_pool_is_empty(" in t:
        e = t[:-5] if t.endswith(") == 1") else t          # `== ABT_TRUE`
        return "empty" if e.startswith("ABTI_pool_is_empty(") and " == " not in e and " < " not in e else "empty:" + t
    if "ABTI_pool::num_blocked" in t:
        x = t[4:] if t.startswith("0 < ") else t            # `> 0`
        return "blocked" if x.startswith("ABTD_atomic_") and x.endswith("&ABTI_pool::num_blocked)") else "blocked:" + t
    if "ABTI_pool::num_scheds" in t:
        return "sole-sched" if t.endswith("&ABTI_pool::num_scheds) == 1") else "scheds:" + t
    return None


def _hs_cond(t):
    """has_to_stop: every condition is kept; short labels for the instances"""
    if t.startswith("ABTI_sched_has_unit(") and t.endswith(")") and " == " not in t:
        return "has_unit"
    if "ABTI_sched_has_unit(" in t:
        return "has_unit?" + t
    m = re.match(r"^ABTD_atomic_(\w+)_load_uint32\(&ABTI_sched::request\) & (\d+)$", t)
    if m:
        return "request&%s" % m.group(2)
    return t


def rule_R5(P, rep):
    F = P.fn("ABTI_sched_has_unit", "src/sched/sched.c")
    sel = Sel(calls={"ABTI_pool_is_empty"}, rets=True, conds=_hu_cond, canon=True)
    ps = seq.sequences(F, sel, max_repeat=2, max_len=60)
    n_false = 0
    for toks, kind, rv, rtxt in ps:
        if kind != "ret":
            continue
        why = []
        if rv == 0:
            n_false += 1
            loop = [t for t in toks if t[0] == "if" and t[1] == "more-pools"]
            if not loop or loop[-1][2] is not False:
                why.append("returns FALSE before all pools were inspected")
        else:
            # TRUE must be justified by the immediately preceding test: non-empty pool or non-zero blocked count
            conds = [t for t in toks if t[0] == "if" and t[1] != "more-pools"]
            last = conds[-1] if conds else None
            ok = last is not None and ((last[1] == "empty" and last[2] is False) or
                                       (last[1] == "blocked" and last[2] is True))
            if not ok:
                why.append("returns TRUE after %s=%s" % (last[1] if last else None, last[2] if last else None))
        rep.ob("R5", "has_unit path -> %s [%s]" % (rv, show([t for t in toks if t[0] != "call"])), not why, "; ".join(why),
               loc="%s:%d" % (F.file, F.line), site="has_unit/%s/%d" % (rv, len(toks)))
    rep.need(n_false >= 1, "has_unit never returns FALSE")
    # which access modes are told apart: `case` labels of a switch, or enumerators ABTI_pool::access is compared with
    accs = set()
    for bid, b in F.blocks.items():
        if b.casename:
            accs.add(b.casename)
    for lab in _all_cond_labels(F):
        m = re.match(r"^ABTI_pool::access == (ABT_POOL_ACCESS_\w+)$", lab)
        if m:
            accs.add(m.group(1))
    rep.ob("R5", "has_unit distinguishes all five access modes", accs >= {
        "ABT_POOL_ACCESS_PRIV", "ABT_POOL_ACCESS_SPSC", "ABT_POOL_ACCESS_MPSC", "ABT_POOL_ACCESS_SPMC",
        "ABT_POOL_ACCESS_MPMC"}, str(sorted(accs)), loc=F.file, site="has_unit/access-modes")
    loads = [F.nodes[i] for b, i in F.calls() if F.nodes[i]["a"] and (field_of_through(F, F.nodes[i]["a"][0]) or ("", ""))[1] in ("num_blocked", "num_scheds")]
    rep.ob("R5", "has_unit reads num_blocked / num_scheds with acquire loads", bool(loads) and all("acquire_load" in nd["fn"] for nd in loads),
           str([nd["fn"] for nd in loads]), loc=F.file, site="has_unit/acquire")
    G = P.fn("ABTI_sched_has_to_stop", "src/sched/sched.c")
    sel = Sel(calls={"ABTI_sched_has_unit"}, conds=_hs_cond, rets=True, canon=True)
    for toks, kind, rv, rtxt in seq.sequences(G, sel):
        if kind != "ret":
            continue
        why = []
        hu = [t for t in toks if t[0] == "if" and t[1].startswith("has_unit")]
        if any(t[1] != "has_unit" for t in hu):
            why.append("unrecognised test %s" % [t[1] for t in hu if t[1] != "has_unit"][0])
        if rv == 1:
            exit_req = any(t[0] == "if" and t[1].startswith("request&") and t[2] and not hu for t in toks[:2])
            if not exit_req:
                if not hu or any(t[2] for t in hu):
                    why.append("TRUE although has_unit was not observed false")
                fin = [t for t in toks if t[0] == "if" and t[1].startswith("request&")]
                if len(fin) >= 2 and fin[-1][2] and len(hu) < 2:
                    why.append("finish/replace arm must re-check has_unit after reading the request")
        rep.ob("R5", "has_to_stop path -> %s [%s]" % (rv, show(toks)[:220]), not why, "; ".join(why),
               loc="%s:%d" % (G.file, G.line), site="has_to_stop/%s/%d" % (rv, len(toks)))
    rep.min_instances("R5", 10)


def _ms_cond(t):
    """thread_main_sched_func: tests of the scheduler's request word, of the scheduler ULT's request word, has_unit"""
    if t.startswith("ABTI_sched_has_unit(") and t.endswith(")") and " == " not in t:
        return "has_unit"
    m = re.match(r"^ABTD_atomic_\w+_load_uint32\(&([\w:.]*?)request\) & (\d+)$", t)
    if m:
        return "%s.request&%s" % ("sched" if m.group(1) == "ABTI_sched::" else "thread", m.group(2))
    if "ABTI_sched_has_unit(" in t or "request" in t:
        return "?" + t
    return None


def rule_R6(P, rep):
    F = P.fn("thread_main_sched_func", "src/thread.c")
    sel = Sel(calls={"ABTI_sched_has_unit", "ABTI_ythread_resume_and_push", "ABTI_sched_discard_and_free"},
                  indirect=True, conds=_ms_cond, fields={"p_main_sched"}, canon=True)
    ps = seq.sequences(F, sel, max_repeat=1, max_len=60)
    n = 0
    for toks, kind, rv, rtxt in ps:
        if kind != "ret":
            continue
        n += 1
        why = []
        runs = [t for t in toks if t[0] == "icall"]
        if not runs or runs[0][1] != "ABTI_sched::run":
            why.append("does not call the scheduler's run function")
        conds = [t for t in toks if t[0] == "if"]
        last = conds[-1] if conds else None
        if last is None:
            why.append("leaves the loop unconditionally")
        elif last[1] == "has_unit":
            if last[2] is not False:
                why.append("leaves the loop although has_unit is true")
            fin = [t for t in conds[:-1] if t[1].startswith("sched.request&")]
            if not fin or fin[-1][2] is not True:
                why.append("leaves on !has_unit without a finish request")
        elif not (last[2] is True and (last[1].startswith("sched.request&") or last[1].startswith("thread.request&"))):
            why.append("leaves the loop on %s=%s" % (last[1], last[2]))
        rep.ob("R6", "main scheduler loop exit [%s]" % show(toks)[-220:], not why, "; ".join(why),
               loc="%s:%d" % (F.file, F.line), site="main_sched_loop/%s" % (last[1][:40] if last else "none"))
    rep.need(n >= 2, "thread_main_sched_func: %d exits" % n)
    R = P.fn("thread_root_func", "src/thread.c")
    TERM = P.enum_consts["ABT_THREAD_STATE_TERMINATED"]
    XT = P.enum_consts["ABT_XSTREAM_STATE_TERMINATED"]

    def conds(text, F, node):
        order = atomic_test(F, node, "ABTI_thread::state", TERM)
        if order:
            return "mainsched.TERMINATED/%s" % order      # canonical polarity: true = the state equals TERMINATED
        ops = _eq_operands(F, node)
        if ops:
            for a, b in (ops, ops[::-1]):
                src, _at = _origin(F, a)
                if F.nodes[src].get("k") == "call" and F.nodes[src].get("fn") == "ABTI_pool_pop" and canon._is_const(F, b):
                    return ("popped", True)               # label `pop() == ABT_THREAD_NULL` flipped: true = a unit was popped
        return False
    sel = Sel(calls={"ABTI_pool_pop", "ABTI_ythread_schedule", "ABTI_ythread_exit_to_primary"}, fields={"state"}, conds=conds,
                  canon=True)
    for toks, kind, rv, rtxt in seq.sequences(R, sel, max_repeat=1, max_len=40):
        st = [i for i, t in enumerate(toks) if t[0] == "ast" and t[2] == "ABTI_xstream::state"]
        if not st:
            continue
        why = []
        loops = [t for t in toks if t[0] == "if" and t[1].startswith("mainsched.TERMINATED")]
        if not loops or loops[-1][2] is not True or not loops[-1][1].endswith("/acquire"):
            why.append("root loop left without an acquire observation that the main scheduler's ULT terminated")
        if toks[st[0]][3] != XT or "release" not in toks[st[0]][1]:
            why.append("stream state not release-stored TERMINATED")
        pops = idx(toks, is_call("ABTI_pool_pop"))
        sch = idx(toks, is_call("ABTI_ythread_schedule"))
        for p_i in pops:
            got = [t for t in toks[p_i:] if t[0] == "if" and t[1] == "popped"]
            if got and got[0][2] and not [s for s in sch if s > p_i]:
                why.append("popped unit not scheduled")
        rep.ob("R6", "root loop exit and TERMINATED publication [%s]" % show(toks)[:220], not why, "; ".join(why),
               loc="%s:%d" % (R.file, R.line), site="root_loop/%d" % len(sch))
    rep.min_instances("R6", 3)


def rule_R7_R8(P, rep):
    F = P.fn("xstream_join", "src/stream.c")
    xs = [p["n"] for p in F.params if p["t"].replace(" ", "") == "ABTI_xstream*"]
    rep.need(len(xs) == 1, "xstream_join: no single ABTI_xstream * parameter")
    sel = Sel(calls={"ABTI_sched_finish", "ABTI_thread_join", "ABTD_xstream_context_join", "ABTI_sched_exit"})
    n = 0
    for toks, kind, rv, rtxt in seq.sequences(F, sel):
        if kind != "ret" or rv != 0:
            continue
        calls = [t[1] for t in toks if t[0] == "call"]
        if "ABTD_xstream_context_join" not in calls and "ABTI_thread_join" not in calls:
            continue
        n += 1
        want = ["ABTI_sched_finish", "ABTI_thread_join", "ABTD_xstream_context_join"]
        pos = [calls.index(c) if c in calls else -1 for c in want]
        ok = all(p >= 0 for p in pos) and pos == sorted(pos)
        tj = [t for t in toks if t[0] == "call" and t[1] == "ABTI_thread_join"]
        # the unit joined is the ULT of the stream's main scheduler (whatever temporaries hold the pointers)
        if ok and rooted(F, F.nodes[tj[0][-1]]["a"][1]) != "&%s->p_main_sched->p_ythread->thread" % xs[0]:
            ok = False
        rep.ob("R7", "xstream_join: finish request -> join main scheduler ULT -> join native thread [%s]" % calls, ok, "",
               loc="%s:%d" % (F.file, F.line), site="xstream_join/sequence")
    rep.need(n >= 1, "xstream_join: no joining path")
    G = P.fn("finailze_library", "src/global.c", required=False) or P.fn("finalize_library", "src/global.c")
    sel = Sel(calls={"ABTI_sched_finish", "ABTI_ythread_yield_orphan", "ABTI_xstream_free", "ABTI_ythread_free_primary",
                         "ABTI_sched_exit"})
    n = 0
    for toks, kind, rv, rtxt in seq.sequences(G, sel, max_len=80):
        calls = [t[1] for t in toks if t[0] == "call"]
        if kind != "ret" or "ABTI_xstream_free" not in calls:
            continue
        n += 1
        ok = "ABTI_sched_finish" in calls and "ABTI_ythread_yield_orphan" in calls and \
            calls.index("ABTI_sched_finish") < calls.index("ABTI_ythread_yield_orphan") < calls.index("ABTI_xstream_free")
        rep.ob("R7", "finalize: finish request -> yield to the root (runs remaining units) -> free [%s]" % calls, ok, "",
               loc="%s:%d" % (G.file, G.line), site="finalize/sequence")
    rep.need(n >= 1, "finalize: no freeing path")
    E = P.fn("ABTI_xstream_check_events", "src/stream.c")

    def conds(text, F, node):
        # the request bit tested: the macro that produced the mask, wherever the test was computed
        ms = macros_through(F, node)
        if "ABTI_THREAD_REQ_JOIN" in ms:
            return "REQ_JOIN"
        if "ABTI_THREAD_REQ_CANCEL" in ms:
            return "REQ_CANCEL"
        return False
    sel = Sel(calls={"ABTI_sched_finish", "ABTI_sched_exit"}, conds=conds, canon=True)
    for toks, kind, rv, rtxt in seq.sequences(E, sel):
        if kind != "ret":
            continue
        j = [t for t in toks if t[0] == "if" and t[1] == "REQ_JOIN"]
        c = [t for t in toks if t[0] == "if" and t[1] == "REQ_CANCEL"]
        calls = [t[1] for t in toks if t[0] == "call"]
        ok = len(j) == 1 and len(c) == 1 and (("ABTI_sched_finish" in calls) == j[0][2]) and (("ABTI_sched_exit" in calls) == c[0][2])
        rep.ob("R8", "check_events: JOIN=%s CANCEL=%s -> %s" % (j[0][2] if j else "?", c[0][2] if c else "?", calls), ok, show(toks),
               loc="%s:%d" % (E.file, E.line), site="check_events/%s" % calls)
    rep.min_instances("R8", 4)


def run(P, rep, tier):
    common.rule_X9(P, rep, fields=[('ABTI_pool', 'num_blocked'), ('ABTI_pool', 'num_scheds'), ('ABTI_sched', 'request')])
    common.rule_X8(P, rep)
    common.rule_X7(P, rep, records=('ABTI_sched', 'ABTI_pool'))
    common.rule_X4(P, rep)
    common.rule_widths(P, rep, [('ABTI_pool', 'num_blocked'), ('ABTI_pool', 'num_scheds')])
    common.run_shared(P, rep, which=("X1",))
    rule_R1_R3_R4(P, rep)
    rule_R2(P, rep)
    rule_R5(P, rep)
    rule_R6(P, rep)
    rule_R7_R8(P, rep)
    c06_refs.rule_R9(P, rep)
    from . import C07
    common.borrow(rep, P, C07.rule_R2, "R10")
