import re
"""C02 -- a ULT never runs on two streams at once; its context survives every
switch (structural part: assembly save/restore discipline + publication order)."""
from abtverif import canon, asmcheck, seq, cfg
from abtverif.asmcheck import CALLEE_SAVED
from abtverif.seq import idx, is_call, show
from . import common
from .C06 import Sel, rooted, descendants_through

EXPLANATION = (
    "Assembly (A1-A5, abstract interpretation of the x86-64 ELF routine the build compiles): every routine that "
    "stores RSP into the old context has, at that store, a frame holding the entry values of rbx, rbp, r12-r15 "
    "exactly once, the return address and (PRESERVE_FPU) MXCSR and the x87 control word; all saving routines use the "
    "same layout; every resume sequence pops each slot into the register it was saved from, reloads MXCSR/x87 CW "
    "from the saved slots and jumps to the saved return address with the frame fully consumed; in the *_with_call "
    "routines the callback is called after RSP was stored into the old context and on the new stack, with cb_arg in "
    "rdi; stack tops are aligned with `andq $-16` before use, RSP is 0 mod 16 at the callback call and 8 mod 16 at "
    "the jump into the ULT entry, which receives p_new_ctx in rdi.  C level: the eight context wrappers pass "
    "new/old contexts to the parameters of the same role (R1); functions used as post-switch callbacks are only ever "
    "passed to *_with_call primitives, and the pre-switch wrappers do not publish the outgoing ULT (push, state "
    "store, p_link store, lock release) before switching (R2); the suspend callbacks release-store BLOCKED before "
    "releasing the lock / publishing the link / requesting scheduler replacement and do not read the argument "
    "struct after that store (R3); the *_internal helpers set the stream's running identity before switching and "
    "re-read the local stream afterwards (R4); every primitive release-stores RUNNING into the target before "
    "switching to it (R5); contexts start un-started with a NULL link and the dispatchers choose the start_and_* "
    "variant iff the context is not started (R6).  Preservation of stack contents and disjointness of stacks are "
    "value properties and are not decided; only the built x86-64 assembly file is analysed.")
DECLINED = ["'stack contents exactly as it left them' and 'a stack no other live ULT shares' (value properties, see C15)",
            "architectures other than the x86-64 System V ELF file that the build compiles"]
ASSUMPTIONS = ["System V x86-64 calling convention", "assembler/linker preserve instruction order"]
RULES_DOC = dict(common.SHARED_DOC)
RULES_DOC["R13"] = "the stack region a ULT reports is the region it runs on: every value ABT_thread_get_attr stores into the attribute's p_stack is NULL or <saved stack top> - <saved stack size> of the same context, with nothing applied to either (the inverse of how creation derives the stack top from a user-supplied base); an application that recycles a queried stack must not be handed bytes of a neighbouring live ULT's stack"
RULES_DOC["R7"] = "= C03.R1: a join (and so a free of the descriptor and stack) returns only after it observed TERMINATED, i.e. after the target left its stack for good"
RULES_DOC["R8"] = "= C12.R3: a unit that is suspending is not terminated (and freed) inside its suspend callback while its context is still linked for resumption"
RULES_DOC["R12"] = "= C15.R7: when a local stack pool overflows, the buckets it keeps move to the lower slots and the returned ones are forgotten: a bucket that is both in the global pool and still referenced locally hands the same stack to two live ULTs"
RULES_DOC["R11"] = "= C12.R4: a revived ULT's saved context is re-initialised BEFORE the unit is pushed: afterwards another stream may already have run it and saved a live context that the re-initialisation would wipe (the ULT restarts from the top of its stack)"
RULES_DOC["R10"] = "= C11.R10: the in/out stream pointer of a blocking helper stays current: no stale copy of *pp_local is used after a call that may resume the caller on another stream, and such a call is not handed the address of a throw-away copy"
RULES_DOC["R9"] = "= C11.R6: after a switch that may resume the caller on another stream, the caller's stream pointer is re-read before it is used or returned (a ULT never saves its context into another ULT's descriptor)"
RULES_DOC.update({
    "A1": "asm: complete frame (6 callee-saved regs, return address, FPU control) at the store of RSP into the old context; same layout in all savers",
    "A2": "asm: every resume sequence restores each register from its own slot, reloads FPU control, consumes the whole frame and jumps to the saved return address",
    "A3": "asm: the post-switch callback is called after RSP was saved, on the new stack, with cb_arg in rdi",
    "A4": "asm: stack tops aligned by andq $-16; RSP = 0 mod 16 at callback calls and saved contexts, 8 mod 16 at the jump to the ULT entry",
    "A5": "asm: f_thread receives p_new_ctx in rdi; values needed after the callback live in callee-saved registers; peek restores RSP and r12",
    "R1": "context wrappers bind new/old contexts, callback and argument to the prototype parameters of the same role",
    "R2": "post-switch callbacks are only passed to *_with_call primitives; pre-switch wrappers do not publish the outgoing ULT",
    "R3": "suspend callbacks: release-store BLOCKED precedes lock release / p_link / REQ_REPLACE; the argument struct is not read afterwards",
    "R4": "*_internal helpers set p_local_xstream->p_thread and p_last_xstream before the switch and re-read the local stream after it",
    "R5": "every primitive release-stores RUNNING into the target before switching to it",
    "R6": "context init/reinit null the saved context and p_link; dispatchers pick start_and_* iff not started; revive re-initialises",
})
VARIANTS = ["active_wait", "no_ext_thread", "lazy_stack", "no_mem_pool"]
TECHNIQUE = ("abstract interpretation of the context-switch assembly (symbolic registers, stack slots, RSP residue) "
             "plus path/sequence rules over clang CFG facts")

SAVERS = ["switch_fcontext", "init_and_switch_fcontext", "switch_with_call_fcontext",
          "init_and_switch_with_call_fcontext"]
RESUMERS = ["switch_fcontext", "jump_fcontext", "switch_with_call_fcontext", "jump_with_call_fcontext"]
WITH_CALL = ["switch_with_call_fcontext", "jump_with_call_fcontext", "init_and_switch_with_call_fcontext",
             "init_and_jump_with_call_fcontext"]
INITS = ["init_and_switch_fcontext", "init_and_jump_fcontext", "init_and_switch_with_call_fcontext",
         "init_and_jump_with_call_fcontext"]
ALL = sorted(set(SAVERS + RESUMERS + WITH_CALL + INITS + ["peek_fcontext"]))


def _fpu_enabled(P):
    return "stmxcsr" in (P.asm_text or "")


def rules_asm(P, rep):
    rep.need(P.asm_text is not None, "no assembly unit in the compile database")
    loc0 = P.asm_path
    R = asmcheck.split_routines(P.asm_text)
    for n in ALL:
        rep.need(n in R, "assembly routine %s not found in %s" % (n, P.asm_path))
        rep.need(n in P.protos, "no C prototype for %s" % n)
    params = {n: [p["n"] for p in P.protos[n]["params"]] for n in ALL}
    fpu = _fpu_enabled(P)
    # pass 1: savers establish the frame layout
    layouts = {}
    states = {}
    for n in SAVERS:
        try:
            st = asmcheck.interpret(n, R[n], params[n])
        except asmcheck.AsmError as e:
            rep.ob("A1", "%s is analysable" % n, False, str(e), loc=loc0, site=n + "/analysable")
            continue
        states[n] = st
        stores = [e for e in st.events if e[0] == "store-rsp"]
        why = []
        if len(stores) != 1:
            why.append("%d stores of RSP" % len(stores))
        else:
            _k, target, off, base, rsp_off, frame, mod = stores[0]
            if target != "arg:p_old_ctx" or off != 0:
                why.append("RSP stored to %s+%d instead of p_old_ctx+0" % (target, off))
            if base != "OLD":
                why.append("RSP stored while on stack %s" % base)
            rel = {o - rsp_off: v for o, v in frame.items()}
            layout = {}
            for o, v in sorted(rel.items()):
                if v.startswith("in:"):
                    layout[o] = v[3:]
                elif v in ("retaddr", "mxcsr", "x87cw"):
                    layout[o] = v
                elif o >= 0:
                    why.append("slot %d holds %s" % (o, v))
            regs = sorted(v for v in layout.values() if v in CALLEE_SAVED)
            if regs != sorted(CALLEE_SAVED):
                why.append("saved callee-saved registers %s, expected each of %s once" % (regs, CALLEE_SAVED))
            if "retaddr" not in layout.values():
                why.append("return address not part of the frame")
            elif max(layout) != [o for o, v in layout.items() if v == "retaddr"][0]:
                why.append("return address is not the top slot")
            if fpu and not ({"mxcsr", "x87cw"} <= set(layout.values())):
                why.append("FPU control state not saved although ABTD_FCONTEXT_PRESERVE_FPU is set")
            if any(o < 0 for o in rel):
                why.append("data saved below the stored RSP")
            layouts[n] = layout
            rep.ob("A4", "%s: the saved context (RSP stored into p_old_ctx) is 16-byte aligned" % n, mod == 0,
                   "RSP mod 16 = %s" % mod, loc=loc0, site=n + "/saved-alignment")
        rep.ob("A1", "%s: complete frame at the store of RSP into the old context: %s" %
               (n, sorted(layouts.get(n, {}).items())), not why, "; ".join(why), loc=loc0, site=n + "/frame")
    ref = layouts.get("switch_fcontext")
    rep.need(ref is not None, "no reference frame layout")
    for n in SAVERS:
        if n in layouts:
            rep.ob("A1", "%s uses the same frame layout as switch_fcontext" % n, layouts[n] == ref,
                   "%s vs %s" % (sorted(layouts[n].items()), sorted(ref.items())), loc=loc0, site=n + "/layout-agrees")
    frame_size = max(ref) + 8
    # pass 2: resumers
    for n in RESUMERS:
        try:
            st = asmcheck.interpret(n, R[n], params[n], saved_layout=ref)
        except asmcheck.AsmError as e:
            rep.ob("A2", "%s is analysable" % n, False, str(e), loc=loc0, site=n + "/analysable")
            continue
        states[n + "#resume"] = st
        why = []
        loads = [e for e in st.events if e[0] == "load-rsp"]
        if len(loads) != 1 or loads[0][1] != "arg:p_new_ctx" or loads[0][2] != 0:
            why.append("RSP not loaded from p_new_ctx+0 exactly once (%s)" % loads)
        jm = [e for e in st.events if e[0] == "jmp"]
        if len(jm) != 1:
            why.append("%d jumps" % len(jm))
        else:
            _k, tgt, regs, base, off, mod = jm[0]
            if tgt != "saved:retaddr":
                why.append("jumps to %s instead of the saved return address" % tgt)
            for r in CALLEE_SAVED:
                if regs[r] != "saved:" + r:
                    why.append("%s restored from the slot of %s" % (r, regs[r]))
            if not base.startswith("CTX:arg:p_new_ctx") or off != frame_size:
                why.append("frame not fully consumed at the jump (rsp = %s%+d, frame %d bytes)" % (base, off, frame_size))
        if fpu:
            fl = {e[1]: e[4] for e in st.events if e[0] == "fpu-load"}
            if fl.get("ldmxcsr") != "saved:mxcsr" or fl.get("fldcw") != "saved:x87cw":
                why.append("FPU control not reloaded from its saved slots (%s)" % fl)
        rep.ob("A2", "%s: resume sequence is the inverse of the save layout" % n, not why, "; ".join(why), loc=loc0,
               site=n + "/restore")
    # A3 / A4 / A5
    for n in WITH_CALL:
        key = n + "#resume" if n + "#resume" in states else n
        st = states.get(key)
        if st is None:
            try:
                st = asmcheck.interpret(n, R[n], params[n], saved_layout=ref)
            except asmcheck.AsmError as e:
                rep.ob("A3", "%s is analysable" % n, False, str(e), loc=loc0, site=n + "/analysable")
                continue
            states[n] = st
        ev = st.events
        calls = [i for i, e in enumerate(ev) if e[0] == "call"]
        why = []
        if len(calls) != 1:
            why.append("%d calls" % len(calls))
        else:
            c = ev[calls[0]]
            if c[1] != "arg:f_cb":
                why.append("calls %s instead of f_cb" % c[1])
            if c[2] != "arg:cb_arg":
                why.append("rdi holds %s at the callback, not cb_arg" % c[2])
            if c[3] == "OLD":
                why.append("callback runs on the OLD stack (the outgoing ULT could be resumed while its stack is in use)")
            if "switch" in n:
                sv = [i for i, e in enumerate(ev) if e[0] == "store-rsp"]
                if not sv or sv[0] > calls[0]:
                    why.append("callback called before RSP was stored into the old context")
            rep.ob("A4", "%s: RSP is 16-byte aligned at the callback call" % n, c[5] == 0, "RSP mod 16 = %s" % c[5],
                   loc=loc0, site=n + "/call-alignment")
        rep.ob("A3", "%s: callback after the save, on the new stack, with cb_arg" % n, not why, "; ".join(why),
               loc=loc0, site=n + "/callback")
    for n in INITS:
        st = states.get(n)
        if st is None:
            try:
                st = asmcheck.interpret(n, R[n], params[n], saved_layout=ref)
            except asmcheck.AsmError as e:
                rep.ob("A4", "%s is analysable" % n, False, str(e), loc=loc0, site=n + "/analysable")
                continue
        jm = [e for e in st.events if e[0] == "jmp"]
        why4, why5 = [], []
        rs = [e for e in st.events if e[0] == "rsp<-"]
        if not rs or rs[0][1] != "align16(arg:p_stacktop)":
            why4.append("RSP set from %s, not from the aligned stack top" % (rs[0][1] if rs else None))
        if len(jm) != 1:
            why5.append("%d jumps" % len(jm))
        else:
            _k, tgt, regs, base, off, mod = jm[0]
            if mod != 8:
                why4.append("RSP mod 16 = %s at the jump to the ULT entry (must be 8, as after a call)" % mod)
            if tgt != "arg:f_thread":
                why5.append("jumps to %s instead of f_thread" % tgt)
            if regs["rdi"] != "arg:p_new_ctx":
                why5.append("rdi holds %s at the ULT entry, not p_new_ctx" % regs["rdi"])
            if not base.startswith("TOP:"):
                why5.append("ULT entry on stack %s" % base)
        rep.ob("A4", "%s: stack top aligned, RSP = 8 mod 16 at the entry jump" % n, not why4, "; ".join(why4), loc=loc0,
               site=n + "/entry-alignment")
        rep.ob("A5", "%s: f_thread(p_new_ctx) entered on the new stack" % n, not why5, "; ".join(why5), loc=loc0,
               site=n + "/entry-args")
    # peek
    try:
        st = asmcheck.interpret("peek_fcontext", R["peek_fcontext"], params["peek_fcontext"], saved_layout=ref)
        why = []
        calls = [e for e in st.events if e[0] == "call"]
        rets = [e for e in st.events if e[0] == "ret"]
        if len(calls) != 1 or calls[0][1] != "arg:f_peek" or calls[0][2] != "arg:arg" or not calls[0][3].startswith("CTX:arg:p_target_ctx"):
            why.append("peek callback not called as f_peek(arg) on the target's stack: %s" % calls)
        if len(rets) != 1 or rets[0][1] != "retaddr" or rets[0][2]["r12"] != "in:r12" or rets[0][3] != "OLD" or rets[0][4] != 0:
            why.append("does not return on the original stack with r12 restored: %s" % [(r[1], r[2]["r12"], r[3], r[4]) for r in rets])
        rep.ob("A5", "peek_fcontext runs f_peek(arg) on the target stack and restores RSP and r12", not why, "; ".join(why),
               loc=loc0, site="peek_fcontext")
    except asmcheck.AsmError as e:
        rep.ob("A5", "peek_fcontext is analysable", False, str(e), loc=loc0, site="peek_fcontext/analysable")
    rep.min_instances("A1", 8)
    rep.min_instances("A2", 4)
    rep.min_instances("A3", 4)
    rep.min_instances("A4", 12)
    rep.min_instances("A5", 5)


# ------------------------------------------------------------------ C level

FH = "src/include/abtd_fcontext.h"
YH = "src/include/abti_ythread.h"
WRAPPERS = {
    "ABTD_ythread_context_switch": "switch_fcontext",
    "ABTD_ythread_context_start_and_switch": "init_and_switch_fcontext",
    "ABTD_ythread_context_jump": "jump_fcontext",
    "ABTD_ythread_context_start_and_jump": "init_and_jump_fcontext",
    "ABTD_ythread_context_switch_with_call": "switch_with_call_fcontext",
    "ABTD_ythread_context_start_and_switch_with_call": "init_and_switch_with_call_fcontext",
    "ABTD_ythread_context_jump_with_call": "jump_with_call_fcontext",
    "ABTD_ythread_context_start_and_jump_with_call": "init_and_jump_with_call_fcontext",
}
YT = "ABTI_ythread*"


def _ty(p):
    return p["t"].replace(" ", "")


def _under(path, root):
    """does access path `path` (canon.rooted) denote `root` or something inside the object `root` points to?"""
    q = path.lstrip("&*")
    return q == root or q.startswith(root + "->") or q.startswith(root + ".")


def _wrapper_roles(F):
    """expected argument (access path rooted at the wrapper's own parameters, see canon.rooted) for every parameter
    role of the assembly prototypes.  The wrapper's ABTD_ythread_context * parameters are (old, new) when there are
    two and (new) when there is one; its function-pointer parameter is the callback and its void * parameter the
    callback argument: parameters are identified by type and position, not by name."""
    cx = [q["n"] for q in F.params if _ty(q) in ("ABTD_ythread_context*", "constABTD_ythread_context*")]
    fp = [q["n"] for q in F.params if "(*)" in q["t"]]
    vp = [q["n"] for q in F.params if _ty(q) == "void*"]
    if len(cx) not in (1, 2) or len(fp) > 1 or len(vp) > 1:
        return None
    new, old = cx[-1], (cx[0] if len(cx) == 2 else None)
    return {"p_new_ctx": "&%s->ctx" % new, "p_old_ctx": ("&%s->ctx" % old) if old else None,
            "f_cb": fp[0] if fp else None, "cb_arg": vp[0] if vp else None,
            "f_thread": "ABTD_ythread_context_func_wrapper", "p_stacktop": "%s->p_stacktop" % new}


def rule_R1(P, rep):
    for w, prim in sorted(WRAPPERS.items()):
        F = P.fn(w, FH)
        cs = F.calls(prim)
        ok = len(cs) == 1
        why = "calls %s %d times" % (prim, len(cs))
        if ok:
            nd = F.nodes[cs[0][1]]
            proto = [p["n"] for p in P.protos[prim]["params"]]
            role = _wrapper_roles(F)
            rep.need(role is not None, "%s: parameters of the wrapper not understood" % w)
            got = [rooted(F, a) for a in nd["a"]]
            bad = [(pn, g) for pn, g in zip(proto, got) if role.get(pn) != g]
            ok = not bad and len(proto) == len(got)
            why = "parameter/argument mismatches: %s" % bad
        rep.ob("R1", "%s -> %s binds every argument to the parameter of its role" % (w, prim), ok, why,
               loc="%s:%d" % (F.file, F.line), site=w)
    # the entry wrapper recovers the context from the fcontext pointer with the inverse offset
    F = P.fn("ABTDI_ythread_context_get_context", FH)
    rec = P.record("ABTD_ythread_context")
    off = [f["off"] for f in rec["fields"] if f["n"] == "ctx"][0]
    rep.ob("R1", "ABTD_ythread_context::ctx is at offset 0 (assembly stores RSP at the start of the pointer it is given)",
           off == 0, "offset %d" % off, loc=FH, site="layout/ctx-offset")
    y = P.record("ABTI_ythread")
    rep.ob("R1", "ABTI_ythread::thread is at offset 0", [f["off"] for f in y["fields"] if f["n"] == "thread"][0] == 0, "",
           loc="src/include/abti.h", site="layout/thread-offset")
    rep.min_instances("R1", 10)


def _callbacks(P):
    """Functions passed as the f_cb argument of any *_internal / *_with_call primitive."""
    cbs = {}
    for F in P.functions.values():
        for nd in F.nodes:
            if not nd or nd.get("k") != "call" or not nd.get("fn"):
                continue
            G = P.resolve_call(F, nd)
            if G is None:
                continue
            for p, a in zip(G.params, nd["a"]):
                if p["n"] == "f_cb":
                    # a function designator, or a local that only ever holds designators
                    for name in F.func_values(a) or ():
                        cbs.setdefault(name, set()).add(F.key)
    return cbs


def _flows_only_to_f_cb(P, F, i):
    """Reference i (a function designator) initialises / is assigned to a local whose every
    read is an argument bound to a parameter named f_cb."""
    pm = F.parent_map()
    p = pm.get(i)
    while p is not None and F.nodes[p].get("k") in ("cast", "load", "cond"):
        p = pm.get(p)
    if p is None:
        return False
    pn = F.nodes[p]
    var = None
    if pn.get("k") == "decl":
        for v in pn["vars"]:
            if "init" in v and i in F.descendants(v["init"]):
                var = v["n"]
    elif pn.get("k") == "bin" and pn.get("asg") and pn["op"] == "=":
        ln = F.nodes[F.strip(pn["lh"])]
        if ln.get("k") == "ref" and ln.get("dk") == "var":
            var = ln["n"]
    if var is None:
        return False
    uses = [j for j, nd in enumerate(F.nodes) if nd and nd.get("k") == "load" and F.nodes[nd["e"]].get("k") == "ref" and
            F.nodes[nd["e"]]["n"] == var]
    if not uses:
        return False
    for j in uses:
        q = pm.get(j)
        while q is not None and F.nodes[q].get("k") in ("cast", "load"):
            q = pm.get(q)
        qn = F.nodes[q] if q is not None else None
        ok = False
        if qn and qn.get("k") == "call" and qn.get("fn"):
            G = P.resolve_call(F, qn)
            if G is not None:
                for prm, a in zip(G.params, qn["a"]):
                    if F.strip(a) == F.strip(j):
                        ok = prm["n"] == "f_cb"
        if not ok:
            return False
    return True


def rule_R2(P, rep):
    cbs = _callbacks(P)
    rep.need(len(cbs) >= 12, "only %d post-switch callbacks found" % len(cbs))
    # (a) every reference to a callback function is as an f_cb argument (or its own definition)
    for cb in sorted(cbs):
        bad = []
        for F in P.functions.values():
            live = F.live_nodes()
            for i, nd in enumerate(F.nodes):
                if i in live and nd.get("k") == "ref" and nd.get("dk") == "func" and nd["n"] == cb:
                    pm = F.parent_map()
                    p = pm.get(i)
                    while p is not None and F.nodes[p].get("k") in ("cast", "load"):
                        p = pm.get(p)
                    pn = F.nodes[p] if p is not None else None
                    if pn is None:
                        continue    # a bare designator whose value is not used (argument of a flattened helper call)
                    ok = False
                    if pn and pn.get("k") == "call" and pn.get("fn"):
                        G = P.resolve_call(F, pn)
                        if G is not None:
                            for prm, a in zip(G.params, pn["a"]):
                                if F.strip(a) == i or i in F.descendants(a):
                                    ok = prm["n"] == "f_cb"
                    if not ok:
                        ok = _flows_only_to_f_cb(P, F, i)
                    if not ok:
                        bad.append(F.loc(i))
        rep.ob("R2", "%s is only ever passed as a post-switch callback (never called before the switch)" % cb, not bad,
               "other uses at %s" % bad, loc="src/ythread.c", site="cb-use/" + cb)
    # (b) pre-switch wrappers: nothing that publishes the outgoing ULT before the switch call
    switchers = {"ABTI_ythread_switch_to_sibling_internal", "ABTI_ythread_switch_to_parent_internal",
                 "ABTI_ythread_jump_to_sibling_internal", "ABTI_ythread_jump_to_parent_internal",
                 "ABTI_ythread_switch_to_child_internal", "ABTI_ythread_context_jump_with_call"}
    publishers = {"ABTI_pool_add_thread", "ABTI_pool_push", "ABTD_spinlock_release"}
    n = 0
    for F in sorted(P.functions.values(), key=lambda f: (f.file, f.line)):
        if F.file != YH:
            continue
        sw = F.calls(switchers)
        if not sw:
            continue
        # the outgoing unit: the ABTI_ythread * parameter these headers call p_self / p_old (parameter names of existing
        # functions; everything derived from it is followed through temporaries by canon.rooted)
        selfp = [p["n"] for p in F.params if p["n"] in ("p_self", "p_old") and _ty(p) == YT]
        if not selfp:
            continue
        selfn = selfp[0]
        sel = Sel(calls=lambda c: c in switchers or c in publishers, fields={"state", "p_link"})
        for toks, kind, rv, rtxt in seq.sequences(F, sel, max_len=60):
            s_i = idx(toks, lambda t: t[0] == "call" and t[1] in switchers)
            if not s_i:
                continue
            pre = toks[:s_i[0]]
            why = []
            for t in pre:
                if t[0] in ("call", "rel") and (t[1] in publishers or t[0] == "rel"):
                    # pushing / unlocking before the switch publishes the outgoing ULT or lets a waker run
                    args = [rooted(F, a) for a in F.nodes[t[-1]]["a"]] if t[0] == "call" else ()
                    if t[0] == "rel" or any(_under(a, selfn) for a in args):
                        why.append("%s before the switch" % show([t]))
                if t[0] == "ast" and t[2] == "ABTI_thread::state":
                    tgt = rooted(F, F.nodes[t[4]]["a"][0])
                    if _under(tgt, selfn):
                        why.append("state of the outgoing ULT written before the switch: %s" % show([t]))
                if t[0] == "ast" and t[2].endswith("p_link") and "release" in t[1]:
                    why.append("p_link published before the switch")
            n += 1
            rep.ob("R2", "%s does not publish the outgoing ULT before switching [%s]" % (F.name, show(pre)[:160]),
                   not why, "; ".join(why), loc="%s:%d" % (F.file, F.line), site="pre-switch/%s/%d" % (F.name, len(pre)))
    rep.need(n >= 15, "only %d pre-switch wrapper paths analysed" % n)
    rep.min_instances("R2", 25)


SUSPEND_CBS = ["ABTI_ythread_callback_suspend", "ABTI_ythread_callback_resume_suspend_to",
               "ABTI_ythread_callback_suspend_unlock", "ABTI_ythread_callback_suspend_join",
               "ABTI_ythread_callback_suspend_replace_sched"]


def rule_R3(P, rep):
    BLOCKED = P.enum_consts["ABT_THREAD_STATE_BLOCKED"]
    for cb in SUSPEND_CBS:
        F = P.fn(cb, "src/ythread.c", flat=True)
        sel = Sel(calls={"ABTI_sched_set_request", "ABTI_thread_handle_request", "ABTI_pool_inc_num_blocked",
                             "ABTI_pool_dec_num_blocked"}, fields={"state", "p_link"})
        ps = [p for p in seq.sequences(F, sel) if p[1] == "ret"]
        rep.need(ps, "%s has no path" % cb)
        for toks, kind, rv, rtxt in ps:
            why = []
            st = [i for i, t in enumerate(toks) if t[0] == "ast" and t[2] == "ABTI_thread::state"]
            if len(st) != 1 or toks[st[0]][3] != BLOCKED or "release" not in toks[st[0]][1]:
                why.append("BLOCKED must be release-stored exactly once")
            else:
                b = st[0]
                for i, t in enumerate(toks):
                    publishes = (t[0] == "rel") or (t[0] == "ast" and t[2].endswith("p_link")) or \
                                (t[0] == "call" and t[1] == "ABTI_sched_set_request")
                    if publishes and i < b:
                        why.append("%s before BLOCKED is published (a waker could resume a ULT whose state is still RUNNING)" % show([t]))
                    if t[0] == "call" and t[1] in ("ABTI_thread_handle_request", "ABTI_pool_inc_num_blocked") and i > b:
                        why.append("%s after BLOCKED was published" % t[1])
                # the argument struct lives on the outgoing ULT's stack: no read of it after the BLOCKED store
                nid = toks[b][4]
                argp = F.params[0]["n"]
                later = [j for bid, j in F.all_events() if cfg.can_reach(F, nid, j)]
                arg_vars = {argp}
                for bid, j in F.all_events():
                    nd = F.nodes[j]
                    if nd.get("k") == "decl":
                        for v in nd["vars"]:
                            if "init" in v and argp in F.vars_in(v["init"]) and "_arg" in v["t"]:
                                arg_vars.add(v["n"])
                for j in later:
                    for d in F.descendants(j):
                        dn = F.nodes[d]
                        if dn.get("k") == "mem" and F.base_var(d) in arg_vars and "_arg" in (F.nodes[F.strip(dn["b"])].get("t") or ""):
                            why.append("argument struct read at %s after BLOCKED (it lives on the resumed ULT's stack)" % F.loc(d))
            rep.ob("R3", "%s: BLOCKED is the first publication [%s]" % (cb, show(toks)), not why, "; ".join(sorted(set(why))),
                   loc="%s:%d" % (F.file, F.line), site=cb)
    # the yield-family callbacks that receive an argument struct publish the outgoing ULT by pushing it to its pool:
    # from then on another stream may run it and reuse the stack the struct lives on
    for cb in ("ABTI_ythread_callback_resume_yield_to",):
        F = P.fn(cb, "src/ythread.c", flat=True)
        argp = F.params[0]["n"]
        pushes = [i for _b, i in F.calls({"ABTI_pool_add_thread", "ABTI_pool_push"})]
        rep.need(pushes, "%s does not push the outgoing ULT" % cb)
        why = []
        for pnid in pushes:
            for _b, j in F.all_events():
                if j == pnid or not cfg.can_reach(F, pnid, j):
                    continue
                for d in F.descendants(j):
                    dn = F.nodes[d]
                    if dn.get("k") == "mem" and "_arg" in (F.nodes[F.strip(dn["b"])].get("t") or "") and \
                            canon.rooted(F, d).startswith(argp + "->"):
                        why.append("argument struct read at %s after the outgoing ULT was pushed at %s (it lives on that ULT's stack)" %
                                   (F.loc(d), F.loc(pnid)))
        rep.ob("R3", "%s: nothing is read from the argument struct after the outgoing ULT was pushed" % cb, not why,
               "; ".join(sorted(set(why))), loc="%s:%d" % (F.file, F.line), site=cb + "/arg-after-push")
    rep.min_instances("R3", 5)


def _new_arg(P, F, nd):
    """the argument of a context-switch / sibling-switch call that is the unit switched to: the LAST ABTI_ythread *
    parameter of the callee (callee(.., [p_old,] p_new, ..)); None if the callee is not understood"""
    G = P.resolve_call(F, nd)
    if G is None:
        return None
    yts = [i for i, q in enumerate(G.params) if _ty(q) == YT]
    return nd["a"][yts[-1]] if yts and yts[-1] < len(nd["a"]) else None


def rule_R4_R5(P, rep):
    RUNNING = P.enum_consts["ABT_THREAD_STATE_RUNNING"]
    internals = ["ABTI_ythread_switch_to_child_internal", "ABTI_ythread_jump_to_sibling_internal",
                 "ABTI_ythread_switch_to_sibling_internal", "ABTI_ythread_jump_to_parent_internal",
                 "ABTI_ythread_switch_to_parent_internal"]
    ctxsw = {"ABTI_ythread_context_switch", "ABTI_ythread_context_jump_with_call", "ABTI_ythread_context_switch_with_call",
             "ABTI_ythread_context_jump"}
    for fn in internals:
        F = P.fn(fn, YH)
        olds = [q["n"] for q in F.params if _ty(q) == YT]
        pps = [q["n"] for q in F.params if _ty(q) == "ABTI_xstream**"]
        rep.need(olds, "%s: no ABTI_ythread * parameter" % fn)
        old = olds[0]
        sel = Sel(calls=lambda c: c in ctxsw, fields={"p_thread", "p_last_xstream", "p_parent"}, canon=True)
        for toks, kind, rv, rtxt in seq.sequences(F, sel):
            sw = idx(toks, lambda t: t[0] == "call" and t[1] in ctxsw)
            if not sw:
                continue
            why = []
            na = _new_arg(P, F, F.nodes[toks[sw[0]][-1]])
            new = rooted(F, na) if na is not None else None     # identity of the unit switched to
            if new is None or new == old:
                why.append("switches to %s" % (new,))
            ident = [i for i, t in enumerate(toks) if t[0] == "st" and t[1] == "ABTI_xstream::p_thread"]
            if len(ident) != 1 or ident[0] > sw[0] or toks[ident[0]][2] != "=" or \
                    rooted(F, F.nodes[toks[ident[0]][-1]]["rh"]) != "&%s->thread" % new:
                why.append("running identity (p_local_xstream->p_thread = &p_new->thread) not set once before the switch")
            if "parent" not in fn:
                lx = [i for i, t in enumerate(toks) if t[0] == "st" and t[1] == "ABTI_thread::p_last_xstream"]
                if len(lx) != 1 or lx[0] > sw[0] or \
                        rooted(F, F.nodes[toks[lx[0]][-1]]["lh"]) != "%s->thread.p_last_xstream" % new:
                    why.append("p_new->thread.p_last_xstream not set before the switch")
            if fn.startswith("ABTI_ythread_switch"):
                # after a returning switch the local stream is re-read from the ULT
                post = []
                for b, i, lh, rh in F.stores():
                    ln = F.nodes[F.strip(lh)]
                    if rh is not None and ln.get("k") == "un" and ln["op"] == "*":
                        bn = F.nodes[F.strip(ln["e"])]
                        if bn.get("k") == "ref" and bn["n"] in pps:
                            post.append("*%s = %s" % (bn["n"], rooted(F, rh)))
                if len(pps) != 1 or post != ["*%s = %s->thread.p_last_xstream" % (pps[0], old)]:
                    why.append("local stream not re-read from p_old->thread.p_last_xstream after the switch (%s)" % post)
            rep.ob("R4", "%s sets the running identity before switching [%s]" % (fn, show(toks)), not why, "; ".join(why),
                   loc="%s:%d" % (F.file, F.line), site=fn)
    rep.min_instances("R4", 5)
    # R5: every caller of a sibling switch/jump (directed switch) release-stores RUNNING into the target first
    sib = {"ABTI_ythread_switch_to_sibling_internal", "ABTI_ythread_jump_to_sibling_internal"}
    n = 0
    for F in sorted(P.functions.values(), key=lambda f: (f.file, f.line)):
        cs = F.calls(sib)
        if not cs or F.name in sib:
            continue
        sel = Sel(calls=lambda c: c in sib, fields={"state"})
        for toks, kind, rv, rtxt in seq.sequences(F, sel, max_len=60):
            sw = idx(toks, lambda t: t[0] == "call" and t[1] in sib)
            if not sw:
                continue
            n += 1
            na = _new_arg(P, F, F.nodes[toks[sw[0]][-1]])
            tgt = rooted(F, na) if na is not None else None
            run = [i for i, t in enumerate(toks[:sw[0]]) if t[0] == "ast" and t[2] == "ABTI_thread::state" and
                   t[3] == RUNNING and "release" in t[1]]
            ok = len(run) == 1
            why = "RUNNING release-stored %d times before the switch" % len(run)
            if ok:
                who = rooted(F, F.nodes[toks[run[0]][4]]["a"][0])
                ok = tgt is not None and who == "&%s->thread.state" % tgt
                why = "RUNNING stored into %s but the switch targets %s" % (who, tgt)
            # suspend_to switches to a target that the caller (ABT_self_suspend_to) made RUNNING... checked at the API
            if F.name == "ABTI_ythread_suspend_to" and not run:
                callers_ok = True
                for C in P.functions.values():
                    for b, i in C.calls("ABTI_ythread_suspend_to"):
                        pre = [j for bb, j in C.all_events() if C.nodes[j].get("fn", "").startswith("ABTD_atomic_release_store_int")
                               and cfg.dominates(C, j, i) and C.nodes[C.strip(C.nodes[j]["a"][1])].get("cv") == RUNNING]
                        callers_ok = callers_ok and bool(pre)
                ok, why = callers_ok, "callers of ABTI_ythread_suspend_to must store RUNNING into the target first"
            rep.ob("R5", "%s release-stores RUNNING into the switch target before switching" % F.name, ok, why,
                   loc="%s:%d" % (F.file, F.line), site="running-before-switch/%s/%d" % (F.name, len(toks)))
    F = P.fn("ABTI_ythread_run_child", YH)
    sel = Sel(calls={"ABTI_ythread_switch_to_child_internal"}, fields={"state"})
    for toks, kind, rv, rtxt in seq.sequences(F, sel):
        sw = idx(toks, is_call("ABTI_ythread_switch_to_child_internal"))
        run = [i for i, t in enumerate(toks) if t[0] == "ast" and t[3] == RUNNING and "release" in t[1]]
        rep.ob("R5", "ABTI_ythread_run_child release-stores RUNNING before switching to the child",
               len(sw) == 1 and len(run) == 1 and run[0] < sw[0], show(toks), loc=F.file, site="run_child")
        n += 1
    rep.need(n >= 8, "only %d directed-switch call sites" % n)


def rule_R6(P, rep):
    for fn in ("ABTD_ythread_context_init", "ABTD_ythread_context_init_lazy", "ABTD_ythread_context_reinit"):
        F = P.fn(fn, FH, required=(fn != "ABTD_ythread_context_init_lazy"))
        if F is None:
            continue
        sel = Sel(calls={"ABTDI_fcontext_init"}, fields={"p_link"})
        for toks, kind, rv, rtxt in seq.sequences(F, sel):
            init = idx(toks, is_call("ABTDI_fcontext_init"))
            lk = [t for t in toks if t[0] == "ast" and t[2].endswith("p_link")]
            ok = len(init) == 1 and toks[init[0]][2] == ("&ABTD_ythread_context::ctx",) and len(lk) == 1 and lk[0][3] == 0
            rep.ob("R6", "%s marks the context not-started and clears p_link" % fn, ok, show(toks), loc=F.file, site=fn)
    F = P.fn("ABTDI_fcontext_init", FH)
    st = [(F.fieldpath(lh), F.nodes[F.strip(rh)].get("cv")) for b, i, lh, rh in F.stores() if rh is not None]
    rep.ob("R6", "ABTDI_fcontext_init nulls the saved stack pointer", st == [("fcontext_t::dummy", 0)], str(st), loc=F.file,
           site="ABTDI_fcontext_init")
    disp = {"ABTI_ythread_context_switch": ("ABTD_ythread_context_switch", "ABTD_ythread_context_start_and_switch"),
            "ABTI_ythread_context_jump": ("ABTD_ythread_context_jump", "ABTD_ythread_context_start_and_jump"),
            "ABTI_ythread_context_jump_with_call": ("ABTD_ythread_context_jump_with_call", "ABTD_ythread_context_start_and_jump_with_call"),
            "ABTI_ythread_context_switch_with_call": ("ABTD_ythread_context_switch_with_call", "ABTD_ythread_context_start_and_switch_with_call")}
    for fn, (started, fresh) in sorted(disp.items()):
        F = P.fn(fn, YH, required=False)
        if F is None:
            continue
        news = [q["n"] for q in F.params if _ty(q) == YT]
        rep.need(news, "%s: no ABTI_ythread * parameter" % fn)
        new_ctx = "&%s->ctx" % news[-1]          # (.., [p_old,] p_new, ..): the unit switched to is the last one

        def conds(text, F, node, new_ctx=new_ctx):
            # `is_started(&p_new->ctx)` however it is spelt (== ABT_TRUE, negated, held in a local): the canonical
            # label is the bare call and its truth is "the context has been started"
            for d in descendants_through(F, node):
                dn = F.nodes[d]
                if dn.get("k") == "call" and dn.get("fn") == "ABTD_ythread_context_is_started" and dn["a"]:
                    bare = text.startswith("ABTD_ythread_context_is_started(") and " == " not in text[:-5]
                    if rooted(F, dn["a"][0]) == new_ctx and bare and (text.endswith(")") or text.endswith(") == 1")):
                        return "started(new)"
                    return "started?:" + text
            return False
        sel = Sel(calls={started, fresh}, conds=conds, canon=True)
        seen = set()
        for toks, kind, rv, rtxt in seq.sequences(F, sel):
            cs = [t for t in toks if t[0] == "call"]
            if not cs:
                continue
            is_started = [t for t in toks if t[0] == "if" and t[1] == "started(new)"]
            ok = len(cs) == 1 and len(is_started) == 1 and cs[0][1] == (started if is_started[0][2] else fresh)
            seen.add(cs[0][1])
            rep.ob("R6", "%s: started=%s -> %s" % (fn, is_started[0][2] if is_started else "?", cs[0][1]), ok, show(toks),
                   loc=F.file, site="%s/%s" % (fn, cs[0][1]))
        rep.ob("R6", "%s reaches both the resume and the first-start primitive" % fn, seen == {started, fresh}, str(seen),
               loc=F.file, site="%s/both" % fn)
    R = P.fn("thread_revive", "src/thread.c")
    rep.ob("R6", "thread_revive re-initialises the context (ABTD_ythread_context_reinit)",
           len(R.calls("ABTD_ythread_context_reinit")) == 1, "", loc=R.file, site="thread_revive/reinit")
    rep.min_instances("R6", 12)


def rule_R13(P, rep):
    F = P.fn("ABT_thread_get_attr", "src/thread.c", flat=True)
    n = 0
    for bid, i, lh, rh in F.stores():
        fo = F.field_of(lh)
        if not fo or fo[1] != "p_stack" or rh is None:
            continue
        txt = canon.expr(F, rh)
        if txt in (0, "0"):
            continue
        n += 1
        m = re.match(r"^ABTD_ythread_context_get_stacktop\((.*)\) - ABTD_ythread_context_get_stacksize\((.*)\)$", str(txt))
        ok = bool(m) and m.group(1) == m.group(2) and "(" not in m.group(1).replace("&", "")
        rep.ob("R13", "ABT_thread_get_attr reports the stack base as saved top - saved size", ok, "reported base: %s" % txt,
               loc=F.loc(i), site="get_attr/p_stack")
    rep.need(n >= 1, "ABT_thread_get_attr never stores a stack base into the attribute")


def run(P, rep, tier):
    common.run_shared(P, rep, which=("X1", "X2"))
    rules_asm(P, rep)
    rule_R1(P, rep)
    rule_R2(P, rep)
    rule_R3(P, rep)
    rule_R4_R5(P, rep)
    rule_R6(P, rep)
    from . import C03, C12      # lazy: C12 imports this module
    common.borrow(rep, P, C03.rule_R1, "R7")
    common.borrow(rep, P, C12.rule_R3, "R8")
    from . import C11
    common.borrow(rep, P, C11.rule_R6, "R9")
    common.borrow(rep, P, C11.rule_R10, "R10")
    common.borrow(rep, P, C12.rule_R4, "R11")
    from . import C15
    common.borrow(rep, P, C15.rule_R7, "R12")
    rule_R13(P, rep)
