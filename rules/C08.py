"""C08 -- barriers (structural part)."""
from abtverif import seq
from abtverif.seq import idx, is_call, is_acq, is_rel, is_xfer, held_at, show, has_if
from . import common

EXPLANATION = (
    "Decides on every path of ABT_barrier_wait that the arrival counter is incremented, compared and reset only "
    "inside the barrier's lock, that a non-last arriver enqueues on the barrier's own wait list handing over that "
    "same lock, and that the last arriver broadcasts and resets the counter before releasing the lock (R1); that "
    "no success path returns without having waited or broadcast (R2); and for ABT_xstream_barrier_wait that the "
    "wait is forwarded to the pthread barrier iff num_waiters > 1, or (configuration without pthread barriers) "
    "that the sense-reversal protocol updates counter and tag under the lock, release-stores the tag after the "
    "reset, and spins on an acquire load of a tag read under the lock (R3).  Round semantics over histories are "
    "not decided.")
DECLINED = ["round semantics over arbitrary histories", "behaviour of pthread_barrier_wait itself"]
ASSUMPTIONS = ["C05.R4 (broadcast wakes every queued waiter) and C04.R3 (enqueue contract)"]
RULES_DOC = dict(common.SHARED_DOC)
RULES_DOC.update({
    "R1": "barrier_wait: counter ++/compare/reset inside the lock; non-last arm enqueues with the barrier's list+lock; last arm broadcasts and resets before release",
    "R2": "barrier_wait: every success path waited or broadcast, exactly one of the two",
    "R3": "xstream barrier: forwarded iff num_waiters > 1 (pthread), or sense-reversal protocol under the lock with release/acquire on the tag",
})
VARIANTS = ["no_pthread_barrier", "active_wait", "no_ext_thread"]
BL = "ABTI_barrier::lock"


def rule_R1_R2(P, rep):
    F = P.fn("ABT_barrier_wait", "src/barrier.c")
    sel = seq.Sel(calls={"ABTI_waitlist_broadcast", "ABTI_waitlist_signal"}, fields={"counter", "num_waiters"},
                  conds=lambda t: "counter" in t)
    ps = [p for p in seq.sequences(F, sel) if p[1] == "ret"]
    kinds = set()
    for toks, kind, rv, rtxt in ps:
        why = []
        if rv != 0:
            if any(t[0] in ("acq", "xfer", "st", "call") for t in toks):
                why.append("error path touches the barrier")
            rep.ob("R2", "barrier_wait error path -> %s" % rtxt, not why, "; ".join(why), loc=F.file,
                   site="barrier_wait/error/%s" % rtxt)
            continue
        incs = [i for i, t in enumerate(toks) if t[0] == "st" and t[1] == "ABTI_barrier::counter" and t[2] == "++"]
        resets = [i for i, t in enumerate(toks) if t[0] == "st" and t[1] == "ABTI_barrier::counter" and t[2] == "=" and t[3] == 0]
        other = [t for t in toks if t[0] == "st" and t[1].endswith("counter") and not (t[2] == "++" or (t[2] == "=" and t[3] == 0))]
        xf = idx(toks, is_xfer(BL))
        bc = idx(toks, is_call("ABTI_waitlist_broadcast"))
        cmpi = [i for i, t in enumerate(toks) if t[0] == "if" and "p_barrier->counter < p_barrier->num_waiters" in t[1]]
        if len(incs) != 1 or other:
            why.append("counter must be incremented exactly once (stores: %s)" % [t[1:4] for t in toks if t[0] == "st"])
        elif not held_at(toks, BL, incs[0]):
            why.append("counter incremented outside the barrier lock")
        if not cmpi:
            why.append("arrival count not compared with num_waiters")
        elif incs and (cmpi[-1] < incs[0] or not held_at(toks, BL, cmpi[-1])):
            why.append("count compared before the increment or outside the lock")
        if cmpi and toks[cmpi[-1]][2]:
            k = "not-last"
            if len(xf) != 1 or bc or resets:
                why.append("a non-last arriver must only enqueue (enqueues %d, broadcasts %d, resets %d)" %
                           (len(xf), len(bc), len(resets)))
            elif toks[xf[0]][1] != "ABTI_waitlist_wait_and_unlock" or "&ABTI_barrier::waitlist" not in toks[xf[0]][3]:
                why.append("enqueue through %s on %s" % (toks[xf[0]][1], toks[xf[0]][3]))
        else:
            k = "last"
            rl = idx(toks, is_rel(BL))
            if len(bc) != 1 or len(resets) != 1 or xf or len(rl) != 1:
                why.append("the last arriver must broadcast once, reset once and release (b=%d r=%d enq=%d rel=%d)" %
                           (len(bc), len(resets), len(xf), len(rl)))
            else:
                if not (bc[0] < rl[0] and resets[0] < rl[0]):
                    why.append("broadcast/reset after the lock was released (a fast re-entrant of the next round is "
                               "counted into this one, or a waiter enqueues after the broadcast)")
                if "&ABTI_barrier::waitlist" not in toks[bc[0]][2]:
                    why.append("broadcast on %s" % (toks[bc[0]][2],))
        if held_at(toks, BL, len(toks)):
            why.append("returns holding the barrier lock")
        kinds.add(k)
        rep.ob("R1", "barrier_wait %s arriver [%s]" % (k, show(toks)), not why, "; ".join(why), loc=F.file,
               site="barrier_wait/%s" % k)
        rep.ob("R2", "barrier_wait %s arriver waits xor broadcasts" % k, (len(xf) == 1) != (len(bc) == 1),
               "enqueues %d, broadcasts %d" % (len(xf), len(bc)), loc=F.file, site="barrier_wait/%s/xor" % k)
    rep.ob("R1", "barrier_wait has a last-arriver and a non-last-arriver path", kinds == {"last", "not-last"},
           "kinds: %s" % sorted(kinds), loc=F.file, site="barrier_wait/kinds")
    # reinit only rewrites num_waiters (no waiters may be queued: UB-asserted by the API)
    G = P.fn("ABT_barrier_reinit", "src/barrier.c")
    st = [G.fieldpath(lh) for b, i, lh, rh in G.stores() if G.field_of(lh)]
    rep.ob("R1", "barrier_reinit writes only num_waiters", set(st) <= {"ABTI_barrier::num_waiters"}, str(st),
           loc=G.file, site="barrier_reinit")
    rep.min_instances("R1", 4)
    rep.min_instances("R2", 3)


def rule_R3(P, rep):
    F = P.fn("ABT_xstream_barrier_wait", "src/stream_barrier.c")
    pthread = bool(F.calls("ABTD_xstream_barrier_wait"))
    if pthread:
        sel = seq.Sel(calls={"ABTD_xstream_barrier_wait"}, conds=lambda t: "num_waiters" in t)
        for toks, kind, rv, rtxt in seq.sequences(F, sel):
            if kind != "ret" or rv != 0:
                continue
            calls = idx(toks, is_call("ABTD_xstream_barrier_wait"))
            many = has_if(toks, "p_barrier->num_waiters > 1", True)
            ok = (len(calls) == 1) == many and len(calls) <= 1
            if calls:
                ok = ok and toks[calls[0]][2] == ("&ABTI_xstream_barrier::bar",)
            rep.ob("R3", "xstream_barrier_wait num_waiters>1=%s forwards %d time(s)" % (many, len(calls)), ok,
                   show(toks), loc=F.file, site="xstream_barrier_wait/%s" % many)
        W = P.fn("ABTD_xstream_barrier_wait")
        c = W.calls("pthread_barrier_wait")
        rep.ob("R3", "ABTD_xstream_barrier_wait calls pthread_barrier_wait on its argument once",
               len(c) == 1 and W.render(W.nodes[c[0][1]]["a"][0]) == W.params[0]["n"], "", loc=W.file,
               site="ABTD_xstream_barrier_wait")
        rep.min_instances("R3", 3)
        return
    XL = "ABTI_xstream_barrier::lock"
    sel = seq.Sel(fields={"counter", "tag"}, conds=lambda t: "counter" in t or "tag" in t or "num_waiters" in t,
                  decls={"cur_tag", "new_tag"})
    kinds = set()
    for toks, kind, rv, rtxt in seq.sequences(F, sel):
        if kind != "ret" or rv != 0:
            continue
        if not has_if(toks, "p_barrier->num_waiters > 1", True):
            ok = not any(t[0] in ("acq", "st", "ast") for t in toks)
            rep.ob("R3", "single-waiter xstream barrier returns immediately", ok, show(toks), loc=F.file,
                   site="xstream_barrier_wait/single")
            continue
        why = []
        incs = [i for i, t in enumerate(toks) if t[0] == "st" and t[1].endswith("::counter") and t[2] == "++"]
        if len(incs) != 1 or not held_at(toks, XL, incs[0]):
            why.append("counter not incremented exactly once under the lock")
        last = has_if(toks, "p_barrier->counter == p_barrier->num_waiters", True)
        reads = [i for i, t in enumerate(toks) if t[0] == "decl" and t[1] == "cur_tag"]
        if not reads or not held_at(toks, XL, reads[0]):
            why.append("current tag not read under the lock")
        if last:
            k = "last"
            resets = [i for i, t in enumerate(toks) if t[0] == "st" and t[1].endswith("::counter") and t[3] == 0]
            tags = [i for i, t in enumerate(toks) if t[0] == "ast" and t[2].endswith("::tag")]
            if len(resets) != 1 or len(tags) != 1:
                why.append("last arriver must reset the counter and publish the tag once")
            else:
                if "release" not in toks[tags[0]][1]:
                    why.append("tag not release-stored")
                if not resets[0] < tags[0]:
                    why.append("tag published before the counter reset (a released waiter re-entering would be miscounted)")
                if not (held_at(toks, XL, resets[0]) and held_at(toks, XL, tags[0])):
                    why.append("reset/tag update outside the lock")
        else:
            k = "not-last"
            spins = [t for t in toks if t[0] == "if" and "ABTD_atomic_acquire_load_uint64(&p_barrier->tag)" in t[1] and "cur_tag" in t[1]]
            if not spins or spins[-1][2] is not False:
                why.append("waiter does not leave through an acquire-load of the tag that differs from the one read under the lock")
            if any(t[0] in ("st", "ast") and not (t[0] == "st" and t[2] == "++") for t in toks):
                why.append("non-last arriver writes barrier state")
        if held_at(toks, XL, len(toks)):
            why.append("returns holding the lock")
        kinds.add(k)
        rep.ob("R3", "xstream barrier (no pthread) %s arriver [%s]" % (k, show(toks)[:300]), not why, "; ".join(why),
               loc=F.file, site="xstream_barrier_wait/nopthread/%s" % k)
    rep.ob("R3", "sense-reversal barrier has both arms", kinds == {"last", "not-last"}, str(kinds), loc=F.file,
           site="xstream_barrier_wait/nopthread/kinds")


def run(P, rep, tier):
    common.run_shared(P, rep)
    rule_R1_R2(P, rep)
    rule_R3(P, rep)
