"""C08 -- barriers (structural part).

All rules are phrased over canonical facts (abtverif.canon): conditions by `Record::field` labels
independent of local names and of the polarity of the test, "read under the lock" by `rd` tokens
instead of named temporaries."""
import re

from abtverif import seq
from abtverif.seq import idx, is_call, is_acq, is_rel, is_xfer, held_at, show, has_if
from . import common

EXPLANATION = (
    "Decides on every path of ABT_barrier_wait that the arrival counter is incremented, compared and reset only "
    "inside the barrier's lock, that a non-last arriver enqueues on the barrier's own wait list handing over that "
    "same lock, and that the last arriver broadcasts and resets the counter before releasing the lock (R1); that "
    "no success path returns without having waited or broadcast (R2); and for ABT_xstream_barrier_wait that the "
    "wait is forwarded to the pthread barrier iff num_waiters > 1, or (configuration without pthread barriers) "
    "that the sense-reversal protocol updates counter and tag under the lock, release-stores the tag after the "
    "reset, and spins on an acquire load of a tag read under the lock (R3).  Round semantics over histories are "
    "not decided.")
DECLINED = ["round semantics over arbitrary histories", "behaviour of pthread_barrier_wait itself"]
ASSUMPTIONS = ["C05.R4 (broadcast wakes every queued waiter) and C04.R3 (enqueue contract)"]
RULES_DOC = dict(common.SHARED_DOC)
RULES_DOC["X7"] = common.X7_DOC
RULES_DOC["X4"] = common.X4_DOC
RULES_DOC["X5"] = common.X5_DOC
RULES_DOC["R4"] = "= C06.R2: a waiter released by the last arriver is pushed before it stops being counted as blocked (it is never stranded in a pool whose stream has terminated)"
RULES_DOC["X6"] = common.X6_DOC
RULES_DOC["R5"] = "= C06.R1/R3/R4: a waiter that blocks in the barrier is counted on the pool it will be resumed on"
RULES_DOC["R7"] = "= C06.R5: a scheduler does not stop while a unit of one of its pools is blocked (for every shared access mode): the stream a barrier waiter will be pushed back to is still consuming the pool when the last arriver releases it"
RULES_DOC["R9"] = "= C07.R10: ABT_pool_get_total_size counts the waiters blocked in the barrier: a user scheduler that leaves at total size 0 is still there when the last arriver pushes them back"
RULES_DOC["R8"] = "= C06.R9: pool reference counts are exact (ABTI_sched_has_unit trusts num_scheds == 1 before it looks at num_blocked)"
RULES_DOC["R6"] = "= C17.R10: an OS thread that gave up its stream (ABT_finalize) is an external thread afterwards -- the barrier picks the external-waiter path from the thread-local stream pointer"
RULES_DOC.update({
    "R1": "barrier_wait: counter ++/compare/reset inside the lock; non-last arm enqueues with the barrier's list+lock; last arm broadcasts and resets before release",
    "R2": "barrier_wait: every success path waited or broadcast, exactly one of the two",
    "R3": "xstream barrier: forwarded iff num_waiters > 1 (pthread), or sense-reversal protocol under the lock with release/acquire on the tag",
})
VARIANTS = ["no_pthread_barrier", "active_wait", "no_ext_thread"]
QUICK_VARIANTS = ["no_pthread_barrier"]   # the fallback xstream barrier exists only there
BL = "ABTI_barrier::lock"
CNT, NW = "ABTI_barrier::counter", "ABTI_barrier::num_waiters"
XCNT, XNW, XTAG = "ABTI_xstream_barrier::counter", "ABTI_xstream_barrier::num_waiters", "ABTI_xstream_barrier::tag"
_TAG_LOAD = re.compile(r"^ABTD_atomic_(\w+?)_load_\w+\(&%s\)$" % re.escape(XTAG))


def _bw_cond(t):
    """Canonical labels of ABT_barrier_wait's tests (local names / polarity / operand order independent).
    `counter < num_waiters` (also written `num_waiters > counter`, `!(counter >= num_waiters)`, or through a
    local holding either operand) is 'not-all'; `counter == num_waiters` is its negation because the arrival
    count never exceeds num_waiters."""
    if t == "%s < %s" % (CNT, NW):
        return "not-all"
    if t == "%s == %s" % tuple(sorted((CNT, NW))):
        return ("not-all", True)
    return None


def _is_inc(t, path):
    """A store token that adds one to `path`: x++ / ++x / x += 1 / x = x + 1."""
    if t[0] != "st" or t[1] != path:
        return False
    return t[2] == "++" or (t[2] == "+=" and t[3] == 1) or \
        (t[2] == "=" and str(t[3]) in ("%s + 1" % path, "1 + %s" % path))


def _is_reset(t, path):
    return t[0] == "st" and t[1] == path and t[2] == "=" and t[3] == 0


def _xb_cond(t):
    """Canonical labels of ABT_xstream_barrier_wait's tests."""
    if t == "1 < %s" % XNW:
        return "many"                   # num_waiters > 1
    if t == "%s < 2" % XNW:
        return ("many", True)           # !(num_waiters < 2)
    if t == "%s == %s" % tuple(sorted((XCNT, XNW))):
        return "last"
    if t == "%s < %s" % (XCNT, XNW):
        return ("last", True)           # counter >= num_waiters (the count never exceeds num_waiters)
    if " == " in t:
        a, b = t.split(" == ", 1)
        ma, mb = _TAG_LOAD.match(a), _TAG_LOAD.match(b)
        if ma and mb and "acquire" in (ma.group(1), mb.group(1)):
            return "spin"               # <tag read earlier> == acquire-load(tag)
    if XCNT in t or XTAG in t or XNW in t:
        return "other:" + t
    return None


def rule_R1_R2(P, rep):
    F = P.fn("ABT_barrier_wait", "src/barrier.c")
    sel = seq.Sel(calls={"ABTI_waitlist_broadcast", "ABTI_waitlist_signal"}, fields={"counter", "num_waiters"},
                  conds=_bw_cond, reads={CNT}, canon=True)
    ps = [p for p in seq.sequences(F, sel) if p[1] == "ret"]
    kinds = set()
    for toks, kind, rv, rtxt in ps:
        why = []
        if rv != 0:
            if any(t[0] in ("acq", "xfer", "st", "call") for t in toks):
                why.append("error path touches the barrier")
            rep.ob("R2", "barrier_wait error path -> %s" % rtxt, not why, "; ".join(why), loc=F.file,
                   site="barrier_wait/error/%s" % rtxt)
            continue
        incs = [i for i, t in enumerate(toks) if _is_inc(t, CNT)]
        resets = [i for i, t in enumerate(toks) if _is_reset(t, CNT)]
        other = [t for t in toks if t[0] == "st" and t[1].endswith("counter") and not (_is_inc(t, CNT) or _is_reset(t, CNT))]
        xf = idx(toks, is_xfer(BL))
        bc = idx(toks, is_call("ABTI_waitlist_broadcast"))
        cmpi = [i for i, t in enumerate(toks) if t[0] == "if" and t[1] == "not-all"]
        rds = [i for i, t in enumerate(toks) if t[0] == "rd" and t[1] == CNT]
        if len(incs) != 1 or other:
            why.append("counter must be incremented exactly once (stores: %s)" % [t[1:4] for t in toks if t[0] == "st"])
        elif not held_at(toks, BL, incs[0]):
            why.append("counter incremented outside the barrier lock")
        if not cmpi:
            why.append("arrival count not compared with num_waiters")
        elif incs and (cmpi[-1] < incs[0] or not held_at(toks, BL, cmpi[-1])):
            why.append("count compared before the increment or outside the lock")
        elif incs and not any(incs[0] < i < cmpi[-1] and held_at(toks, BL, i) for i in rds):
            # the compared value may live in a local: it must have been read after the increment, under the lock
            why.append("the compared count was not read after the increment under the lock")
        if cmpi and toks[cmpi[-1]][2]:
            k = "not-last"
            if len(xf) != 1 or bc or resets:
                why.append("a non-last arriver must only enqueue (enqueues %d, broadcasts %d, resets %d)" %
                           (len(xf), len(bc), len(resets)))
            elif toks[xf[0]][1] != "ABTI_waitlist_wait_and_unlock" or "&ABTI_barrier::waitlist" not in toks[xf[0]][3]:
                why.append("enqueue through %s on %s" % (toks[xf[0]][1], toks[xf[0]][3]))
        else:
            k = "last"
            rl = idx(toks, is_rel(BL))
            if len(bc) != 1 or len(resets) != 1 or xf or len(rl) != 1:
                why.append("the last arriver must broadcast once, reset once and release (b=%d r=%d enq=%d rel=%d)" %
                           (len(bc), len(resets), len(xf), len(rl)))
            else:
                if not (bc[0] < rl[0] and resets[0] < rl[0]):
                    why.append("broadcast/reset after the lock was released (a fast re-entrant of the next round is "
                               "counted into this one, or a waiter enqueues after the broadcast)")
                if "&ABTI_barrier::waitlist" not in toks[bc[0]][2]:
                    why.append("broadcast on %s" % (toks[bc[0]][2],))
        if held_at(toks, BL, len(toks)):
            why.append("returns holding the barrier lock")
        kinds.add(k)
        rep.ob("R1", "barrier_wait %s arriver [%s]" % (k, show(toks)), not why, "; ".join(why), loc=F.file,
               site="barrier_wait/%s" % k)
        rep.ob("R2", "barrier_wait %s arriver waits xor broadcasts" % k, (len(xf) == 1) != (len(bc) == 1),
               "enqueues %d, broadcasts %d" % (len(xf), len(bc)), loc=F.file, site="barrier_wait/%s/xor" % k)
    rep.ob("R1", "barrier_wait has a last-arriver and a non-last-arriver path", kinds == {"last", "not-last"},
           "kinds: %s" % sorted(kinds), loc=F.file, site="barrier_wait/kinds")
    # reinit only rewrites num_waiters (no waiters may be queued: UB-asserted by the API)
    G = P.fn("ABT_barrier_reinit", "src/barrier.c")
    st = [G.fieldpath(lh) for b, i, lh, rh in G.stores() if G.field_of(lh)]
    rep.ob("R1", "barrier_reinit writes only num_waiters", set(st) <= {"ABTI_barrier::num_waiters"}, str(st),
           loc=G.file, site="barrier_reinit")
    rep.min_instances("R1", 4)
    rep.min_instances("R2", 3)


def rule_R3(P, rep):
    F = P.fn("ABT_xstream_barrier_wait", "src/stream_barrier.c")
    pthread = bool(F.calls("ABTD_xstream_barrier_wait"))
    if pthread:
        sel = seq.Sel(calls={"ABTD_xstream_barrier_wait"}, conds=_xb_cond, canon=True)
        for toks, kind, rv, rtxt in seq.sequences(F, sel):
            if kind != "ret" or rv != 0:
                continue
            calls = idx(toks, is_call("ABTD_xstream_barrier_wait"))
            many = has_if(toks, "many", True)
            ok = (len(calls) == 1) == many and len(calls) <= 1
            if calls:
                ok = ok and toks[calls[0]][2] == ("&ABTI_xstream_barrier::bar",)
            rep.ob("R3", "xstream_barrier_wait num_waiters>1=%s forwards %d time(s)" % (many, len(calls)), ok,
                   show(toks), loc=F.file, site="xstream_barrier_wait/%s" % many)
        W = P.fn("ABTD_xstream_barrier_wait")
        c = W.calls("pthread_barrier_wait")
        rep.ob("R3", "ABTD_xstream_barrier_wait calls pthread_barrier_wait on its argument once",
               len(c) == 1 and W.render(W.nodes[c[0][1]]["a"][0]) == W.params[0]["n"], "", loc=W.file,
               site="ABTD_xstream_barrier_wait")
        rep.min_instances("R3", 3)
        return
    XL = "ABTI_xstream_barrier::lock"
    sel = seq.Sel(fields={"counter", "tag"}, conds=_xb_cond, reads={XTAG}, canon=True)
    kinds = set()
    for toks, kind, rv, rtxt in seq.sequences(F, sel):
        if kind != "ret" or rv != 0:
            continue
        if not has_if(toks, "many", True):
            ok = not any(t[0] in ("acq", "st", "ast") for t in toks)
            rep.ob("R3", "single-waiter xstream barrier returns immediately", ok, show(toks), loc=F.file,
                   site="xstream_barrier_wait/single")
            continue
        why = []
        incs = [i for i, t in enumerate(toks) if _is_inc(t, XCNT)]
        if len(incs) != 1 or not held_at(toks, XL, incs[0]):
            why.append("counter not incremented exactly once under the lock")
        last = has_if(toks, "last", True)
        # reads of the tag (plain or through an atomic load wrapper), whatever temporary receives them
        reads = [i for i, t in enumerate(toks) if t[0] == "rd" and t[1] == XTAG]
        if not reads or not held_at(toks, XL, reads[0]):
            why.append("current tag not read under the lock")
        if last:
            k = "last"
            resets = [i for i, t in enumerate(toks) if _is_reset(t, XCNT)]
            tags = [i for i, t in enumerate(toks) if t[0] == "ast" and t[2].endswith("::tag")]
            if len(resets) != 1 or len(tags) != 1:
                why.append("last arriver must reset the counter and publish the tag once")
            else:
                if "release" not in toks[tags[0]][1]:
                    why.append("tag not release-stored")
                if not resets[0] < tags[0]:
                    why.append("tag published before the counter reset (a released waiter re-entering would be miscounted)")
                if not (held_at(toks, XL, resets[0]) and held_at(toks, XL, tags[0])):
                    why.append("reset/tag update outside the lock")
        else:
            k = "not-last"
            # 'spin' = an acquire load of the tag compared with a value that is itself a load of the tag; that
            # other value must be the one read under the lock: every evaluation of the spin test performs exactly
            # one load outside the lock (its acquire load), all remaining loads of the tag are inside the lock
            spins = [t for t in toks if t[0] == "if" and t[1] == "spin"]
            outside = [i for i in reads if not held_at(toks, XL, i)]
            if not spins or spins[-1][2] is not False or len(outside) != len(spins) or \
                    any("acquire" not in (toks[i][2] or "") for i in outside):
                why.append("waiter does not leave through an acquire-load of the tag that differs from the one read under the lock")
            if any(t[0] in ("st", "ast") and not _is_inc(t, XCNT) for t in toks):
                why.append("non-last arriver writes barrier state")
        if held_at(toks, XL, len(toks)):
            why.append("returns holding the lock")
        kinds.add(k)
        rep.ob("R3", "xstream barrier (no pthread) %s arriver [%s]" % (k, show(toks)[:300]), not why, "; ".join(why),
               loc=F.file, site="xstream_barrier_wait/nopthread/%s" % k)
    rep.ob("R3", "sense-reversal barrier has both arms", kinds == {"last", "not-last"}, str(kinds), loc=F.file,
           site="xstream_barrier_wait/nopthread/kinds")


def run(P, rep, tier):
    common.rule_X7(P, rep, records=('ABTI_barrier', 'ABTI_xstream_barrier'))
    common.rule_X6(P, rep)
    common.rule_widths(P, rep, [('ABTI_barrier', 'counter'), ('ABTI_barrier', 'num_waiters'), ('ABTI_xstream_barrier', 'counter'), ('ABTI_xstream_barrier', 'tag'), ('ABTI_xstream_barrier', 'num_waiters')])
    common.rule_X4(P, rep)
    common.run_shared(P, rep)
    rule_R1_R2(P, rep)
    rule_R3(P, rep)
    from . import C06
    common.borrow(rep, P, C06.rule_R2, "R4")
    common.borrow(rep, P, C06.rule_R1_R3_R4, "R5")
    from . import C17
    common.borrow(rep, P, C17.rule_R10, "R6")
    common.borrow(rep, P, C06.rule_R5, "R7")
    from . import c06_refs
    common.borrow(rep, P, c06_refs.rule_R9, "R8")
    from . import C07
    common.borrow(rep, P, C07.rule_R10, "R9")
