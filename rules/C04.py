"""C04 -- ABT_mutex: mutual exclusion, recursion bookkeeping, no lost wakeup
(structural part)."""
import re

from abtverif import canon, cfg, locks, seq, tables
from abtverif.seq import idx, is_call, is_acq, is_rel, is_xfer, held_at, show, has_if
from . import common

EXPLANATION = (
    "Decides the code shape that makes ABT_mutex free of lost wakeups and keeps its recursion bookkeeping "
    "consistent, on every path: R1 unlock releases the mutex word before broadcasting to the wait list and does "
    "both inside one waiter_lock critical section; R2 the lock slow path enqueues only after re-trying the mutex "
    "word under waiter_lock and leaves only after a successful try; R3 the wait-list enqueue links the node before "
    "the lock is handed over / released and the external-thread arm re-tests READY under the lock before each futex "
    "wait; R4 lock/trylock/spinlock/unlock agree on the owner/nesting protocol; R5 trylock reports success iff the "
    "mutex word was acquired; R6 the eight public entry points route to the three internal functions with their own "
    "mutex; R7 every wait-list operation on a mutex's list holds waiter_lock.  Fairness/progress is not decided."
    ' R4 also demands that the nesting counter is at least as wide as int.  R10 (= C05.R1): a condition wait re-acquires the mutex through ABTI_mutex_lock, so the recursive bookkeeping survives a wait.')
DECLINED = ["'eventually acquires' (fairness / progress)",
            "memory images of ABT_MUTEX_INITIALIZER beyond the attribute constants"]
ASSUMPTIONS = ["X2: the spinlock primitives are a correct test-and-set lock", "C02.R3/C05.R5 for the blocking arms"]
RULES_DOC = dict(common.SHARED_DOC)
RULES_DOC["X7"] = common.X7_DOC
RULES_DOC["X4"] = common.X4_DOC
RULES_DOC["R10"] = "= C05.R1: a condition wait releases the mutex through ABTI_mutex_unlock, enqueues, and re-acquires through ABTI_mutex_lock (the recursive-mutex bookkeeping is kept across a wait); error paths return holding the mutex"
RULES_DOC["R11"] = "the identity compared with owner_id is the calling work unit: ABTI_self_get_thread_id returns the stream's current work unit (ABTI_xstream::p_thread), or a per-OS-thread address for an external thread -- never something several work units share (two ULTs of one stream must not both look like the owner of a recursive mutex)"
RULES_DOC["X6"] = common.X6_DOC
RULES_DOC.update({
    "R1": "unlock_no_recursion: release(lock) before broadcast, both inside the waiter_lock section",
    "R2": "lock_no_recursion: enqueue only after acquire(waiter_lock) and a failed re-try of the mutex word in the same section; returns only after a successful try with waiter_lock released",
    "R3": "ABTI_waitlist_wait_and_unlock: node linked before the lock is released/handed over; external arm tests READY under the lock before each futex wait",
    "R4": "owner_id / nesting_cnt protocol agrees across lock, trylock, spinlock and unlock",
    "R5": "trylock_no_recursion returns ABT_SUCCESS iff try_acquire returned 0",
    "R6": "public ABT_mutex_* entry points call the matching internal function once with the mutex they were given",
    "R7": "all wait-list operations on ABTI_mutex::waitlist hold ABTI_mutex::waiter_lock",
    "R8": "attribute plumbing: set_recursive sets/clears exactly the RECURSIVE bit, get reads it, create_with_attr/get_attr copy attrs, init clears owner/nesting",
    "R9": "wait-list waiters and wakers classify a unit as yieldable through the same type-checked accessor (never the unchecked cast)",
})
VARIANTS = ["simple_mutex", "active_wait", "no_ext_thread", "no_linux_futex", "tool_interface"]

MH = "src/include/abti_mutex.h"
LOCK, WLOCK = "ABTI_mutex::lock", "ABTI_mutex::waiter_lock"
TRY = "ABTD_spinlock_try_acquire(&ABTI_mutex::lock)"


_LOCK_TABLES = {"acq": tables.LOCK_ACQUIRE, "rel": tables.LOCK_RELEASE, "xfer": tables.LOCK_RELEASE_TRANSFER,
                "try": tables.LOCK_COND_ACQUIRE}


def canon_locks(F, toks):
    """Engine feature emulated locally: the lock tokens of seq identify a lock passed through a local pointer as
    'var:<local>'.  Re-identify such a lock by the canonical value of the pointer (`ABTD_spinlock *l = &p->lock`
    gives 'Rec::lock', a copy of a parameter gives 'var:<parameter>'), so that a temporary does not matter."""
    out = []
    for t in toks:
        if t[0] in _LOCK_TABLES:
            k = 1 if t[0] in ("acq", "rel") else 2
            if t[k].startswith("var:"):
                nd = F.nodes[t[-1]]
                v = canon.expr(F, nd["a"][_LOCK_TABLES[t[0]][nd["fn"]]])
                if v.startswith("&") and "::" in v:
                    t = t[:k] + (v[1:],) + t[k + 1:]
                elif re.match(r"^[A-Za-z_]\w*$", v):
                    t = t[:k] + ("var:" + v,) + t[k + 1:]
        out.append(t)
    return tuple(out)


def ret_paths(F, sel, **kw):
    """Returning paths of F with canonical lock identities."""
    return [(canon_locks(F, p[0]),) + tuple(p[1:]) for p in seq.sequences(F, sel, **kw) if p[1] == "ret"]


def call_args(F, tok):
    """Canonical (local-name independent) values of the arguments of the call behind a call/xfer token."""
    return [canon.expr(F, a) for a in F.nodes[tok[-1]]["a"]]


def lock_key_is(F, key, want):
    """Does the LockTS key (rendered text of a lock argument) denote the lock whose canonical value is `want`?
    A local pointer is resolved through its definitions."""
    if re.match(r"^[A-Za-z_]\w*$", key):
        ds = F.var_defs(key)
        if ds and all(d is not None for d in ds):
            return set(canon.expr(F, d) for d in ds) == {want}
    return False


def _try_cond(t):
    """Canonical label of a test of a try-acquire result: true = non-zero = the try FAILED.  Independent of the
    polarity / spelling of the test (`!try`, `try == 0`, `try != 0`) and of a local that holds the result."""
    if t == TRY:
        return "try-failed"
    if "_try_acquire(" in t:
        return "try-other:" + t
    return None


def _is_try(t):
    return t[0] == "if" and (t[1] == "try-failed" or t[1].startswith("try-other:"))


def rule_R1(P, rep, simple):
    F = P.fn("ABTI_mutex_unlock_no_recursion", MH)
    sel = seq.Sel(calls=lambda fn: fn.startswith("ABTI_waitlist_"))
    ps = ret_paths(F, sel)
    rep.need(ps, "unlock_no_recursion has no returning path")
    for toks, kind, rv, rtxt in ps:
        why = []
        rl = idx(toks, is_rel(LOCK))
        if len(rl) != 1:
            why.append("mutex word released %d times" % len(rl))
        if not simple:
            bc = idx(toks, is_call("ABTI_waitlist_broadcast"))
            if len(bc) != 1:
                why.append("%d broadcasts" % len(bc))
            elif rl:
                if not rl[0] < bc[0]:
                    why.append("wait-list broadcast before the mutex word is released (woken waiters would fail their re-try and sleep again)")
                if not (held_at(toks, WLOCK, rl[0]) and held_at(toks, WLOCK, bc[0])):
                    why.append("release/broadcast not inside one waiter_lock critical section")
                if any(t[0] in ("acq", "rel") and t[1] == WLOCK for t in toks[rl[0]:bc[0]]):
                    why.append("waiter_lock dropped between the release and the broadcast")
                if "&ABTI_mutex::waitlist" not in call_args(F, toks[bc[0]]):
                    why.append("broadcast on %s" % (call_args(F, toks[bc[0]]),))
            if held_at(toks, WLOCK, len(toks)):
                why.append("returns holding waiter_lock")
        rep.ob("R1", "unlock_no_recursion path [%s]" % show(toks), not why, "; ".join(why),
               loc="%s:%d" % (F.file, F.line), site="unlock_no_recursion/%s" % show(toks))


def rule_R2(P, rep, simple):
    F = P.fn("ABTI_mutex_lock_no_recursion", MH)
    if simple:
        # yield-based: returns only after a successful try / spinlock acquire
        sel = seq.Sel(calls={"ABTI_ythread_yield"}, conds=_try_cond, canon=True)
        ps = ret_paths(F, sel)
        rep.need(ps, "lock_no_recursion(simple) has no path")
        for toks, kind, rv, rtxt in ps:
            tries = [t for t in toks if _is_try(t)]
            ok = (tries and tries[-1][1] == "try-failed" and tries[-1][2] is False) or idx(toks, is_acq(LOCK))
            rep.ob("R2", "lock_no_recursion(simple) path [%s]" % show(toks), bool(ok),
                   "returns without having acquired the mutex word", loc="%s:%d" % (F.file, F.line),
                   site="lock_no_recursion/simple/%s" % show(toks))
        return
    sel = seq.Sel(calls=lambda fn: fn.startswith("ABTI_waitlist_"), conds=_try_cond, canon=True)
    ps = ret_paths(F, sel, max_repeat=3)
    rep.need(len(ps) >= 3, "lock_no_recursion: %d paths" % len(ps))
    enq = 0
    for toks, kind, rv, rtxt in ps:
        why = []
        tries = [i for i, t in enumerate(toks) if _is_try(t)]
        if not tries or toks[tries[-1]][2] is not False:
            why.append("returns although the last try of the mutex word failed")
        if any(toks[i][1] != "try-failed" for i in tries):
            why.append("tries a different lock")
        if held_at(toks, WLOCK, len(toks)):
            why.append("returns holding waiter_lock")
        for x in idx(toks, is_xfer(WLOCK)):
            enq += 1
            if toks[x][1] != "ABTI_waitlist_wait_and_unlock" or "&ABTI_mutex::waitlist" not in call_args(F, toks[x]):
                why.append("enqueue through %s on %s" % (toks[x][1], call_args(F, toks[x])))
            # last acquire of waiter_lock before x, and a failed try in between
            acqs = [i for i in idx(toks, is_acq(WLOCK)) if i < x]
            if not acqs:
                why.append("enqueue without acquiring waiter_lock")
                continue
            a = acqs[-1]
            if any(t[0] == "rel" and t[1] == WLOCK for t in toks[a:x]):
                why.append("waiter_lock released between its acquisition and the enqueue")
            inner = [i for i in tries if a < i < x]
            if not inner or toks[inner[-1]][2] is not True:
                why.append("enqueue without a failed re-try of the mutex word under waiter_lock (an unlock in "
                           "between would never wake this waiter)")
        for x in idx(toks, is_xfer(LOCK)):
            why.append("hands the mutex word itself to the wait function")
        rep.ob("R2", "lock_no_recursion path [%s]" % show(toks), not why, "; ".join(why),
               loc="%s:%d" % (F.file, F.line), site="lock_no_recursion/%s" % show(toks))
    rep.need(enq >= 1, "lock_no_recursion: no enqueueing path")


def rule_R3(P, rep, active_wait):
    F = P.fn("ABTI_waitlist_wait_and_unlock", "src/include/abti_waitlist.h")
    lockp = F.params[2]["n"]
    L = "var:" + lockp
    sel = seq.Sel(fields={"p_head", "p_tail", "p_next"}, calls={"ABTD_futex_wait_and_unlock"},
                  conds=lambda t: "ABTI_thread::state" in t, canon=True)
    ps = ret_paths(F, sel, max_len=100)
    rep.need(len(ps) >= 4, "wait_and_unlock: %d paths" % len(ps))
    for toks, kind, rv, rtxt in ps:
        why = []
        link = [i for i, t in enumerate(toks) if t[0] == "st" and t[1] == "ABTI_waitlist::p_tail"]
        first_release = [i for i, t in enumerate(toks) if (t[0] == "rel" and t[1] == L) or (t[0] == "xfer" and t[2] == L)]
        if len(link) != 1:
            why.append("node linked %d times" % len(link))
        elif not first_release or first_release[0] < link[0]:
            why.append("lock released before the waiter is linked into the list")
        # the ULT arm must hand the caller's lock to ABTI_ythread_suspend_unlock; the external arm to the futex wait
        for i, t in enumerate(toks):
            if t[0] == "xfer" and t[1] == "ABTD_futex_wait_and_unlock":
                # a READY test under the lock since the last (re)acquisition
                prev = [j for j in range(i) if toks[j][0] == "if" and "ABTI_thread::state" in toks[j][1] and
                        toks[j][1].endswith("== ABT_THREAD_STATE_READY")]
                last_acq = max([j for j in range(i) if toks[j][0] == "acq" and toks[j][1] == L] + [-1])
                if not prev or prev[-1] < last_acq:
                    why.append("futex wait without re-testing READY under the lock (sleeping while ready)")
                elif toks[prev[-1]][2] is not False or "relaxed_load" not in toks[prev[-1]][1] and "acquire_load" not in toks[prev[-1]][1]:
                    why.append("futex wait although READY was observed")
        if held_at(toks, L, len(toks), entry_held=True):
            why.append("returns holding the lock")
        rep.ob("R3", "wait_and_unlock path [%s]" % show(toks)[:300], not why, "; ".join(why),
               loc="%s:%d" % (F.file, F.line), site="wait_and_unlock/%s" % show(toks)[:300])
    rep.min_instances("R3", 4)


def _r4_cond(t):
    """Canonical labels of the tests of the recursive-mutex wrappers (names and polarity independent)."""
    if t == "ABTI_mutex::attrs & 1":
        return "recursive"
    if "ABTI_mutex::owner_id ==" in t and "ABTI_self_get_thread_id(" in t:
        return "owner==self"
    if t.startswith("ABTI_mutex_trylock_no_recursion("):
        return "try-failed"          # the result compared with ABT_SUCCESS (0): non-zero = failed
    if t == "ABTI_mutex::nesting_cnt":
        return "nested"              # nesting_cnt != 0
    return None


def rule_R4(P, rep):
    sel = seq.Sel(calls=lambda fn: fn.startswith("ABTI_mutex_") and fn.endswith("_no_recursion"),
                  fields={"owner_id", "nesting_cnt"}, conds=_r4_cond, locks=False, canon=True)
    lockers = {"ABTI_mutex_lock": "ABTI_mutex_lock_no_recursion", "ABTI_mutex_trylock": "ABTI_mutex_trylock_no_recursion",
               "ABTI_mutex_spinlock": "ABTI_mutex_spinlock_no_recursion"}
    for fn, inner in sorted(lockers.items()):
        F = P.fn(fn, MH)
        ps = [p for p in seq.sequences(F, sel) if p[1] == "ret"]
        rep.need(len(ps) >= 3, "%s: %d paths" % (fn, len(ps)))
        kinds = set()
        for toks, kind, rv, rtxt in ps:
            why = []
            calls = idx(toks, is_call(inner))
            other = [t for t in toks if t[0] == "call" and t[1] != inner]
            stores = [(t[1], t[2], t[3]) for t in toks if t[0] == "st"]
            if other:
                why.append("calls %s" % other[0][1])
            if not has_if(toks, "recursive", True):
                k = "plain"
                if len(calls) != 1 or stores:
                    why.append("a non-recursive mutex must only call %s" % inner)
            elif has_if(toks, "owner==self", False):
                k = "first"
                if len(calls) != 1:
                    why.append("first acquisition must call %s once" % inner)
                failed = fn == "ABTI_mutex_trylock" and has_if(toks, "try-failed", True)
                if failed:
                    k = "first-failed"
                    if stores:
                        why.append("owner/nesting written although trylock failed")
                else:
                    if not (len(stores) == 1 and stores[0][:2] == ("ABTI_mutex::owner_id", "=") and
                            str(stores[0][2]).startswith("ABTI_self_get_thread_id(")):
                        why.append("first acquisition must record the owner (stores: %s)" % stores)
                    else:
                        st = [i for i, t in enumerate(toks) if t[0] == "st"][0]
                        if calls and st < calls[0]:
                            why.append("owner recorded before the mutex is acquired")
                    if fn == "ABTI_mutex_trylock" and not has_if(toks, "try-failed", False):
                        why.append("owner recorded without testing the trylock result")
            else:
                k = "nested"
                if calls:
                    why.append("the owner re-acquires the mutex word (self-deadlock)")
                if stores != [("ABTI_mutex::nesting_cnt", "++", None)]:
                    why.append("nested acquisition must only increment nesting_cnt (stores: %s)" % stores)
                if fn == "ABTI_mutex_trylock" and rv != 0:
                    why.append("nested trylock must succeed")
            kinds.add(k)
            rep.ob("R4", "%s %s path [%s]" % (fn, k, show(toks)), not why, "; ".join(why),
                   loc="%s:%d" % (F.file, F.line), site="%s/%s" % (fn, k))
        missing = {"plain", "first", "nested"} - kinds
        rep.ob("R4", "%s distinguishes plain / first / nested acquisition" % fn, not missing, "missing: %s" % sorted(missing),
               loc="%s:%d" % (F.file, F.line), site="%s/cases" % fn)
    F = P.fn("ABTI_mutex_unlock", MH)
    ps = [p for p in seq.sequences(F, sel) if p[1] == "ret"]
    kinds = set()
    for toks, kind, rv, rtxt in ps:
        why = []
        calls = idx(toks, is_call("ABTI_mutex_unlock_no_recursion"))
        stores = [(t[1], t[2], t[3]) for t in toks if t[0] == "st"]
        if not has_if(toks, "recursive", True):
            k = "plain"
            if len(calls) != 1 or stores:
                why.append("a non-recursive mutex must only call unlock_no_recursion")
        elif has_if(toks, "nested", False):
            k = "last"
            if len(calls) != 1 or stores != [("ABTI_mutex::owner_id", "=", 0)]:
                why.append("last unlock must clear the owner and release once (stores %s, %d releases)" % (stores, len(calls)))
            else:
                st = [i for i, t in enumerate(toks) if t[0] == "st"][0]
                if st > calls[0]:
                    why.append("owner cleared after the mutex was released (the next owner's id may be overwritten)")
        else:
            k = "nested"
            if calls or stores != [("ABTI_mutex::nesting_cnt", "--", None)]:
                why.append("nested unlock must only decrement nesting_cnt (stores %s, releases %d)" % (stores, len(calls)))
        kinds.add(k)
        rep.ob("R4", "ABTI_mutex_unlock %s path [%s]" % (k, show(toks)), not why, "; ".join(why),
               loc="%s:%d" % (F.file, F.line), site="ABTI_mutex_unlock/%s" % k)
    missing = {"plain", "last", "nested"} - kinds
    rep.ob("R4", "ABTI_mutex_unlock distinguishes plain / last / nested release", not missing, "missing: %s" % sorted(missing),
           loc="%s:%d" % (F.file, F.line), site="ABTI_mutex_unlock/cases")
    # the nesting depth is bounded only by the counter's width: it must not be narrower than int
    fld = [f for f in P.record("ABTI_mutex")["fields"] if f["n"] == "nesting_cnt"]
    rep.need(len(fld) == 1 and "sz" in fld[0], "ABTI_mutex::nesting_cnt not found in the record layout")
    rep.ob("R4", "ABTI_mutex::nesting_cnt is at least as wide as int (nested acquisitions beyond 255/65535 levels do not wrap)",
           fld[0]["sz"] >= 4, "the field is %d byte(s) wide (%s): the count wraps and the mutex is released while still owned" %
           (fld[0]["sz"], fld[0]["t"]), loc="src/include/abti.h", site="nesting_cnt/width")
    rep.min_instances("R4", 16)


def rule_R5(P, rep):
    F = P.fn("ABTI_mutex_trylock_no_recursion", MH)
    tas = [i for _b, i in F.calls("ABTD_spinlock_try_acquire")]
    ok = len(tas) == 1 and F.field_of(F.nodes[tas[0]]["a"][0]) == ("ABTI_mutex", "lock")
    why = "must try ABTI_mutex::lock exactly once"
    if ok:
        ok, why = common._returns_zero_iff(P, F, tas[0])
    rep.ob("R5", "trylock_no_recursion returns ABT_SUCCESS iff try_acquire(ABTI_mutex::lock) returned 0", ok, why,
           loc="%s:%d" % (F.file, F.line), site="trylock_no_recursion")
    S = P.fn("ABTI_mutex_spinlock_no_recursion", MH)
    sel = seq.Sel()
    ps = [p for p in seq.sequences(S, sel) if p[1] == "ret"]
    ok = bool(ps) and all([t[:2] for t in toks] == [("acq", LOCK)] for toks, k, rv, r in ps)
    rep.ob("R5", "spinlock_no_recursion acquires ABTI_mutex::lock exactly once", ok, str([show(p[0]) for p in ps]),
           loc="%s:%d" % (S.file, S.line), site="spinlock_no_recursion")


def rule_R6(P, rep):
    table = {"ABT_mutex_lock": "ABTI_mutex_lock", "ABT_mutex_lock_low": "ABTI_mutex_lock",
             "ABT_mutex_lock_high": "ABTI_mutex_lock", "ABT_mutex_trylock": "ABTI_mutex_trylock",
             "ABT_mutex_spinlock": "ABTI_mutex_spinlock", "ABT_mutex_unlock": "ABTI_mutex_unlock",
             "ABT_mutex_unlock_se": "ABTI_mutex_unlock", "ABT_mutex_unlock_de": "ABTI_mutex_unlock"}
    internal = set(table.values())
    sel = seq.Sel(calls=lambda fn: fn in internal or fn.endswith("_no_recursion"), locks=False, canon=True)
    for fn, want in sorted(table.items()):
        F = P.fn(fn, "src/mutex.c")
        ps = [p for p in seq.sequences(F, sel) if p[1] == "ret"]
        n_ok = 0
        for toks, kind, rv, rtxt in ps:
            calls = [t for t in toks if t[0] == "call"]
            why = []
            if rv == 0:
                n_ok += 1
                if len(calls) != 1 or calls[0][1] != want:
                    why.append("success path calls %s" % [c[1] for c in calls])
                else:
                    # the mutex operated on is the routine's own argument (canonical value of the call's last
                    # argument, whatever the local holding the pointer is called)
                    m = canon.expr(F, F.nodes[calls[0][-1]]["a"][-1])
                    if m != "ABTI_mutex_get_ptr(%s)" % F.params[0]["n"]:
                        why.append("operates on %s, which is not derived from the routine's own argument" % m)
            elif rv is None and want == "ABTI_mutex_trylock":
                n_ok += 1
                if len(calls) != 1 or calls[0][1] != want:
                    why.append("trylock path calls %s" % [c[1] for c in calls])
                elif canon.expr(F, F.nodes[calls[0][-1]]["a"][-1]) != "ABTI_mutex_get_ptr(%s)" % F.params[0]["n"]:
                    why.append("operates on %s, which is not derived from the routine's own argument" %
                               canon.expr(F, F.nodes[calls[0][-1]]["a"][-1]))
            elif calls and rv not in (0, None):
                # error return after operating on the mutex is only legal for trylock's LOCKED
                if want != "ABTI_mutex_trylock":
                    why.append("returns error %s after %s" % (rv, calls[0][1]))
            rep.ob("R6", "%s path -> %s [%s]" % (fn, rtxt, show(toks)), not why, "; ".join(why),
                   loc="%s:%d" % (F.file, F.line), site="%s/%s" % (fn, rtxt))
        rep.need(n_ok >= 1, "%s has no success path" % fn)
    rep.min_instances("R6", 16)


def rule_R7(P, rep, simple):
    if simple:
        rep.skip("R7", "ABT_CONFIG_USE_SIMPLE_MUTEX: the mutex has no wait list")
        return
    n = 0
    for F in P.functions.values():
        sites = []
        for bid, nid in F.calls():
            nd = F.nodes[nid]
            fn = nd.get("fn") or ""
            if not fn.startswith("ABTI_waitlist_"):
                continue
            if any(F.field_of(a) == ("ABTI_mutex", "waitlist") or canon.expr(F, a) == "&ABTI_mutex::waitlist" for a in nd["a"]):
                sites.append(nid)
        if not sites:
            continue
        ts = locks.run_locks(P, F)
        for nid in sites:
            nd = F.nodes[nid]
            if nd["fn"] == "ABTI_waitlist_init":
                continue            # initialisation before the mutex is published
            n += 1
            helds = ts.at.get(nid, set())
            ok = bool(helds) and all(any(k.endswith("waiter_lock") or lock_key_is(F, k, "&" + WLOCK) for k in h)
                                     for h in helds)
            if nd["fn"] == "ABTI_waitlist_is_empty" and "ABTI_UB_ASSERT" in (nd.get("m") or []):
                ok = True
            rep.ob("R7", "%s calls %s on the mutex wait list under waiter_lock" % (F.name, nd["fn"]), ok,
                   "lock sets: %s" % sorted(sorted(h) for h in helds), loc=F.loc(nid), site="%s/%s" % (F.name, nd["fn"]))
    rep.need(n >= 2, "only %d wait-list operations on ABTI_mutex::waitlist found" % n)


def _bit_tests(F, field):
    """Canonical labels of every branch condition of F that mentions `field` ('Rec::name')."""
    out = []
    for b in F.blocks.values():
        if b.tc is not None and b.tk != "SwitchStmt":
            lab = canon.cond(F, cfg.cond_atom(F, b.tc, True)[0])[0]
            if field in lab:
                out.append(lab)
    return out


def rule_R8(P, rep):
    REC = None
    F = P.fn("ABT_mutex_attr_set_recursive", "src/mutex_attr.c")
    flag = F.params[1]["n"]
    # `flag == ABT_TRUE`, `flag`, `flag != ABT_FALSE`, `!flag` ... all arrive as one of two labels, true = enable
    sel = seq.Sel(fields={"attrs"}, conds=lambda t: "enable" if t in (flag, flag + " == 1") else None, locks=False,
                  canon=True)
    kinds = {}
    for toks, kind, rv, rtxt in seq.sequences(F, sel):
        if kind != "ret" or rv != 0:
            continue
        st = [t for t in toks if t[0] == "st" and t[1] == "ABTI_mutex_attr::attrs"]
        on = has_if(toks, "enable", True)
        kinds[on] = st
    ok = set(kinds) == {True, False} and all(len(v) == 1 for v in kinds.values())
    why = "expected one store on the enabling and one on the disabling path: %s" % {k: [x[1:4] for x in v] for k, v in kinds.items()}
    if ok:
        s_on, s_off = kinds[True][0], kinds[False][0]
        bit = s_on[3]
        ok = s_on[2] == "|=" and isinstance(bit, int) and bit != 0 and bit & (bit - 1) == 0
        why = "enabling path must OR in a single flag bit (got %s %s)" % (s_on[2], s_on[3])
        if ok:
            mask = s_off[3]
            # the clearing mask must be the complement of the flag (in the width of the attrs field)
            ok = s_off[2] == "&=" and isinstance(mask, int) and (mask & bit) == 0 and ((mask | bit) & 0xffffffff) == 0xffffffff
            why = "disabling path must AND with the complement of the flag bit %#x (got %s %s)" % (bit, s_off[2], s_off[3])
            REC = bit
    rep.ob("R8", "ABT_mutex_attr_set_recursive sets / clears exactly the RECURSIVE bit", ok, why, loc=F.file,
           site="attr_set_recursive")
    G = P.fn("ABT_mutex_attr_get_recursive", "src/mutex_attr.c")
    out = G.params[1]["n"]
    bit_labels = ("ABTI_mutex_attr::attrs & %s" % REC, "%s & ABTI_mutex_attr::attrs" % REC)
    sel = seq.Sel(derefs={out}, conds=lambda t: "bit" if t in bit_labels else ("attrs:" + t if "ABTI_mutex_attr::attrs" in t else None),
                  locks=False, canon=True)
    seen = {}
    why = []
    for toks, kind, rv, rtxt in seq.sequences(G, sel):
        if kind != "ret" or rv != 0:
            continue
        tests = [t for t in toks if t[0] == "if"]
        dst = [t for t in toks if t[0] == "dst"]
        if len(tests) != 1 or tests[0][1] != "bit":
            why.append("tests of the attribute word on one path: %s" % [t[1] for t in tests])
        elif len(dst) != 1 or dst[0][2] != (1 if tests[0][2] else 0):
            why.append("reports %s when the bit is %s" % ([t[2] for t in dst], "set" if tests[0][2] else "clear"))
        else:
            seen[tests[0][2]] = dst[0][2]
    ok = REC is not None and not why and seen == {True: 1, False: 0}
    rep.ob("R8", "ABT_mutex_attr_get_recursive reports TRUE exactly when the bit is set", ok,
           "; ".join(sorted(set(why))) or "reported values by bit state: %s" % seen, loc=G.file, site="attr_get_recursive")
    for fn, lhs, getter, rhs in (("ABT_mutex_create_with_attr", "ABTI_mutex::attrs", "ABTI_mutex_attr_get_ptr", "attrs"),
                                 ("ABT_mutex_get_attr", "ABTI_mutex_attr::attrs", "ABTI_mutex_get_ptr", "attrs")):
        H = P.fn(fn, "src/mutex.c")
        # the word stored is the one of the object named by the routine's own handle argument
        want = (lhs, "%s(%s)->%s" % (getter, H.params[0]["n"], rhs))
        st = [(H.fieldpath(l), canon.rooted(H, r)) for b, i, l, r in H.stores() if r is not None and
              (H.field_of(l) or ("", ""))[1] == "attrs"]
        rep.ob("R8", "%s copies the attribute word" % fn, want in st, str(st), loc=H.file, site=fn + "/copy")
    I = P.fn("ABTI_mutex_init", MH)
    st = {I.fieldpath(l): I.nodes[I.strip(r)].get("cv") for b, i, l, r in I.stores() if r is not None}
    ok = st.get("ABTI_mutex::attrs") == 0 and st.get("ABTI_mutex::nesting_cnt") == 0 and st.get("ABTI_mutex::owner_id") == 0
    rep.ob("R8", "ABTI_mutex_init starts non-recursive with no owner and no nesting", ok, str(st), loc=I.file, site="mutex_init")
    # the recursion test used by lock/trylock/spinlock/unlock is the same bit
    for fn in ("ABTI_mutex_lock", "ABTI_mutex_trylock", "ABTI_mutex_spinlock", "ABTI_mutex_unlock"):
        L = P.fn(fn, MH)
        tests = _bit_tests(L, "ABTI_mutex::attrs")
        ok = len(tests) >= 1 and all(t in ("ABTI_mutex::attrs & %s" % REC, "%s & ABTI_mutex::attrs" % REC) for t in tests)
        rep.ob("R8", "%s tests the same RECURSIVE bit that set_recursive writes" % fn, ok and REC is not None,
               "tests: %s, bit %s" % (tests, REC), loc=L.file, site=fn + "/bit")


def rule_R9(P, rep):
    WL = "src/include/abti_waitlist.h"
    for fn in ("ABTI_waitlist_wait_and_unlock", "ABTI_waitlist_wait_timedout_and_unlock", "ABTI_waitlist_signal",
               "ABTI_waitlist_broadcast"):
        F = P.fn(fn, WL)
        checked = F.calls("ABTI_thread_get_ythread_or_null")
        unchecked = F.calls("ABTI_thread_get_ythread")
        rep.ob("R9", "%s decides 'yieldable' with the type-checked accessor only" % fn, bool(checked) and not unchecked,
               "checked casts %d, unchecked casts at %s (a tasklet treated as a ULT is suspended on a context it does not have)" %
               (len(checked), [F.loc(i) for b, i in unchecked]), loc="%s:%d" % (F.file, F.line), site=fn + "/classification")


def rule_R11(P, rep):
    F = P.fn("ABTI_self_get_thread_id", "src/include/abti_self.h")
    sel = seq.Sel(conds=lambda t: t.startswith("ABTI_local_get_xstream_or_null("), rets=True, canon=True, locks=False)
    n = 0
    for toks, kind, rv, rtxt in seq.sequences(F, sel):
        if kind != "ret":
            continue
        n += 1
        on_stream = not any(t[0] == "if" and not t[2] for t in toks)
        if on_stream:
            ok = (rtxt or "").endswith("ABTI_xstream::p_thread")
            why = "on an execution stream the id is `%s`, not the current work unit" % rtxt
        else:
            ok = "ABTI_local_get_local_ptr(" in (rtxt or "")
            why = "for an external thread the id is `%s`" % rtxt
        rep.ob("R11", "ABTI_self_get_thread_id identifies the calling work unit (%s)" % ("on a stream" if on_stream else "external thread"),
               ok, why, loc="%s:%d" % (F.file, F.line), site="self_get_thread_id/%s" % ("stream" if on_stream else "ext"))
    rep.need(n >= 1, "ABTI_self_get_thread_id: no returning path")


def run(P, rep, tier):
    common.rule_X7(P, rep, records=('ABTI_mutex', 'ABTI_mutex_attr'))
    common.rule_X6(P, rep)
    common.rule_X4(P, rep)
    v = P.variant
    simple = v == "simple_mutex"
    common.run_shared(P, rep)
    rule_R1(P, rep, simple)
    rule_R2(P, rep, simple)
    rule_R3(P, rep, v == "active_wait")
    rule_R4(P, rep)
    rule_R5(P, rep)
    rule_R6(P, rep)
    rule_R7(P, rep, simple)
    rule_R8(P, rep)
    rule_R9(P, rep)
    rule_R11(P, rep)
    from . import C05        # lazy: C05 imports helpers of this module
    common.borrow(rep, P, C05.rule_R1, "R10")
