"""C05 -- condition variables (structural part)."""
from abtverif import canon, cfg, seq
from abtverif.seq import idx, is_call, is_acq, is_rel, is_xfer, held_at, show, has_if, count_if
from . import common
from .C04 import ret_paths, call_args

EXPLANATION = (
    "Decides on every path of ABTI_cond_wait / ABT_cond_timedwait that the mutex is released inside the "
    "critical section of the condition's own lock and that the wait-list enqueue (a lock-transferring wait) "
    "follows with no release in between (R1: atomic release-and-wait), that signal/broadcast run their "
    "wait-list operation inside that same lock (R2), that the signal removes at most the head and saves the "
    "successor before waking (R3), that broadcast visits every node once and empties the list (R4), that the "
    "blocking arms of both wait functions can only be left through a READY observation or a passed deadline test "
    "(R5) and that the timed wait maps is_timedout to ABT_ERR_COND_TIMEDOUT (R6).  It decides these orderings, "
    "not the behaviour of histories.")
DECLINED = ["'wakes exactly one current waiter' as a statement about histories",
            "spurious wakeups caused by user-defined schedulers resuming a blocked ULT"]
ASSUMPTIONS = ["C02.R3 (BLOCKED published after the context is saved) and C04 (mutex) hold",
               "ABTD_futex_* behave like Linux futex wait/wake"]
RULES_DOC = dict(common.SHARED_DOC)
RULES_DOC["X7"] = common.X7_DOC
RULES_DOC["X4"] = common.X4_DOC
RULES_DOC["R7"] = "= C19.R2/R3: a timed-out waiter is unlinked completely (both neighbours, head and tail) before the wait returns: a later signal is not consumed by a stale node"
RULES_DOC["X5"] = common.X5_DOC
RULES_DOC["X6"] = common.X6_DOC
RULES_DOC["R9"] = "= C12.R3: a waiter with a pending cancel request is not terminated inside the suspend callback: it would stay linked in the wait list and the next signal would be consumed by (and resume) a unit that no longer waits"
RULES_DOC["R8"] = "= C19.R9: the deadline handed to the timed wait is the instant the caller's timespec names"
RULES_DOC.update({
    "R1": "wait/timedwait: mutex unlock inside the cond-lock section, then lock-transferring enqueue on the same cond, mutex re-locked last",
    "R2": "signal/broadcast: exactly one wait-list operation bracketed by the cond lock",
    "R3": "ABTI_waitlist_signal: head only, successor saved before wake-up, tail reset when emptied, external waiter gets release-store READY + futex broadcast",
    "R4": "ABTI_waitlist_broadcast: every node woken once, head and tail nulled, futex broadcast iff a non-yieldable waiter was seen",
    "R5": "blocking arms of the wait functions are left only after observing READY (or through the timeout code behind a passed deadline test)",
    "R6": "ABT_cond_timedwait returns ABT_ERR_COND_TIMEDOUT iff is_timedout",
})
VARIANTS = ["active_wait", "no_ext_thread", "no_linux_futex", "simple_mutex", "tool_interface"]

WAITLIST_H = "src/include/abti_waitlist.h"
CLOCK = "ABTI_cond::lock"


def _arg(F, tok, k):
    """Canonical (local-name independent) value of argument k of the call behind a call/xfer token."""
    return canon.expr(F, F.nodes[tok[-1]]["a"][k])


def rule_R1(P, rep):
    sel = seq.Sel(calls={"ABTI_mutex_unlock", "ABTI_mutex_lock", "ABTI_waitlist_signal",
                         "ABTI_waitlist_broadcast"})
    for fn, waitfn in (("ABTI_cond_wait", "ABTI_waitlist_wait_and_unlock"),
                       ("ABT_cond_timedwait", "ABTI_waitlist_wait_timedout_and_unlock")):
        F = P.fn(fn)
        ps = ret_paths(F, sel)
        waits = 0
        for toks, kind, rv, rtxt in ps:
            why = []
            xf = idx(toks, is_xfer(CLOCK))
            un = idx(toks, is_call("ABTI_mutex_unlock"))
            lk = idx(toks, is_call("ABTI_mutex_lock"))
            if xf or un or lk:
                waits += 1
                if len(xf) != 1 or len(un) != 1 or len(lk) != 1:
                    why.append("expected exactly one unlock, one enqueue and one re-lock")
                else:
                    u, x, l = un[0], xf[0], lk[0]
                    if toks[x][1] != waitfn:
                        why.append("enqueue through %s instead of %s" % (toks[x][1], waitfn))
                    if not (u < x < l):
                        why.append("order must be unlock < enqueue < re-lock")
                    if not held_at(toks, CLOCK, u):
                        why.append("mutex released while the condition's lock is not held")
                    if any(t[0] in ("rel", "acq") and t[1] == CLOCK for t in toks[u:x]):
                        why.append("condition lock released/re-acquired between the mutex unlock and the enqueue")
                    if "&ABTI_cond::waitlist" not in call_args(F, toks[x]):
                        why.append("enqueue on %s, not on the condition's own wait list" % (call_args(F, toks[x]),))
                    # the same mutex object (canonical value of the argument, not the name of a local)
                    mu, ml = _arg(F, toks[u], -1), _arg(F, toks[l], -1)
                    if mu != ml:
                        why.append("unlocks %s but re-locks %s" % (mu, ml))
                    if l != max(i for i, t in enumerate(toks) if t[0] in ("call", "acq", "rel", "xfer")):
                        why.append("the mutex re-lock is not the last effect")
                    if rv is not None and rv != 0 and fn == "ABTI_cond_wait":
                        why.append("error return after waiting")
            else:
                # no wait on this path: must be an error return that leaves the lock released
                if rv == 0:
                    why.append("returns success without waiting")
                if held_at(toks, CLOCK, len(toks)):
                    why.append("returns with the condition lock held")
                if idx(toks, is_call({"ABTI_waitlist_signal", "ABTI_waitlist_broadcast"})):
                    why.append("touches the wait list on an error path")
            rep.ob("R1", "%s path [%s] -> %s" % (fn, show(toks), rtxt), not why, "; ".join(why),
                   loc="%s:%d" % (F.file, F.line), site="%s/%s" % (fn, show(toks)))
        rep.need(waits >= 1, "%s: no waiting path found" % fn)
    # ABT_cond_wait forwards to ABTI_cond_wait with its own arguments
    F = P.fn("ABT_cond_wait")
    cs = F.calls("ABTI_cond_wait")
    want = ["ABTI_cond_get_ptr(%s)" % F.params[0]["n"], "ABTI_mutex_get_ptr(%s)" % F.params[1]["n"]]
    got = [canon.expr(F, a) for a in F.nodes[cs[0][1]]["a"]][1:] if len(cs) == 1 else None
    rep.ob("R1", "ABT_cond_wait forwards (p_cond, p_mutex) to ABTI_cond_wait", got == want, "forwards %s" % (got,),
           loc="%s:%d" % (F.file, F.line), site="ABT_cond_wait/forward")
    rep.min_instances("R1", 7)


def rule_R2(P, rep):
    sel = seq.Sel(calls={"ABTI_waitlist_signal", "ABTI_waitlist_broadcast", "ABTI_cond_broadcast"})
    for fn, op in (("ABT_cond_signal", "ABTI_waitlist_signal"), ("ABTI_cond_broadcast", "ABTI_waitlist_broadcast")):
        F = P.fn(fn)
        n = 0
        for toks, kind, rv, rtxt in ret_paths(F, sel):
            ops = idx(toks, is_call({"ABTI_waitlist_signal", "ABTI_waitlist_broadcast"}))
            why = []
            if rv in (0, None):
                n += 1
                if len(ops) != 1 or toks[ops[0]][1] != op:
                    why.append("expected exactly one %s" % op)
                elif not held_at(toks, CLOCK, ops[0]) or "&ABTI_cond::waitlist" not in call_args(F, toks[ops[0]]):
                    why.append("wait-list operation outside the condition's lock or on another list")
                if held_at(toks, CLOCK, len(toks)):
                    why.append("returns holding the lock")
            elif ops:
                why.append("wakes waiters on an error path")
            rep.ob("R2", "%s path [%s] -> %s" % (fn, show(toks), rtxt), not why, "; ".join(why),
                   loc="%s:%d" % (F.file, F.line), site="%s/%s" % (fn, show(toks)))
        rep.need(n >= 1, "%s: no success path" % fn)
    F = P.fn("ABT_cond_broadcast")
    cs = F.calls("ABTI_cond_broadcast")
    got = canon.expr(F, F.nodes[cs[0][1]]["a"][1]) if len(cs) == 1 else None
    rep.ob("R2", "ABT_cond_broadcast calls ABTI_cond_broadcast(p_local, p_cond) once",
           got == "ABTI_cond_get_ptr(%s)" % F.params[0]["n"], "operates on %s" % (got,), loc="%s:%d" % (F.file, F.line),
           site="ABT_cond_broadcast/forward")
    rep.min_instances("R2", 4)


HEAD = "ABTI_waitlist::p_head"
NEXT = "ABTI_thread::p_next"
STATE = "ABTI_thread::state"
YCAST = "ABTI_thread_get_ythread_or_null("
# the walking cursor of the broadcast loop: the head on the first iteration, the saved successor afterwards
CURSOR = "{%s | %s}" % tuple(sorted((HEAD, NEXT)))


def _sig_cond(t):
    """Canonical labels of ABTI_waitlist_signal (independent of local names and of the polarity of a test)."""
    if t == HEAD:
        return "nonempty"            # head != NULL
    if t == NEXT:
        return "has-next"            # saved successor != NULL
    if t.startswith(YCAST):
        return "yieldable"
    return None


def _bc_cond(t):
    """Canonical labels of ABTI_waitlist_broadcast: every test of the walking cursor is `more`."""
    if t in (HEAD, NEXT, CURSOR):
        return "more"
    if t.startswith(YCAST):
        return "yieldable"
    if t == "{0 | 1}":
        return "woke-nonyieldable"   # a local flag that is only ever assigned FALSE / TRUE
    return None


def _wl_sel(cond):
    return seq.Sel(calls={"ABTI_ythread_resume_and_push", "ABTD_futex_broadcast"},
                   fields={"p_head", "p_tail", "p_next", "state"}, conds=cond, reads={NEXT}, canon=True)


def _is_wake(t):
    return (t[0] == "call" and t[1] == "ABTI_ythread_resume_and_push") or (t[0] == "ast" and t[2] == STATE)


def _is_succ_read(t):
    return t[0] == "rd" and t[1] == NEXT


def _read_base(F, tok):
    """Canonical value of the pointer whose p_next a ('rd', ...) token loads."""
    mem = F.nodes[F.strip(F.nodes[tok[-1]]["e"], loads=False)]
    return canon.expr(F, mem["b"]) if mem.get("k") == "mem" else "?"


def _woken(F, tok):
    """Canonical value of the ABTI_thread pointer a wake-up token acts on."""
    nd = F.nodes[tok[-1]]
    if tok[0] == "call":
        v = canon.expr(F, nd["a"][1])
        return v[len(YCAST):-1] if v.startswith(YCAST) and v.endswith(")") else v
    a = F.nodes[F.strip(nd["a"][0])]
    if a.get("k") == "un" and a["op"] == "&":
        a = F.nodes[F.strip(a["e"])]
    return canon.expr(F, a["b"]) if a.get("k") == "mem" else "?"


def rule_R3(P, rep, active_wait=False):
    F = P.fn("ABTI_waitlist_signal", WAITLIST_H)
    READY = P.enum_consts["ABT_THREAD_STATE_READY"]
    wl = F.params[1]["n"]
    ps = [p for p in seq.sequences(F, _wl_sel(_sig_cond)) if p[1] == "ret"]
    rep.need(len(ps) >= 3, "ABTI_waitlist_signal: %d paths" % len(ps))
    for toks, kind, rv, rtxt in ps:
        why = []
        wakes = idx(toks, _is_wake)
        reads = idx(toks, _is_succ_read)
        empty = not has_if(toks, "nonempty", True)
        if empty:
            if wakes or any(t[0] == "st" for t in toks):
                why.append("empty list but something is woken or written")
        else:
            if len(wakes) != 1:
                why.append("%d wake-ups on one signal" % len(wakes))
            else:
                w = wakes[0]
                # the successor is loaded from the head before the wake-up and never re-read afterwards
                if not reads or reads[0] > w:
                    why.append("successor not saved before the waiter is woken (it may be freed)")
                elif any(canon.rooted(F, F.nodes[toks[r][-1]]["e"]) != "%s->p_head->p_next" % wl for r in reads):
                    why.append("successor read from %s, not from the head" %
                               [canon.rooted(F, F.nodes[toks[r][-1]]["e"]) for r in reads])
                if _woken(F, toks[w]) != HEAD:
                    why.append("wakes %s, not the head of the list" % _woken(F, toks[w]))
                if toks[w][0] == "ast":
                    if "release" not in toks[w][1] or toks[w][3] != READY:
                        why.append("external waiter not made READY with a release store")
                    fb = idx(toks, is_call("ABTD_futex_broadcast"))
                    if not active_wait and (not fb or fb[0] < w):
                        why.append("no futex broadcast after READY")
                hs = [i for i, t in enumerate(toks) if t[0] == "st" and t[1] == "ABTI_waitlist::p_head"]
                if len(hs) != 1 or toks[hs[0]][3] != NEXT or any(r > w for r in reads):
                    why.append("head not advanced to the saved successor")
                tails = [t for t in toks if t[0] == "st" and t[1] == "ABTI_waitlist::p_tail"]
                if has_if(toks, "has-next", False):
                    if len(tails) != 1 or tails[0][3] != 0:
                        why.append("list emptied but tail not reset")
                elif has_if(toks, "has-next", True):
                    if tails:
                        why.append("tail written although the list is not empty")
                else:
                    why.append("does not test whether the removed waiter was the last one (tail would dangle)")
        rep.ob("R3", "ABTI_waitlist_signal path [%s]" % show(toks), not why, "; ".join(why),
               loc="%s:%d" % (F.file, F.line), site="signal/%s" % show(toks))
    rep.min_instances("R3", 3)


def rule_R4(P, rep, active_wait=False):
    F = P.fn("ABTI_waitlist_broadcast", WAITLIST_H)
    READY = P.enum_consts["ABT_THREAD_STATE_READY"]
    ps = [p for p in seq.sequences(F, _wl_sel(_bc_cond), max_len=120) if p[1] == "ret"]
    rep.need(len(ps) >= 4, "ABTI_waitlist_broadcast: %d paths" % len(ps))
    for toks, kind, rv, rtxt in ps:
        why = []
        empty = count_if(toks, "more", True) == 0
        wakes = [t for t in toks if _is_wake(t)]
        if empty:
            if wakes or any(t[0] == "st" for t in toks):
                why.append("empty list but something is woken or written")
        else:
            # one wake-up per visited node; a node is visited when its successor link is loaded
            nodes = sum(1 for t in toks if _is_succ_read(t))
            if len(wakes) != nodes:
                why.append("%d nodes visited but %d wake-ups" % (nodes, len(wakes)))
            ext = [t for t in wakes if t[0] == "ast"]
            for t in ext:
                if "release" not in t[1] or t[3] != READY:
                    why.append("external waiter not made READY with a release store")
            hs = [t for t in toks if t[0] == "st" and t[1] == "ABTI_waitlist::p_head"]
            ts = [t for t in toks if t[0] == "st" and t[1] == "ABTI_waitlist::p_tail"]
            if not (len(hs) == 1 and hs[0][3] == 0 and len(ts) == 1 and ts[0][3] == 0):
                why.append("head/tail not nulled exactly once")
            fb = idx(toks, is_call("ABTD_futex_broadcast"))
            if not active_wait:
                if bool(ext) != bool(fb):
                    why.append("futex broadcast %s although %d non-yieldable waiters were made READY" %
                               ("issued" if fb else "missing", len(ext)))
                if fb and wakes and fb[0] < max(i for i, t in enumerate(toks) if t in wakes):
                    why.append("futex broadcast before the last READY store")
            # successor saved before each wake-up: the k-th wake-up is preceded by k loads of a successor link,
            # the last of them from the very node that is woken
            seen = []
            k = 0
            for t in toks:
                if _is_succ_read(t):
                    seen.append(t)
                elif _is_wake(t):
                    k += 1
                    if len(seen) < k:
                        why.append("wake-up before the successor was saved")
                        break
                    base = _read_base(F, seen[-1])
                    if base not in (HEAD, CURSOR) or _woken(F, t) != base:
                        why.append("successor saved from %s but %s is woken" % (base, _woken(F, t)))
                        break
        rep.ob("R4", "ABTI_waitlist_broadcast path [%s]" % show(toks)[:400], not why, "; ".join(why),
               loc="%s:%d" % (F.file, F.line), site="broadcast/%s" % show(toks)[:300])
    rep.min_instances("R4", 4)


def _r5_cond(F):
    """Canonical labels of the tests of the blocking arms."""
    dl = [p["n"] for p in F.params if p["t"] == "double"]

    def cond(t):
        if STATE in t:
            # `state == READY` whichever way round it is written (a `!=` test arrives flipped)
            return "ready" if t.endswith("(&%s) == ABT_THREAD_STATE_READY" % STATE) else "state:" + t
        if "ABTI_get_wtime()" in t:
            # `now >= deadline` is `now < deadline` flipped
            if dl and t == "ABTI_get_wtime() < %s" % dl[0]:
                return ("deadline-passed", True)
            return "clock:" + t
        if YCAST in t:
            return "yieldable"
        return None
    return cond


def rule_R5(P, rep):
    """Blocking arms: from the enqueue (store to p_tail) every returning path of the
    wait functions observes state == READY last (or goes through the timeout code)."""
    for fn in ("ABTI_waitlist_wait_and_unlock", "ABTI_waitlist_wait_timedout_and_unlock"):
        F = P.fn(fn, WAITLIST_H)
        sel = seq.Sel(calls={"ABTI_ythread_yield", "ABTD_futex_wait_and_unlock", "ABTD_futex_timedwait_and_unlock",
                             "ABTI_get_wtime"},
                      fields={"p_tail"}, conds=_r5_cond(F), canon=True)
        ps = [p for p in seq.sequences(F, sel, max_len=120, max_repeat=2) if p[1] == "ret"]
        n = 0
        for toks, kind, rv, rtxt in ps:
            # the ULT arm of the untimed wait blocks inside ABTI_ythread_suspend_unlock (C02/C11)
            is_ult_suspend = any(t[0] == "xfer" and t[1] == "ABTI_ythread_suspend_unlock" for t in toks)
            if is_ult_suspend:
                continue
            n += 1
            why = []
            states = [t for t in toks if t[0] == "if" and (t[1] == "ready" or t[1].startswith("state:"))]
            timeout = [t for t in toks if t[0] == "if" and t[1] == "deadline-passed" and t[2]]
            if timeout:
                # left through the timeout code: decided by C19
                pass
            else:
                if not states:
                    why.append("returns without ever testing the waiter's state")
                else:
                    last = states[-1]
                    if not (last[1] == "ready" and last[2]):
                        why.append("last state test before returning is %s=%s" % (last[1], last[2]))
                if fn.endswith("timedout_and_unlock") and rv not in (0, None):
                    why.append("reports a timeout without passing the deadline test")
            rep.ob("R5", "%s path [%s] -> %s" % (fn, show(toks)[:300], rtxt), not why, "; ".join(why),
                   loc="%s:%d" % (F.file, F.line), site="%s/%s" % (fn, show(toks)[:300]))
        rep.need(n >= 2, "%s: %d blocking paths" % (fn, n))
    rep.min_instances("R5", 6)


TIMED_WAIT = "ABTI_waitlist_wait_timedout_and_unlock"


def rule_R6(P, rep):
    F = P.fn("ABT_cond_timedwait")
    T = P.macro_int("ABT_ERR_COND_TIMEDOUT")
    rep.need(T, "ABT_ERR_COND_TIMEDOUT not found in abt.h")
    # the tested value is looked through to its origin: the result of the timed wait, whatever the local is called
    sel = seq.Sel(calls={"ABTI_mutex_lock"}, conds=lambda t: "timedout" if t.startswith(TIMED_WAIT + "(") else None,
                  canon=True)
    n = 0
    for toks, kind, rv, rtxt in seq.sequences(F, sel):
        if kind != "ret" or not idx(toks, is_call("ABTI_mutex_lock")):
            continue
        n += 1
        tt = [t for t in toks if t[0] == "if" and t[1] == "timedout"]
        ok = len(tt) == 1 and ((tt[0][2] and rv == T) or (not tt[0][2] and rv == 0))
        rep.ob("R6", "timedwait path is_timedout=%s returns %s" % (tt[0][2] if tt else "?", rv), ok,
               "must return ABT_ERR_COND_TIMEDOUT(%d) iff is_timedout" % T, loc="%s:%d" % (F.file, F.line),
               site="ABT_cond_timedwait/ret/%s" % (tt[0][2] if tt else "?"))
    # is_timedout is the result of the timed wait: one call, and its value (not something else) decides the return
    calls = F.calls(TIMED_WAIT)
    tests = [b for b in F.blocks.values() if b.tc is not None and
             canon.cond(F, cfg.cond_atom(F, b.tc, True)[0])[0].startswith(TIMED_WAIT + "(")]
    rep.ob("R6", "is_timedout is the value returned by the timed wait", len(calls) == 1 and bool(tests),
           "%d timed waits, %d tests of their result" % (len(calls), len(tests)), loc="%s:%d" % (F.file, F.line),
           site="ABT_cond_timedwait/is_timedout")
    rep.need(n >= 2, "timedwait: %d waiting paths" % n)


def run(P, rep, tier):
    common.rule_X7(P, rep, records=('ABTI_cond',))
    common.rule_X6(P, rep)
    common.rule_widths(P, rep, [('ABTD_futex_multiple', 'val')])
    common.rule_X4(P, rep)
    v = P.variant
    common.run_shared(P, rep)
    rule_R1(P, rep)
    rule_R2(P, rep)
    rule_R3(P, rep, active_wait=(v == "active_wait"))
    rule_R4(P, rep, active_wait=(v == "active_wait"))
    rule_R5(P, rep)
    rule_R6(P, rep)
    from . import C19        # lazy: C19 imports this module
    common.borrow(rep, P, C19.rule_R2, "R7")
    common.borrow(rep, P, C19.rule_R3, "R7")
    common.borrow(rep, P, C19.rule_R9, "R8")
    from . import C12
    common.borrow(rep, P, C12.rule_R3, "R9")
