"""Shared obligations X1-X3 (memory orders, spinlock primitives, lock-transfer
summaries) and helpers used by several property modules."""
import re

from abtverif import cfg, locks, tables

ATOMIC_HDR = "src/include/abtd_atomic.h"
SPIN_HDR = "src/include/abtd_spinlock.h"


# one named symbol each, with the reason
X1_EXCEPTIONS = {
    "ABTD_atomic_pause": "cpu relax hint, no memory access",
    "ABTD_atomic_bool_cas_weak_tagged_ptr": "x86-64: lock cmpxchg16b in inline assembly (full barrier), no builtin order to read",
}


def _atomic_orders(P, F, depth=0):
    """[(kind, success order, failure order or None)] of the builtins a wrapper uses."""
    out = []
    for nd in F.nodes:
        if not nd:
            continue
        if nd.get("k") == "atomic":
            a = nd["a"]
            order = F.nodes[F.strip(a[1])].get("cv")
            fail = None
            if len(a) >= 5:
                fail = F.nodes[F.strip(a[3])].get("cv")
            out.append(("atomic#%s" % nd["op"], order, fail))
        elif nd.get("k") == "call" and (nd.get("fn") or "").startswith("__atomic_"):
            order = F.nodes[F.strip(nd["a"][-1])].get("cv")
            out.append((nd["fn"], order, None))
        elif nd.get("k") == "call" and (nd.get("fn") or "").startswith("__sync_"):
            out.append((nd["fn"], 5, 5))
    if not out and depth < 2:
        for nd in F.nodes:
            if nd and nd.get("k") == "call" and nd.get("fn"):
                G = P.resolve_call(F, nd)
                if G is not None and G.file == ATOMIC_HDR:
                    out += _atomic_orders(P, G, depth + 1)
    return out


def rule_X1(P, rep):
    """Every ABTD_atomic_<order>_<op>_<type> wrapper passes a builtin memory order at
    least as strong as its name promises; read-modify-write wrappers keep >= ACQUIRE
    on success (ACQ_REL except test_and_set)."""
    n = 0
    for F in sorted(P.functions.values(), key=lambda f: f.line):
        if F.file != ATOMIC_HDR or not F.name.startswith("ABTD_atomic_"):
            continue
        m = re.match(r"ABTD_atomic_(relaxed|acquire|release)_(load|store|clear)_", F.name)
        orders = _atomic_orders(P, F)
        if F.name in X1_EXCEPTIONS:
            continue
        if m:
            want = {"relaxed": 0, "acquire": 2, "release": 3}[m.group(1)]
            kind = m.group(2)
            ok = bool(orders) and all(o is not None and _at_least(o, want, kind) for _, o, _f in orders)
            rep.ob("X1", F.name, ok, "builtin orders %s, required >= %d" % (orders, want),
                   loc="%s:%d" % (F.file, F.line), site=F.name)
            n += 1
        elif re.match(r"ABTD_atomic_(fetch_|exchange_|val_cas|bool_cas|test_and_set|mem_barrier)", F.name):
            want = 2 if "test_and_set" in F.name else 4
            ok = bool(orders) and all(o is not None and o >= want for _, o, _f in orders) and \
                all(f is None or f >= 2 for _, _o, f in orders)
            rep.ob("X1", F.name, ok, "builtin orders %s, required >= %d (failure order >= ACQUIRE)" % (orders, want),
                   loc="%s:%d" % (F.file, F.line), site=F.name)
            n += 1
    rep.min_instances("X1", 60)


def _at_least(o, want, kind):
    # seq_cst(5) >= everything; acq_rel(4) is not valid for pure loads/stores
    if o == 5:
        return True
    if kind == "load":
        return o >= want if want != 2 else o in (1, 2, 5) and o >= 2
    if kind in ("store", "clear"):
        return o >= want if want != 3 else o in (3, 5)
    return o >= want


def rule_X2(P, rep):
    """abtd_spinlock.h: acquire leaves its loop only after test_and_set returned
    false; try_acquire reports ABT_FALSE exactly when test_and_set returned false;
    release is a release-clear of the same word."""
    A = P.fn("ABTD_spinlock_acquire", SPIN_HDR)
    T = P.fn("ABTD_spinlock_try_acquire", SPIN_HDR)
    R = P.fn("ABTD_spinlock_release", SPIN_HDR)
    # release
    calls = [R.nodes[i] for _b, i in R.calls()]
    ok = len(calls) == 1 and calls[0].get("fn") == "ABTD_atomic_release_clear_bool" and \
        R.field_of(calls[0]["a"][0]) == ("ABTD_spinlock", "val")
    rep.ob("X2", "ABTD_spinlock_release is a release-clear of ABTD_spinlock::val", ok,
           "calls: %s" % [c.get("fn") for c in calls], loc="%s:%d" % (R.file, R.line), site=R.name)
    # acquire: every returning exit is reached through a false edge of test_and_set
    tas = [i for _b, i in A.calls("ABTD_atomic_test_and_set_bool")]
    ok = len(tas) == 1 and A.field_of(A.nodes[tas[0]]["a"][0]) == ("ABTD_spinlock", "val")
    why = ""
    if ok:
        ok, why = _exit_only_via(A, tas[0], want_zero=True)
    rep.ob("X2", "ABTD_spinlock_acquire returns only after test_and_set observed 'clear'", ok, why,
           loc="%s:%d" % (A.file, A.line), site=A.name)
    # try_acquire
    tas = [i for _b, i in T.calls("ABTD_atomic_test_and_set_bool")]
    ok = len(tas) == 1 and T.field_of(T.nodes[tas[0]]["a"][0]) == ("ABTD_spinlock", "val")
    why = ""
    if ok:
        ok, why = _returns_zero_iff(P, T, tas[0])
    rep.ob("X2", "ABTD_spinlock_try_acquire returns ABT_FALSE iff test_and_set observed 'clear'", ok, why,
           loc="%s:%d" % (T.file, T.line), site=T.name)


class _ResTS(cfg.Typestate):
    """Tracks the outcome (zero / non-zero / unknown) of one call through branches."""

    def __init__(self, call):
        self.call = call
        self.init = "none"
        self.exits = []

    def event(self, F, nid, st, ctx):
        if nid == self.call:
            return "unknown"
        return st

    def edge(self, F, bid, key, truth, st, ctx):
        if ctx.cond_node is None or st == "none":
            return st
        rz = locks._result_zero(F, ctx.cond_node, ctx.cond_val, self.call, None)
        if rz is None:
            return st
        new = "zero" if rz else "nonzero"
        if st in ("zero", "nonzero") and st != new:
            return None
        return new

    def exit(self, F, kind, nid, st, ctx):
        rv = None
        if nid is not None and "e" in F.nodes[nid]:
            rv = ctx.value(F.nodes[nid]["e"])
        self.exits.append((kind, nid, st, rv))


def _exit_only_via(F, call, want_zero):
    ts = _ResTS(call)
    cfg.simulate(F, ts)
    bad = [e for e in ts.exits if e[0] == "ret" and e[2] != ("zero" if want_zero else "nonzero")]
    n = sum(1 for e in ts.exits if e[0] == "ret")
    if n == 0:
        return False, "no returning exit"
    return (not bad), "; ".join("exit reached with call outcome '%s'" % e[2] for e in bad)


def _returns_zero_iff(P, F, call):
    ts = _ResTS(call)
    cfg.simulate(F, ts)
    why = []
    n = 0
    for kind, nid, st, rv in ts.exits:
        if kind != "ret":
            continue
        n += 1
        if st == "zero" and rv != 0:
            why.append("returns %s when the call returned zero" % rv)
        elif st == "nonzero" and (rv is None or rv == 0):
            why.append("returns %s when the call returned non-zero" % rv)
        elif st not in ("zero", "nonzero"):
            why.append("return not decided by the call outcome (%s)" % st)
    if n == 0:
        why.append("no returning exit")
    return (not why), "; ".join(why)


def rule_X3(P, rep):
    locks.check_wrapper_summaries(P, rep, "X3")
    # futex hand-over wrappers (Linux futex build): the futex word must be sampled while the caller's
    # lock is still held.  A broadcast can only run under that lock, so a sample taken after the
    # release may already contain the wake-up and FUTEX_WAIT would sleep on it for ever.
    from abtverif import seq
    for fn in ("ABTD_futex_wait_and_unlock", "ABTD_futex_timedwait_and_unlock"):
        Fs = P.fns(fn)
        if not Fs:
            continue
        F = Fs[0]
        if not F.calls("syscall"):
            continue                    # pthread-based fallback: no sampled word
        lockp = "var:" + F.params[1]["n"]
        sel = seq.Sel(calls={"syscall"}, reads={"ABTD_futex_multiple::val"}, canon=True)
        n = 0
        for toks, kind, rv, rtxt in seq.sequences(F, sel):
            if kind != "ret":
                continue
            n += 1
            rd = [i for i, t in enumerate(toks) if t[0] == "rd"]
            rel = [i for i, t in enumerate(toks) if t[0] == "rel" and t[1] == lockp]
            sc = [i for i, t in enumerate(toks) if t[0] == "call" and t[1] == "syscall"]
            why = []
            if not rd or not rel or not sc:
                why.append("expected a read of the futex word, a release of the lock and a futex syscall")
            else:
                if not rd[0] < rel[0]:
                    why.append("the futex word is first read after the lock was released (a broadcast in between is missed: "
                               "the waiter sleeps on the already incremented value)")
                if not rel[0] < sc[0]:
                    why.append("sleeps before releasing the lock")
            rep.ob("X3", "%s samples the futex word under the caller's lock, then releases it, then sleeps [%s]" %
                   (fn, seq.show(toks)[:160]), not why, "; ".join(why), loc="%s:%d" % (F.file, F.line), site="futex-sample/" + fn)
        rep.need(n >= 1, "%s: no returning path" % fn)


# functions that intentionally return with a different lockset than they were entered with: one
# named symbol each, with the reason (confirmed by reading the code)
X4_EXCEPTIONS = {
    "ABT_barrier_free": "takes the lock to let a concurrent last waiter leave, then destroys the object (never releases)",
    "ABT_eventual_free": "takes the lock to let a concurrent setter leave, then destroys the object",
    "ABT_future_free": "takes the lock to let a concurrent setter leave, then destroys the object",
    "ABTI_cond_fini": "takes the lock to let a concurrent signaller leave, then the condition is destroyed",
    "ABTI_mutex_fini": "takes waiter_lock to let a concurrent unlocker leave, then the mutex is destroyed",
    "ABTI_mutex_lock_no_recursion": "ABTI_mutex::lock is the user-visible mutex word: held on return by contract (C04.R2)",
    "ABTI_mutex_trylock_no_recursion": "returns holding the mutex word iff it returns ABT_SUCCESS (C04.R5)",
    "ABTI_mutex_spinlock_no_recursion": "returns holding the mutex word by contract (C04.R5)",
    "ABTI_mutex_unlock_no_recursion": "releases the mutex word its caller holds by contract (C04.R1)",
    "ABTI_ythread_callback_suspend_unlock": "releases the lock handed over by ABTI_ythread_suspend_unlock (summary checked by X3)",
}
DESTROY_AFTER_LOCK = {
    "ABT_barrier_free": ("ABTI_barrier", "lock"), "ABT_eventual_free": ("ABTI_eventual", "lock"),
    "ABT_future_free": ("ABTI_future", "lock"), "ABTI_cond_fini": ("ABTI_cond", "lock"),
    "ABTI_mutex_fini": ("ABTI_mutex", "waiter_lock"),
}
X4_DOC = ("repository-wide lock balance: every function that uses a lock primitive returns with the lockset it was entered "
          "with and never re-acquires a held lock or releases one it does not hold (named exceptions: destroy-after-lock, "
          "the mutex word itself, the hand-over callback); destructors still take the object's lock before releasing it, and a "
          "lock-for-good helper is only called where the object is freed on every path after it")


def rule_X4(P, rep):
    """Thorough-tier sweep over every function of the library that touches a lock primitive."""
    prims = set(tables.LOCK_ACQUIRE) | set(tables.LOCK_RELEASE) | set(tables.LOCK_RELEASE_TRANSFER) | set(tables.LOCK_COND_ACQUIRE)
    n = 0
    seen_exc = set()
    for F in sorted(P.functions.values(), key=lambda f: (f.file, f.line)):
        if not F.blocks or F.name in prims:
            continue
        if not any(F.nodes[i].get("fn") in prims for _b, i in F.calls()):
            continue
        ts = locks.run_locks(P, F)
        unb = sorted(set(tuple(sorted(h)) for k, nid, h, rv in ts.exits if k == "ret" and h))
        errs = sorted(set("%s at %s" % (m, F.loc(i)) for i, m in ts.errors))
        if F.name in X4_EXCEPTIONS:
            seen_exc.add(F.name)
            rep.ob("X4", "%s is a named exception: %s" % (F.name, X4_EXCEPTIONS[F.name]), bool(unb or errs),
                   "the function is balanced now: remove it from the exception table", loc="%s:%d" % (F.file, F.line),
                   site="X4/exception/" + F.name)
            continue
        n += 1
        why = []
        if unb:
            why.append("returns holding %s" % (unb,))
        why.extend(errs)
        rep.ob("X4", "%s: locks balanced on every path" % F.name, not why, "; ".join(why)[:500],
               loc="%s:%d" % (F.file, F.line), site="X4/" + F.name)
    rep.need(n >= 40, "only %d functions using lock primitives were analysed" % n)
    # destroy-after-lock: the destructor takes the object's lock (a concurrent holder, e.g. the last arriver of a
    # barrier that is still waking the others, has left when the memory is released) ...
    for name, fld in sorted(DESTROY_AFTER_LOCK.items()):
        Fs = [F for F in P.fns(name) if F.blocks]
        if not Fs:
            continue
        F = Fs[0]
        rec = P.records.get(fld[0])
        if rec is None or not any(x["n"] == fld[1] for x in rec["fields"]):
            continue            # this configuration has no such lock (e.g. the simple mutex has no waiter list)
        acq = [i for _b, i in F.calls(set(tables.LOCK_ACQUIRE)) if F.field_of(F.nodes[i]["a"][tables.LOCK_ACQUIRE[F.nodes[i]["fn"]]]) == fld]
        rep.ob("X4", "%s takes %s::%s before the object is destroyed" % (name, fld[0], fld[1]), bool(acq),
               "the object is destroyed without waiting for a concurrent holder of its lock", loc="%s:%d" % (F.file, F.line),
               site="X4/destroy-after-lock/" + name)
    # ... and a helper that takes a lock for good is only called where the object is released on every path after it
    helpers = set(n for n in DESTROY_AFTER_LOCK if n.endswith("_fini"))
    for F in sorted(P.functions.values(), key=lambda f: (f.file, f.line)):
        if F.name in helpers or not F.blocks:
            continue
        calls = [i for _b, i in F.calls(helpers)]
        if not calls:
            continue
        frees = [i for _b, i in F.calls("ABTU_free")]
        for c in calls:
            path = cfg.reach_exit_avoiding(F, c, avoid_nodes=frees) if frees else [F.block_of(c)]
            rep.ob("X4", "%s: after %s (which keeps the lock for good) the object is released on every path" % (F.name, F.nodes[c]["fn"]),
                   path is None, "a return is reachable after %s without ABTU_free (blocks %s): the object stays locked for ever" %
                   (F.nodes[c]["fn"], path), loc=F.loc(c), site="X4/fini-then-free/%s" % F.name)


X5_DOC = ("counters and generation words keep at least the width of int (a count of nested locks, readers, waiters, queued or blocked "
          "units that wraps at 255 or 65535 makes the object look free / empty while it is not)")


def rule_widths(P, rep, fields, rule="X5"):
    """fields: [(record, field)]; each must exist in this configuration and be >= 4 bytes wide."""
    n = 0
    for rec, fld in fields:
        r = P.records.get(rec)
        if r is None:
            continue
        fs = [x for x in r["fields"] if x["n"] == fld]
        if not fs or "sz" not in fs[0]:
            continue
        n += 1
        rep.ob(rule, "%s::%s is at least as wide as int" % (rec, fld), fs[0]["sz"] >= 4,
               "the field is %d byte(s) wide (%s): the count wraps" % (fs[0]["sz"], fs[0]["t"]), loc=r.get("file", ""),
               site="width/%s::%s" % (rec, fld))
    if n == 0 and getattr(P, "variant", "default") != "default":
        rep.skip(rule, "the fields %s do not exist in this configuration" % (fields,))
        return
    rep.need(n >= 1, "none of the counter fields %s exists" % (fields,))


X6_DOC = ("ABTI_waitlist_init (which also rewinds the futex generation word) is called only while an object is being created or "
          "initialised, never on a live object (a sleeping external-thread waiter compares the word with the value it saw)")


def rule_X6(P, rep):
    callers = sorted(x.split(":")[-1] for x in P.callers().get("src/include/abti_waitlist.h:ABTI_waitlist_init", []))
    rep.need(len(callers) >= 4, "ABTI_waitlist_init has only %d callers" % len(callers))
    for c in callers:
        ok = bool(re.search(r"(_create(_|$)|_init$|_init_|_reinit$)", c)) and not re.search(r"reset|set$", c)
        rep.ob("X6", "%s (a creation / initialisation routine) initialises a wait list" % c, ok,
               "%s re-initialises the wait list of a live object" % c, loc="src", site="waitlist_init/" + c)


def borrow(rep, P, rule_fn, label, only=None, **kw):
    """Evaluate a sibling property's rule and record its obligations under this property's `label`
    (properties overlap: the same structural clause can be a necessary condition of several)."""
    sub = type(rep)(rep.prop, rep.tier, rep.variant)
    rule_fn(P, sub, **kw)
    rep.broken.extend("[borrowed %s] %s" % (label, b) for b in getattr(sub, "broken", []))
    n = 0
    for o in sub.obligations:
        if only is not None and o["rule"] not in only:
            continue
        n += 1
        rep.ob(label, "[%s] %s" % (o["rule"], o["instance"]), o["ok"], o["detail"], o["loc"],
               site="%s/%s" % (label, o["instance"][:150]))
    if not getattr(sub, "broken", None):
        rep.need(n >= 1, "borrowed rule %s matched nothing" % label)


def run_shared(P, rep, which=("X1", "X2", "X3")):
    if "X1" in which:
        rule_X1(P, rep)
    if "X2" in which:
        rule_X2(P, rep)
    if "X3" in which:
        rule_X3(P, rep)
    if "X4" in which:
        rule_X4(P, rep)


SHARED_DOC = {
    "X1": "atomic wrappers of abtd_atomic.h pass a builtin memory order at least as strong as their name",
    "X2": "spinlock primitives: acquire/try_acquire succeed only on a clear test_and_set; release is a release-clear",
    "X3": "every lock-transfer / conditional-acquire summary used by the lockset analysis holds on the wrapper body; "
          "the futex hand-over wrappers sample the futex word before they release the caller's lock",
}


# ---------------------------------------------------------------------------
# helpers for rule modules

def locs(F, nids):
    return ", ".join(F.loc(i) for i in nids)


def call_args(F, nid):
    return [F.render(a) for a in F.nodes[nid]["a"]]


def slot_assignments(P, F, param_values):
    """Simulate F once per value of an integer/enum parameter and collect the
    function-pointer slot assignments (record::field -> function name) made on the
    paths that return a constant 0.  Returns {value: {slot: fn}} and error values."""
    out = {}

    class TS(cfg.Typestate):
        def __init__(self):
            self.init = frozenset()
            self.results = []

        def event(self, F, nid, st, ctx):
            nd = F.nodes[nid]
            if nd.get("k") == "bin" and nd.get("asg") and nd["op"] == "=":
                fo = F.field_of(nd["lh"])
                rn = F.nodes[F.strip(nd["rh"])]
                if fo and rn.get("k") == "ref" and rn.get("dk") == "func":
                    return frozenset(x for x in st if x[0] != fo) | {(fo, rn["n"])}
                if fo and rn.get("cv") == 0 and "(*)" in (F.nodes[F.strip(nd["lh"])].get("t") or ""):
                    return frozenset(x for x in st if x[0] != fo) | {(fo, None)}
            return st

        def exit(self, F, kind, nid, st, ctx):
            rv = ctx.value(F.nodes[nid]["e"]) if nid is not None and "e" in F.nodes[nid] else None
            self.results.append((kind, rv, st))

    for pname, values in param_values.items():
        for vname, v in values.items():
            ts = TS()
            cfg.simulate(F, ts, entry_consts={pname: v})
            out[vname] = ts.results
    return out
