"""Shared obligations X1-X3 (memory orders, spinlock primitives, lock-transfer
summaries) and helpers used by several property modules."""
import re

from abtverif import canon, cfg, locks, tables

ATOMIC_HDR = "src/include/abtd_atomic.h"
SPIN_HDR = "src/include/abtd_spinlock.h"


# one named symbol each, with the reason
X1_EXCEPTIONS = {
    "ABTD_atomic_pause": "cpu relax hint, no memory access",
    "ABTD_atomic_bool_cas_weak_tagged_ptr": "x86-64: lock cmpxchg16b in inline assembly (full barrier), no builtin order to read",
}


def _atomic_orders(P, F, depth=0):
    """[(kind, success order, failure order or None)] of the builtins a wrapper uses."""
    out = []
    for nd in F.nodes:
        if not nd:
            continue
        if nd.get("k") == "atomic":
            a = nd["a"]
            order = F.nodes[F.strip(a[1])].get("cv")
            fail = None
            if len(a) >= 5:
                fail = F.nodes[F.strip(a[3])].get("cv")
            out.append(("atomic#%s" % nd["op"], order, fail))
        elif nd.get("k") == "call" and (nd.get("fn") or "").startswith("__atomic_"):
            order = F.nodes[F.strip(nd["a"][-1])].get("cv")
            out.append((nd["fn"], order, None))
        elif nd.get("k") == "call" and (nd.get("fn") or "").startswith("__sync_"):
            out.append((nd["fn"], 5, 5))
    if not out and depth < 2:
        for nd in F.nodes:
            if nd and nd.get("k") == "call" and nd.get("fn"):
                G = P.resolve_call(F, nd)
                if G is not None and G.file == ATOMIC_HDR:
                    out += _atomic_orders(P, G, depth + 1)
    return out


def rule_X1(P, rep):
    """Every ABTD_atomic_<order>_<op>_<type> wrapper passes a builtin memory order at
    least as strong as its name promises; read-modify-write wrappers keep >= ACQUIRE
    on success (ACQ_REL except test_and_set)."""
    n = 0
    for F in sorted(P.functions.values(), key=lambda f: f.line):
        if F.file != ATOMIC_HDR or not F.name.startswith("ABTD_atomic_"):
            continue
        m = re.match(r"ABTD_atomic_(relaxed|acquire|release)_(load|store|clear)_", F.name)
        orders = _atomic_orders(P, F)
        if F.name in X1_EXCEPTIONS:
            continue
        if m:
            want = {"relaxed": 0, "acquire": 2, "release": 3}[m.group(1)]
            kind = m.group(2)
            ok = bool(orders) and all(o is not None and _at_least(o, want, kind) for _, o, _f in orders)
            rep.ob("X1", F.name, ok, "builtin orders %s, required >= %d" % (orders, want),
                   loc="%s:%d" % (F.file, F.line), site=F.name)
            n += 1
        elif re.match(r"ABTD_atomic_(fetch_|exchange_|val_cas|bool_cas|test_and_set|mem_barrier)", F.name):
            want = 2 if "test_and_set" in F.name else 4
            ok = bool(orders) and all(o is not None and o >= want for _, o, _f in orders) and \
                all(f is None or f >= 2 for _, _o, f in orders)
            rep.ob("X1", F.name, ok, "builtin orders %s, required >= %d (failure order >= ACQUIRE)" % (orders, want),
                   loc="%s:%d" % (F.file, F.line), site=F.name)
            n += 1
    rep.min_instances("X1", 60)


def _at_least(o, want, kind):
    # seq_cst(5) >= everything; acq_rel(4) is not valid for pure loads/stores
    if o == 5:
        return True
    if kind == "load":
        return o >= want if want != 2 else o in (1, 2, 5) and o >= 2
    if kind in ("store", "clear"):
        return o >= want if want != 3 else o in (3, 5)
    return o >= want


def rule_X2(P, rep):
    """abtd_spinlock.h: acquire leaves its loop only after test_and_set returned
    false; try_acquire reports ABT_FALSE exactly when test_and_set returned false;
    release is a release-clear of the same word."""
    A = P.fn("ABTD_spinlock_acquire", SPIN_HDR)
    T = P.fn("ABTD_spinlock_try_acquire", SPIN_HDR)
    R = P.fn("ABTD_spinlock_release", SPIN_HDR)
    # release
    calls = [R.nodes[i] for _b, i in R.calls()]
    ok = len(calls) == 1 and calls[0].get("fn") == "ABTD_atomic_release_clear_bool" and \
        R.field_of(calls[0]["a"][0]) == ("ABTD_spinlock", "val")
    rep.ob("X2", "ABTD_spinlock_release is a release-clear of ABTD_spinlock::val", ok,
           "calls: %s" % [c.get("fn") for c in calls], loc="%s:%d" % (R.file, R.line), site=R.name)
    # acquire: every returning exit is reached through a false edge of test_and_set
    tas = [i for _b, i in A.calls("ABTD_atomic_test_and_set_bool")]
    ok = len(tas) == 1 and A.field_of(A.nodes[tas[0]]["a"][0]) == ("ABTD_spinlock", "val")
    why = ""
    if ok:
        ok, why = _exit_only_via(A, tas[0], want_zero=True)
    rep.ob("X2", "ABTD_spinlock_acquire returns only after test_and_set observed 'clear'", ok, why,
           loc="%s:%d" % (A.file, A.line), site=A.name)
    # try_acquire
    tas = [i for _b, i in T.calls("ABTD_atomic_test_and_set_bool")]
    ok = len(tas) == 1 and T.field_of(T.nodes[tas[0]]["a"][0]) == ("ABTD_spinlock", "val")
    why = ""
    if ok:
        ok, why = _returns_zero_iff(P, T, tas[0])
    rep.ob("X2", "ABTD_spinlock_try_acquire returns ABT_FALSE iff test_and_set observed 'clear'", ok, why,
           loc="%s:%d" % (T.file, T.line), site=T.name)


class _ResTS(cfg.Typestate):
    """Tracks the outcome (zero / non-zero / unknown) of one call through branches."""

    def __init__(self, call):
        self.call = call
        self.init = "none"
        self.exits = []

    def event(self, F, nid, st, ctx):
        if nid == self.call:
            return "unknown"
        return st

    def edge(self, F, bid, key, truth, st, ctx):
        if ctx.cond_node is None or st == "none":
            return st
        rz = locks._result_zero(F, ctx.cond_node, ctx.cond_val, self.call, None)
        if rz is None:
            return st
        new = "zero" if rz else "nonzero"
        if st in ("zero", "nonzero") and st != new:
            return None
        return new

    def exit(self, F, kind, nid, st, ctx):
        rv = None
        if nid is not None and "e" in F.nodes[nid]:
            rv = ctx.value(F.nodes[nid]["e"])
        self.exits.append((kind, nid, st, rv))


def _exit_only_via(F, call, want_zero):
    ts = _ResTS(call)
    cfg.simulate(F, ts)
    bad = [e for e in ts.exits if e[0] == "ret" and e[2] != ("zero" if want_zero else "nonzero")]
    n = sum(1 for e in ts.exits if e[0] == "ret")
    if n == 0:
        return False, "no returning exit"
    return (not bad), "; ".join("exit reached with call outcome '%s'" % e[2] for e in bad)


def _returns_zero_iff(P, F, call):
    ts = _ResTS(call)
    cfg.simulate(F, ts)
    why = []
    n = 0
    for kind, nid, st, rv in ts.exits:
        if kind != "ret":
            continue
        n += 1
        if st == "zero" and rv != 0:
            why.append("returns %s when the call returned zero" % rv)
        elif st == "nonzero" and (rv is None or rv == 0):
            why.append("returns %s when the call returned non-zero" % rv)
        elif st not in ("zero", "nonzero"):
            why.append("return not decided by the call outcome (%s)" % st)
    if n == 0:
        why.append("no returning exit")
    return (not why), "; ".join(why)


def rule_X3(P, rep):
    locks.check_wrapper_summaries(P, rep, "X3")
    # futex hand-over wrappers (Linux futex build): the futex word must be sampled while the caller's
    # lock is still held.  A broadcast can only run under that lock, so a sample taken after the
    # release may already contain the wake-up and FUTEX_WAIT would sleep on it for ever.
    from abtverif import seq
    for fn in ("ABTD_futex_wait_and_unlock", "ABTD_futex_timedwait_and_unlock"):
        Fs = P.fns(fn)
        if not Fs:
            continue
        F = Fs[0]
        if not F.calls("syscall"):
            continue                    # pthread-based fallback: no sampled word
        lockp = "var:" + F.params[1]["n"]
        sel = seq.Sel(calls={"syscall"}, reads={"ABTD_futex_multiple::val"}, canon=True)
        n = 0
        for toks, kind, rv, rtxt in seq.sequences(F, sel):
            if kind != "ret":
                continue
            n += 1
            rd = [i for i, t in enumerate(toks) if t[0] == "rd"]
            rel = [i for i, t in enumerate(toks) if t[0] == "rel" and t[1] == lockp]
            sc = [i for i, t in enumerate(toks) if t[0] == "call" and t[1] == "syscall"]
            why = []
            if not rd or not rel or not sc:
                why.append("expected a read of the futex word, a release of the lock and a futex syscall")
            else:
                if not rd[0] < rel[0]:
                    why.append("the futex word is first read after the lock was released (a broadcast in between is missed: "
                               "the waiter sleeps on the already incremented value)")
                if not rel[0] < sc[0]:
                    why.append("sleeps before releasing the lock")
            rep.ob("X3", "%s samples the futex word under the caller's lock, then releases it, then sleeps [%s]" %
                   (fn, seq.show(toks)[:160]), not why, "; ".join(why), loc="%s:%d" % (F.file, F.line), site="futex-sample/" + fn)
        rep.need(n >= 1, "%s: no returning path" % fn)
    # wake-up side: the futex word is changed BEFORE the FUTEX_WAKE (a waiter woken by the syscall re-checks the word
    # and goes back to sleep if it still holds the value it sampled; nobody wakes it again)
    for fn in ("ABTD_futex_broadcast", "ABTD_futex_resume"):
        Fs = P.fns(fn)
        if not Fs or not Fs[0].calls("syscall"):
            continue
        F = Fs[0]
        sc = [i for _b, i in F.calls("syscall")]
        st = [i for _b, i in F.calls() if (F.nodes[i].get("fn") or "").startswith("ABTD_atomic_") and
              "store" in F.nodes[i]["fn"] and F.nodes[i]["a"] and (F.field_of(F.nodes[i]["a"][0]) or ("", ""))[1] == "val"]
        ok = bool(st) and all(any(cfg.dominates(F, s_, c) for s_ in st) for c in sc)
        rep.ob("X3", "%s changes the futex word before it issues FUTEX_WAKE" % fn, ok,
               "the wake-up syscall is not dominated by the store to the futex word: a woken waiter still reads the old value "
               "and sleeps again", loc="%s:%d" % (F.file, F.line), site="futex-wake/" + fn)


# functions that intentionally return with a different lockset than they were entered with: one
# named symbol each, with the reason (confirmed by reading the code)
X4_EXCEPTIONS = {
    "ABT_barrier_free": "takes the lock to let a concurrent last waiter leave, then destroys the object (never releases)",
    "ABT_eventual_free": "takes the lock to let a concurrent setter leave, then destroys the object",
    "ABT_future_free": "takes the lock to let a concurrent setter leave, then destroys the object",
    "ABTI_cond_fini": "takes the lock to let a concurrent signaller leave, then the condition is destroyed",
    "ABTI_mutex_fini": "takes waiter_lock to let a concurrent unlocker leave, then the mutex is destroyed",
    "ABTI_mutex_lock_no_recursion": "ABTI_mutex::lock is the user-visible mutex word: held on return by contract (C04.R2)",
    "ABTI_mutex_trylock_no_recursion": "returns holding the mutex word iff it returns ABT_SUCCESS (C04.R5)",
    "ABTI_mutex_spinlock_no_recursion": "returns holding the mutex word by contract (C04.R5)",
    "ABTI_mutex_unlock_no_recursion": "releases the mutex word its caller holds by contract (C04.R1)",
    "ABTI_ythread_callback_suspend_unlock": "releases the lock handed over by ABTI_ythread_suspend_unlock (summary checked by X3)",
}
DESTROY_AFTER_LOCK = {
    "ABT_barrier_free": ("ABTI_barrier", "lock"), "ABT_eventual_free": ("ABTI_eventual", "lock"),
    "ABT_future_free": ("ABTI_future", "lock"), "ABTI_cond_fini": ("ABTI_cond", "lock"),
    "ABTI_mutex_fini": ("ABTI_mutex", "waiter_lock"),
}
X4_DOC = ("repository-wide lock balance: every function that uses a lock primitive returns with the lockset it was entered "
          "with and never re-acquires a held lock or releases one it does not hold (named exceptions: destroy-after-lock, "
          "the mutex word itself, the hand-over callback); destructors still take the object's lock before releasing it, and a "
          "lock-for-good helper is only called where the object is freed on every path after it")


def rule_X4(P, rep):
    """Thorough-tier sweep over every function of the library that touches a lock primitive."""
    prims = set(tables.LOCK_ACQUIRE) | set(tables.LOCK_RELEASE) | set(tables.LOCK_RELEASE_TRANSFER) | set(tables.LOCK_COND_ACQUIRE)
    n = 0
    seen_exc = set()
    for F in sorted(P.functions.values(), key=lambda f: (f.file, f.line)):
        if not F.blocks or F.name in prims:
            continue
        if not any(F.nodes[i].get("fn") in prims for _b, i in F.calls()):
            continue
        ts = locks.run_locks(P, F)
        unb = sorted(set(tuple(sorted(h)) for k, nid, h, rv in ts.exits if k == "ret" and h))
        errs = sorted(set("%s at %s" % (m, F.loc(i)) for i, m in ts.errors))
        if F.name in X4_EXCEPTIONS:
            seen_exc.add(F.name)
            rep.ob("X4", "%s is a named exception: %s" % (F.name, X4_EXCEPTIONS[F.name]), bool(unb or errs),
                   "the function is balanced now: remove it from the exception table", loc="%s:%d" % (F.file, F.line),
                   site="X4/exception/" + F.name)
            continue
        n += 1
        why = []
        if unb:
            why.append("returns holding %s" % (unb,))
        why.extend(errs)
        rep.ob("X4", "%s: locks balanced on every path" % F.name, not why, "; ".join(why)[:500],
               loc="%s:%d" % (F.file, F.line), site="X4/" + F.name)
    rep.need(n >= 40, "only %d functions using lock primitives were analysed" % n)
    # destroy-after-lock: the destructor takes the object's lock (a concurrent holder, e.g. the last arriver of a
    # barrier that is still waking the others, has left when the memory is released) ...
    for name, fld in sorted(DESTROY_AFTER_LOCK.items()):
        Fs = [F for F in P.fns(name) if F.blocks]
        if not Fs:
            continue
        F = Fs[0]
        rec = P.records.get(fld[0])
        if rec is None or not any(x["n"] == fld[1] for x in rec["fields"]):
            continue            # this configuration has no such lock (e.g. the simple mutex has no waiter list)
        acq = [i for _b, i in F.calls(set(tables.LOCK_ACQUIRE)) if F.field_of(F.nodes[i]["a"][tables.LOCK_ACQUIRE[F.nodes[i]["fn"]]]) == fld]
        rep.ob("X4", "%s takes %s::%s before the object is destroyed" % (name, fld[0], fld[1]), bool(acq),
               "the object is destroyed without waiting for a concurrent holder of its lock", loc="%s:%d" % (F.file, F.line),
               site="X4/destroy-after-lock/" + name)
    # ... and a helper that takes a lock for good is only called where the object is released on every path after it
    helpers = set(n for n in DESTROY_AFTER_LOCK if n.endswith("_fini"))
    for F in sorted(P.functions.values(), key=lambda f: (f.file, f.line)):
        if F.name in helpers or not F.blocks:
            continue
        calls = [i for _b, i in F.calls(helpers)]
        if not calls:
            continue
        frees = [i for _b, i in F.calls("ABTU_free")]
        for c in calls:
            path = cfg.reach_exit_avoiding(F, c, avoid_nodes=frees) if frees else [F.block_of(c)]
            rep.ob("X4", "%s: after %s (which keeps the lock for good) the object is released on every path" % (F.name, F.nodes[c]["fn"]),
                   path is None, "a return is reachable after %s without ABTU_free (blocks %s): the object stays locked for ever" %
                   (F.nodes[c]["fn"], path), loc=F.loc(c), site="X4/fini-then-free/%s" % F.name)


X5_DOC = ("counters and generation words keep at least the width of int (a count of nested locks, readers, waiters, queued or blocked "
          "units that wraps at 255 or 65535 makes the object look free / empty while it is not)")


def rule_widths(P, rep, fields, rule="X5"):
    """fields: [(record, field)]; each must exist in this configuration and be >= 4 bytes wide."""
    n = 0
    for rec, fld in fields:
        r = P.records.get(rec)
        if r is None:
            continue
        fs = [x for x in r["fields"] if x["n"] == fld]
        if not fs or "sz" not in fs[0]:
            continue
        n += 1
        rep.ob(rule, "%s::%s is at least as wide as int" % (rec, fld), fs[0]["sz"] >= 4,
               "the field is %d byte(s) wide (%s): the count wraps" % (fs[0]["sz"], fs[0]["t"]), loc=r.get("file", ""),
               site="width/%s::%s" % (rec, fld))
    if n == 0 and getattr(P, "variant", "default") != "default":
        rep.skip(rule, "the fields %s do not exist in this configuration" % (fields,))
        return
    rep.need(n >= 1, "none of the counter fields %s exists" % (fields,))


X6_DOC = ("ABTI_waitlist_init (which also rewinds the futex generation word) is called only while an object is being created or "
          "initialised, never on a live object (a sleeping external-thread waiter compares the word with the value it saw)")


def rule_X6(P, rep):
    callers = sorted(x.split(":")[-1] for x in P.callers().get("src/include/abti_waitlist.h:ABTI_waitlist_init", []))
    rep.need(len(callers) >= 4, "ABTI_waitlist_init has only %d callers" % len(callers))
    for c in callers:
        ok = bool(re.search(r"(_create(_|$)|_init$|_init_|_reinit$)", c)) and not re.search(r"reset|set$", c)
        rep.ob("X6", "%s (a creation / initialisation routine) initialises a wait list" % c, ok,
               "%s re-initialises the wait list of a live object" % c, loc="src", site="waitlist_init/" + c)


# ---------------------------------------------------------------------------
# X7: definite initialisation of heap records

X7_DOC = ("an object obtained from ABTU_malloc (uninitialised memory) has every field written -- by a store, by a helper that is "
          "given the field's address, or by a helper that is given the object and touches the field -- on EVERY path from the "
          "allocation to the point where the object is published (handle stored through an out-parameter, pointer returned, "
          "stored into shared memory); a field initialised on one branch only leaves a recycled heap chunk's bytes in the object")

# fields that are deliberately initialised later, one line of reason each
X7_LATER = {
    ("ABTI_xstream", "ctx"): "the native-thread context is created when the stream is started (ABTD_xstream_context_create / "
                             "_set_self); xstream_create only builds the descriptor",
}


# fields that are needed in some configurations of the object only: written on at least one path
X7_SOME = {
    ("data", "mutex"): "the lock of an ABT_POOL_ACCESS_PRIV pool is never taken (C07.R1 checks that the lock-free variants are "
                       "installed for private pools only), so pool_init clears it for the shared access modes only",
}


def _x7_touch(P, R, f):
    """Functions that (transitively) use R::f as an lvalue: store to it, pass its address, or write below it."""
    cache = P.__dict__.setdefault("_x7touch", {})
    key = (R, f)
    if key not in cache:
        w = set()
        for G in P.functions.values():
            pm = None
            for j, nd in enumerate(G.nodes):
                if nd and nd.get("k") == "mem" and nd.get("r") == R and nd.get("f") == f:
                    pm = pm or G.parent_map()
                    x, par = j, pm.get(j)
                    while par is not None and G.nodes[par].get("k") in ("mem", "idx") and G.nodes[par].get("b") == x:
                        x, par = par, pm.get(par)
                    if par is None or G.nodes[par].get("k") != "load":
                        w.add(G.key)
                        break
        cg = P.callgraph()
        changed = True
        while changed:
            changed = False
            for g, callees in cg.items():
                if g not in w and callees & w:
                    w.add(g)
                    changed = True
        cache[key] = w
    return cache[key]


def _x7_top_field(r, p):
    for pre in ("&" + p + "->", p + "->"):
        if r.startswith(pre):
            m = re.match(r"[A-Za-z_0-9]+", r[len(pre):])
            return m.group(0) if m else None
    return None


def x7_sites(P, F):
    """[(call node, record, pointer variable)] for ABTU_malloc(sizeof(R), &p) / ABTU_memalign(.., sizeof(R), &p)."""
    out = []
    for _b, i in F.calls():
        nd = F.nodes[i]
        if nd.get("fn") not in ("ABTU_malloc", "ABTU_memalign") or len(nd["a"]) < 2:
            continue
        sn = F.nodes[F.strip(nd["a"][-2])]
        if sn.get("k") != "sizeof":
            continue
        R = sn.get("t", "").replace("struct ", "").strip()
        if R not in P.records and R.endswith("_t") and (F.file, R[:-2]) in P.file_records:
            R = R[:-2]      # typedef struct data data_t (file-local)
        if R not in P.records:
            continue
        pn = F.nodes[F.strip(nd["a"][-1])]
        if pn.get("k") == "ref" and pn.get("dk") == "var":
            # the out-pointer travels through a temporary (`pp = &p_new` of a flattened allocation helper)
            d = canon.reaching_def(F, pn["n"], i)
            if isinstance(d, int):
                pn = F.nodes[F.strip(d)]
        if pn.get("k") == "un" and pn["op"] == "&":
            out.append((i, R, canon.rooted(F, pn["e"])))
    return out


def x7_analyse(P, F, site, R, p):
    """Path-sensitive typestate (cfg.simulate: constants, decided branches and correlated tests of the same error
    code are followed, so a flattened init helper that fails early does not merge with its success path):
    [(publication node, fields not yet written on some feasible path to it)]; None if the function is too large."""
    fields = [f["n"] for f in P.file_records.get((F.file, R), P.records[R])["fields"]]
    al = {}         # {local: variable it is a plain copy of} on the path being followed (set by the typestate)

    def rooted(e):
        r = canon.rooted(F, e)
        m = re.match(r"^(&?)([A-Za-z_]\w*)(.*)$", r)
        if m and m.group(2) != p:
            v, hops = m.group(2), 0
            while v in al and hops < 4:
                v, hops = al[v], hops + 1
            if v != m.group(2):
                return m.group(1) + v + m.group(3)
        return r

    def gen(i):
        nd = F.nodes[i]
        k = nd.get("k")
        g = set()
        if k == "bin" and nd.get("asg"):
            f = _x7_top_field(rooted(nd["lh"]), p)
            if f:
                g.add(f)
            if rooted(nd["lh"]) == "*" + p:
                g |= set(fields)        # whole-object assignment
        elif k == "un" and nd["op"] in ("post++", "post--", "pre++", "pre--"):
            f = _x7_top_field(rooted(nd["e"]), p)
            if f:
                g.add(f)
        elif k == "call" and i != site:
            G = P.resolve_call(F, nd) if nd.get("fn") else None
            for a in nd["a"]:
                r = rooted(a)
                f = _x7_top_field(r, p)
                if f:
                    g.add(f)
                elif r == p:
                    if G is None or not G.blocks:
                        g |= set(fields)        # memset / memcpy / unknown: assume it fills the object
                    else:
                        g |= set(f2 for f2 in fields if G.key in _x7_touch(P, R, f2))
        return g

    def is_p(e, depth=3):
        if rooted(e) == p:
            return True
        en = F.nodes[F.strip(e)]
        if en.get("k") == "ref" and en.get("dk") == "var" and depth > 0:
            # the handle travels through a temporary: `h = ABTI_x_get_handle(p); *out = h;`
            d = canon.reaching_def(F, en["n"], e)
            if isinstance(d, int):
                return is_p(d, depth - 1)
            return False
        return en.get("k") == "call" and (en.get("fn") or "").endswith("_get_handle") and en["a"] and \
            rooted(en["a"][0]) == p

    def publishes(i):
        nd = F.nodes[i]
        k = nd.get("k")
        if k == "bin" and nd.get("asg") and nd["op"] == "=":
            lhs = rooted(nd["lh"])
            return not (lhs == p or lhs.startswith(p + "->")) and F.nodes[F.strip(nd["lh"])].get("k") != "ref" and is_p(nd["rh"])
        if k == "ret" and "e" in nd:
            return is_p(nd["e"])
        if k == "call" and i != site:
            fn = nd.get("fn") or ""
            # (a store into a global variable during single-threaded start-up -- ABTI_global_set_global -- is not a
            # publication to another thread and is not counted)
            if "atomic_" in fn and ("store" in fn or "cas" in fn or "exchange" in fn):
                return any(is_p(a) for a in nd["a"][1:])
        return False

    anywhere = set()
    for v_ in set(x["n"] for nd_ in F.nodes if nd_ and nd_.get("k") == "decl" for x in nd_["vars"]):
        ds = F.var_defs(v_)
        if len(ds) == 1 and ds[0] is not None and F.nodes[F.strip(ds[0])].get("k") == "ref":
            al[v_] = F.nodes[F.strip(ds[0])]["n"]      # single-definition copies, for the path-insensitive census
    for b in F.blocks:
        for i in F.blocks[b].elems:
            if i != site:
                anywhere |= gen(i)

    class TS(cfg.Typestate):
        init = "pre"                # the allocation has not happened on this path yet
        track_facts = True

        def __init__(self):
            self.found = {}

        def event(self, F_, nid, st, ctx):
            al.clear()
            al.update(ctx.aliases())
            if nid == site:
                return frozenset()
            if st == "pre":
                return st
            if publishes(nid):
                miss = [f for f in fields if f not in st and (R, f) not in X7_LATER and
                        not ((R, f) in X7_SOME and f in anywhere)]
                cur = self.found.setdefault(nid, [])
                cur.extend(m for m in miss if m not in cur)
            g = gen(nid)
            return st | g if g else st

    ts = TS()
    try:
        cfg.simulate(F, ts, max_states=300000)
    except RuntimeError:
        return None
    return sorted(ts.found.items())


def rule_X7(P, rep, records=None):
    seen = {}
    for F in sorted(P.functions.values(), key=lambda f: (f.file, f.line)):
        if not F.blocks:
            continue
        for site, R, p in x7_sites(P, F):
            if records is not None and R not in records:
                continue
            pubs = x7_analyse(P, F, site, R, p)
            if pubs is None:
                rep.notes.append("X7: %s too large for the path-sensitive analysis, skipped" % F.name)
                continue
            for i, missing in pubs:
                seen[R] = seen.get(R, 0) + 1
                rep.ob("X7", "%s (%s): every field of the new %s is written before it is published" % (F.name, F.file, R), not missing,
                       "not written on every path from the allocation (%s) to %s: %s" % (F.loc(site), F.loc(i), ", ".join(missing)),
                       loc=F.loc(i), site="x7/%s:%s/%s/%d" % (F.file, F.name, R, [x[0] for x in pubs].index(i)))
    want = set(records) if records is not None else set()
    rep.need(want <= set(seen), "no published allocation found for %s" % sorted(want - set(seen)))
    if records is None:
        rep.need(len(seen) >= 15, "only %d kinds of heap records with a published allocation" % len(seen))


# ---------------------------------------------------------------------------
# X8: a loop over an array looks at the element its counter selects

X8_DOC = ("a counted loop (`for (i = ..; i < n; i++)`) whose body subscripts an array with a constant never looks at more than that "
          "one element: if the body does not use the counter at all, the per-element check or action it was written for (is the "
          "unit in ANY pool of the scheduler, release EVERY pool, ...) silently covers element 0 only; and a descending loop that "
          "stops at `i > 0` while subscripting with [i] never visits element 0")


def rule_X8(P, rep):
    from abtverif import ctrldep
    n = 0
    for F in sorted(P.functions.values(), key=lambda f: (f.file, f.line)):
        if not F.blocks:
            continue
        pm = None
        live = None
        for hb, B in sorted(F.blocks.items()):
            if B.tc is None or B.tk not in ("ForStmt", "WhileStmt", "DoStmt"):
                continue
            if live is None:
                live = F.live_nodes()
            cn = F.nodes[F.strip(B.tc)]
            if cn.get("k") != "bin" or cn["op"] not in ("<", "<=", "!=", ">", ">="):
                continue
            vn = F.nodes[F.strip(cn["lh"])]
            if vn.get("k") != "ref" or vn.get("dk") != "var":
                continue
            v = vn["n"]
            if const_eval(F, cn["rh"]) is not None and F.nodes[F.strip(cn["rh"])].get("cv") != 0:
                # `for (k = 0; k < 2; k++)`: a fixed number of attempts, not a walk over an array of n elements
                fixed = True
            else:
                fixed = False
            body = [b for b in F.blocks if b != hb and any(a == hb for a, _k in ctrldep.closure(F, b))]
            if not body:
                continue
            pm = pm or F.parent_map()
            assigned = set(vv for b in body for i in F.blocks[b].elems for vv, _r in canon._assigned_var(F, F.nodes[i]))
            # pointer parameters that come with an element count (the loop bound mentions a sibling parameter)
            arrays = set(p_["n"] for p_ in F.params if p_["t"].rstrip().endswith("*"))
            used = False
            stepped = False
            consts = []
            for b in body:
                for i in list(F.blocks[b].elems) + ([F.blocks[b].tc] if F.blocks[b].tc is not None else []):
                    for j in F.descendants(i):
                        nd = F.nodes[j]
                        if nd.get("k") == "ref" and nd.get("n") == v:
                            par = pm.get(j)
                            if par is not None and F.nodes[par].get("k") == "un" and F.nodes[par]["op"] in ("post++", "pre++", "post--", "pre--"):
                                stepped = True
                                gp = pm.get(par)
                                while gp is not None and F.nodes[gp].get("k") in ("cast", "load"):
                                    gp = pm.get(gp)
                                if gp is not None and gp in live:
                                    used = True     # `a[k++]`: the value of the step expression is used
                            else:
                                used = True
                        if nd.get("k") == "idx" and "cv" in F.nodes[F.strip(nd["i"])] and F.nodes[F.strip(nd["i"])].get("k") != "ref":
                            consts.append((j, F.render(j)))
                        if nd.get("k") == "un" and nd["op"] == "*":
                            # `*arr` for a pointer the loop never advances is arr[0]
                            en = F.nodes[F.strip(nd["e"])]
                            if en.get("k") == "ref" and en.get("dk") in ("param", "var") and en.get("n") not in assigned and \
                                    en.get("n") in arrays:
                                consts.append((j, F.render(j)))
            if not stepped:
                continue        # not a counting loop
            # a descending loop that stops at `i > 0` while subscripting with `[i]` never reaches element 0
            rv = F.nodes[F.strip(cn["rh"])].get("cv")
            if (cn["op"] == ">" and rv == 0) or (cn["op"] == ">=" and rv == 1) or (cn["op"] == "!=" and rv == 0):
                direct = []
                for b in body:
                    for i in list(F.blocks[b].elems):
                        for j in F.descendants(i):
                            nd = F.nodes[j]
                            if nd.get("k") == "idx":
                                xn = F.nodes[F.strip(nd["i"])]
                                if xn.get("k") == "ref" and xn.get("n") == v:
                                    direct.append((j, F.render(j)))
                rep.ob("X8", "%s: the descending loop `%s` reaches element 0 of what it subscripts" % (F.name, canon.expr(F, B.tc, 0)),
                       not direct, "the loop ends at %s == 1 but subscripts with [%s]: element 0 (%s) is never visited" %
                       (v, v, ", ".join(sorted(set(c[1] for c in direct)))[:160]),
                       loc=F.loc(direct[0][0]) if direct else "%s:%d" % (F.file, F.line), site="x8/%s/%s/descending" % (F.name, v))
            n += 1
            bad = not used and bool(consts) and not fixed
            rep.ob("X8", "%s: the loop over `%s` looks at the element its counter selects" % (F.name, canon.expr(F, B.tc, 0)), not bad,
                   "the body never uses `%s` but reads %s on every pass" % (v, ", ".join(sorted(set(c[1] for c in consts)))[:200]),
                   loc=F.loc(consts[0][0]) if bad else "%s:%d" % (F.file, F.line), site="x8/%s/%s" % (F.name, v))
    rep.need(n >= 40, "only %d counted loops found" % n)


def const_eval(F, i):
    """Integer value of an expression built from literals, sizeof/offsetof (folded by clang), arithmetic and the
    ABTU_roundup_size / ABTU_max_size / ABTU_min_size helpers; None if it depends on anything else."""
    i = F.strip(i)
    if i is None or i < 0:
        return None
    nd = F.nodes[i]
    k = nd.get("k")
    if "cv" in nd and k != "ref":
        return nd["cv"]
    if k == "bin" and nd["op"] in ("+", "-", "*", "/", "%", "<<", ">>", "&", "|"):
        a, b = const_eval(F, nd["lh"]), const_eval(F, nd["rh"])
        if a is None or b is None:
            return None
        try:
            return {"+": a + b, "-": a - b, "*": a * b, "/": a // b if b else None, "%": a % b if b else None,
                    "<<": a << b, ">>": a >> b, "&": a & b, "|": a | b}[nd["op"]]
        except (ValueError, OverflowError):
            return None
    if k == "call" and nd.get("fn") in ("ABTU_roundup_size", "ABTU_max_size", "ABTU_min_size", "ABTU_roundup_uint64", "ABTU_max_uint64"):
        args = [const_eval(F, a) for a in nd["a"]]
        if len(args) != 2 or None in args:
            return None
        if nd["fn"].startswith("ABTU_roundup"):
            return ((args[0] + args[1] - 1) // args[1]) * args[1] if args[1] else None
        return max(args) if "max" in nd["fn"] else min(args)
    if k == "un" and nd["op"] in ("-", "+", "~"):
        a = const_eval(F, nd["e"])
        return None if a is None else {"-": -a, "+": a, "~": ~a}[nd["op"]]
    return None


def copy_root(F, var, at):
    """The variable a local is a plain copy of at node `at` (a renamed temporary, a flattened helper's parameter)."""
    hops = 0
    while var is not None and hops < 4:
        d = canon.reaching_def(F, var, at)
        if not isinstance(d, int):
            break
        dn = F.nodes[F.strip(d)]
        if dn.get("k") != "ref" or dn.get("dk") not in ("var", "param"):
            break
        var, at = dn["n"], d
        hops += 1
    return var


# ---------------------------------------------------------------------------
# X9: words that are updated by atomic read-modify-write are not overwritten

X9_DOC = ("a field that some routine updates with an atomic read-modify-write (fetch_add/sub/or/and, CAS, exchange, test_and_set: "
          "num_blocked, num_scheds, the request words, the LIFO top, lock words) is stored outright only where no concurrent "
          "update can exist -- construction / initialisation / revival of the object, the lock-release primitives and the "
          "single-threaded `_unsafe` list variants; a plain store anywhere else (a counter updated as load + store, a request "
          "word cleared as a whole) loses the updates that race with it")

_X9_INIT = re.compile(r"(_create(_|$)|_init(_|$)|_revive$|^thread_revive$|^ABTD_spinlock_(clear|release)$|_unsafe$|_reset$)")


def rule_X9(P, rep, fields=None):
    rmw, stores = {}, {}
    for F in P.functions.values():
        if F.file.endswith("abtd_atomic.h") or not F.blocks:
            continue
        for _b, i in F.calls():
            fn = F.nodes[i].get("fn") or ""
            if not fn.startswith("ABTD_atomic_") or not F.nodes[i]["a"]:
                continue
            fo = F.field_of(F.nodes[i]["a"][0])
            if not fo:
                continue
            if re.search(r"fetch_|cas|exchange|test_and_set", fn):
                rmw.setdefault(fo, []).append((F, i))
            elif "store" in fn or "clear" in fn:
                stores.setdefault(fo, []).append((F, i))
        # plain (non-wrapper) stores to the same fields
        for _b, i, lh, _rh in F.stores():
            fo = F.field_of(lh)
            if fo and F.nodes[F.strip(lh)].get("k") == "mem" and F.nodes[F.strip(lh)].get("f") == fo[1]:
                stores.setdefault(fo, []).append((F, i))
    n = 0
    for fo in sorted(rmw):
        if fields is not None and fo not in fields:
            continue
        for F, i in stores.get(fo, []):
            n += 1
            ok = bool(_X9_INIT.search(F.name))
            rep.ob("X9", "%s stores %s::%s outright only while no concurrent update can exist" % (F.name, fo[0], fo[1]), ok,
                   "%s::%s is updated with atomic read-modify-write operations elsewhere (%s); this plain store in %s overwrites "
                   "updates that race with it" % (fo[0], fo[1], ", ".join(sorted(set(G.name for G, _ in rmw[fo]))[:4]), F.name),
                   loc=F.loc(i), site="x9/%s.%s/%s" % (fo[0], fo[1], F.name))
    if fields is not None:
        rep.need(set(fields) <= set(rmw), "no atomic read-modify-write found on %s" % sorted(set(fields) - set(rmw)))
    rep.need(n >= (len(fields) if fields is not None else 8), "only %d initialising stores of RMW-updated fields found" % n)


def borrow(rep, P, rule_fn, label, only=None, **kw):
    """Evaluate a sibling property's rule and record its obligations under this property's `label`
    (properties overlap: the same structural clause can be a necessary condition of several)."""
    sub = type(rep)(rep.prop, rep.tier, rep.variant)
    rule_fn(P, sub, **kw)
    rep.broken.extend("[borrowed %s] %s" % (label, b) for b in getattr(sub, "broken", []))
    n = 0
    for o in sub.obligations:
        if only is not None and o["rule"] not in only:
            continue
        n += 1
        rep.ob(label, "[%s] %s" % (o["rule"], o["instance"]), o["ok"], o["detail"], o["loc"],
               site="%s/%s" % (label, o["instance"][:150]))
    if not getattr(sub, "broken", None):
        rep.need(n >= 1, "borrowed rule %s matched nothing" % label)


def run_shared(P, rep, which=("X1", "X2", "X3")):
    if "X1" in which:
        rule_X1(P, rep)
    if "X2" in which:
        rule_X2(P, rep)
    if "X3" in which:
        rule_X3(P, rep)
    if "X4" in which:
        rule_X4(P, rep)


SHARED_DOC = {
    "X1": "atomic wrappers of abtd_atomic.h pass a builtin memory order at least as strong as their name",
    "X2": "spinlock primitives: acquire/try_acquire succeed only on a clear test_and_set; release is a release-clear",
    "X3": "every lock-transfer / conditional-acquire summary used by the lockset analysis holds on the wrapper body; "
          "the futex hand-over wrappers sample the futex word before they release the caller's lock",
}


# ---------------------------------------------------------------------------
# helpers for rule modules

def locs(F, nids):
    return ", ".join(F.loc(i) for i in nids)


def call_args(F, nid):
    return [F.render(a) for a in F.nodes[nid]["a"]]


def slot_assignments(P, F, param_values):
    """Simulate F once per value of an integer/enum parameter and collect the
    function-pointer slot assignments (record::field -> function name) made on the
    paths that return a constant 0.  Returns {value: {slot: fn}} and error values."""
    out = {}

    class TS(cfg.Typestate):
        def __init__(self):
            self.init = frozenset()
            self.results = []

        def event(self, F, nid, st, ctx):
            nd = F.nodes[nid]
            if nd.get("k") == "bin" and nd.get("asg") and nd["op"] == "=":
                fo = F.field_of(nd["lh"])
                rn = F.nodes[F.strip(nd["rh"])]
                if fo and rn.get("k") == "ref" and rn.get("dk") == "func":
                    return frozenset(x for x in st if x[0] != fo) | {(fo, rn["n"])}
                if fo and rn.get("cv") == 0 and "(*)" in (F.nodes[F.strip(nd["lh"])].get("t") or ""):
                    return frozenset(x for x in st if x[0] != fo) | {(fo, None)}
            return st

        def exit(self, F, kind, nid, st, ctx):
            rv = ctx.value(F.nodes[nid]["e"]) if nid is not None and "e" in F.nodes[nid] else None
            self.results.append((kind, rv, st))

    for pname, values in param_values.items():
        for vname, v in values.items():
            ts = TS()
            cfg.simulate(F, ts, entry_consts={pname: v})
            out[vname] = ts.results
    return out
