"""C06.R9 -- scheduler <-> pool reference counting (num_scheds) is unconditional.

ABTI_sched_has_unit counts the blocked units of a shared-access pool only while num_scheds == 1,
so a reference that is retained but not released on some path (or released under a condition that
has nothing to do with the pool being there) makes a later sole consumer ignore its blocked units
and a join return early.  Decided by control dependence: walking up from the retain / release call
site, every governing condition is (i) the loop over the scheduler's pools, (ii) the NULL test of
the very pool being released, (iii) an assertion, or (iv) a guard whose other edge leaves the
routine without ever reaching a retain / release site (error exits)."""
from abtverif import canon, cfg, ctrldep
from abtverif.seq import macros_in as seq_macros

DOC = ("every pool of a scheduler is retained once when the scheduler is created and released once when it is freed: "
       "the retain/release call sites depend only on the pool loop, the NULL test of that pool, and error exits")
RETAIN, RELEASE = "ABTI_pool_retain", "ABTI_pool_release"


def rule_R9(P, rep):
    n = 0
    for fn, file, callee in (("sched_create", "src/sched/sched.c", RETAIN), ("ABTI_sched_free", "src/sched/sched.c", RELEASE)):
        F = P.fn(fn, file)
        sites = [i for _b, i in F.calls({RETAIN, RELEASE})]
        mine = [i for _b, i in F.calls(callee)]
        rep.need(mine, "%s does not call %s" % (fn, callee))
        for i in mine:
            # error-undo sites (release inside sched_create) are governed by the failed step: only the
            # primary site of each routine is constrained
            bad, loops = ctrldep.per_element(F, i, sites)
            loops = loops is not None
            n += 1
            rep.ob("R9", "%s: %s(%s) runs for every pool of the scheduler" % (fn, callee, canon.expr(F, F.nodes[i]["a"][0])),
                   not bad and bool(loops), ("; ".join(bad)) if bad else "not inside the loop over the pools",
                   loc=F.loc(i), site="%s/%s" % (fn, callee))
    rep.need(n >= 2, "only %d retain/release sites" % n)
    # a scheduler that is about to be freed without its caller's pools gives up its references when it forgets them:
    # every store of the NULL handle into ABTI_sched::pools[] is preceded on its path by a release of that element
    m = 0
    for F in sorted(P.functions.values(), key=lambda f: (f.file, f.line)):
        dets = []
        for _b, i, lh, rh in F.stores():
            ln = F.nodes[F.strip(lh)]
            if rh is None or ln.get("k") != "idx" or F.field_of(ln["b"]) != ("ABTI_sched", "pools"):
                continue
            if not seq_macros(F, rh) & {"ABT_POOL_NULL"}:
                continue
            dets.append((i, canon.expr(F, lh)))
        for i, elem in dets:
            rels = [c for _b, c in F.calls(RELEASE) if elem in canon.expr(F, F.nodes[c]["a"][0])]
            ok = any(cfg.dominates(F, c, i) for c in rels)
            m += 1
            rep.ob("R9", "%s: %s is released before the scheduler forgets it" % (F.name, elem), ok,
                   "the handle is overwritten with ABT_POOL_NULL without ABTI_pool_release: the pool keeps counting a scheduler "
                   "that no longer exists", loc=F.loc(i), site="%s/detach" % F.name)
    rep.need(m >= 2, "only %d pool detach sites" % m)
