"""C06.R9 -- scheduler <-> pool reference counting (num_scheds) is unconditional.

ABTI_sched_has_unit counts the blocked units of a shared-access pool only while num_scheds == 1,
so a reference that is retained but not released on some path (or released under a condition that
has nothing to do with the pool being there) makes a later sole consumer ignore its blocked units
and a join return early.  Decided by control dependence: walking up from the retain / release call
site, every governing condition is (i) the loop over the scheduler's pools, (ii) the NULL test of
the very pool being released, (iii) an assertion, or (iv) a guard whose other edge leaves the
routine without ever reaching a retain / release site (error exits)."""
from abtverif import canon, cfg, ctrldep

DOC = ("every pool of a scheduler is retained once when the scheduler is created and released once when it is freed: "
       "the retain/release call sites depend only on the pool loop, the NULL test of that pool, and error exits")
RETAIN, RELEASE = "ABTI_pool_retain", "ABTI_pool_release"


def rule_R9(P, rep):
    n = 0
    for fn, file, callee in (("sched_create", "src/sched/sched.c", RETAIN), ("ABTI_sched_free", "src/sched/sched.c", RELEASE)):
        F = P.fn(fn, file)
        sites = [i for _b, i in F.calls({RETAIN, RELEASE})]
        mine = [i for _b, i in F.calls(callee)]
        rep.need(mine, "%s does not call %s" % (fn, callee))
        for i in mine:
            # error-undo sites (release inside sched_create) are governed by the failed step: only the
            # primary site of each routine is constrained
            bad, loops = ctrldep.per_element(F, i, sites)
            loops = loops is not None
            n += 1
            rep.ob("R9", "%s: %s(%s) runs for every pool of the scheduler" % (fn, callee, canon.expr(F, F.nodes[i]["a"][0])),
                   not bad and bool(loops), ("; ".join(bad)) if bad else "not inside the loop over the pools",
                   loc=F.loc(i), site="%s/%s" % (fn, callee))
    rep.need(n >= 2, "only %d retain/release sites" % n)
