"""C06.R9 -- scheduler <-> pool reference counting (num_scheds) is unconditional.

ABTI_sched_has_unit counts the blocked units of a shared-access pool only while num_scheds == 1,
so a reference that is retained but not released on some path (or released under a condition that
has nothing to do with the pool being there) makes a later sole consumer ignore its blocked units
and a join return early.  Decided by control dependence: walking up from the retain / release call
site, every governing condition is (i) the loop over the scheduler's pools, (ii) the NULL test of
the very pool being released, (iii) an assertion, or (iv) a guard whose other edge leaves the
routine without ever reaching a retain / release site (error exits)."""
from abtverif import canon, cfg, ctrldep

DOC = ("every pool of a scheduler is retained once when the scheduler is created and released once when it is freed: "
       "the retain/release call sites depend only on the pool loop, the NULL test of that pool, and error exits")
RETAIN, RELEASE = "ABTI_pool_retain", "ABTI_pool_release"


def _reaches_any(F, start, targets):
    seen = set()
    st = [start]
    while st:
        b = st.pop()
        if b in seen:
            continue
        seen.add(b)
        if b in targets:
            return True
        st.extend(s for s in F.blocks[b].succs if s is not None)
    return False


def _governing(F, nid, sites):
    """Conditions that decide whether call nid runs, other than the pool loop, the NULL test of
    the pool, assertions and error-exit guards.  Inside the loop the walk continues upwards through
    guards (a guard may itself be nested in a condition); outside the loop a guard is terminal."""
    bid = F.block_of(nid)
    target_blocks = set(F.block_of(s) for s in sites)
    arg = canon.expr(F, F.nodes[nid]["a"][0])
    heads = [a for a, k in ctrldep.closure(F, bid) if F.blocks[a].tk in ("ForStmt", "WhileStmt", "DoStmt")]
    head = heads[0] if heads else None

    def in_loop(x):
        return head is not None and _reaches_any(F, head, {x}) and _reaches_any(F, x, {head})
    bad = []
    seen = set()
    work = [bid]
    while work:
        b = work.pop()
        for a, k in ctrldep.direct(F, b, include_noret=False):
            if (a, k) in seen:
                continue
            seen.add((a, k))
            A = F.blocks[a]
            inside = in_loop(a)
            others = [s for j, s in enumerate(A.succs) if j != k and s is not None]
            guard = bool(others) and (not any(_reaches_any(F, o, target_blocks) for o in others) or
                                      all(F.blocks[o].noret for o in others))
            if guard:
                if inside:
                    work.append(a)
                continue
            if A.tk in ("ForStmt", "WhileStmt", "DoStmt"):
                if a == head:
                    work.append(a)       # the loop over the pools
                continue                 # an earlier loop that merely precedes this one
            if A.tc is None:
                bad.append("<%s>" % A.tk)
                continue
            aj, at = cfg.cond_atom(F, A.tc, True)
            lab, flip = canon.cond(F, aj)
            if lab == arg and inside:
                work.append(a)           # NULL test of the pool that is released
                continue
            bad.append(lab)
    return sorted(set(bad)), head is not None


def rule_R9(P, rep):
    n = 0
    for fn, file, callee in (("sched_create", "src/sched/sched.c", RETAIN), ("ABTI_sched_free", "src/sched/sched.c", RELEASE)):
        F = P.fn(fn, file)
        sites = [i for _b, i in F.calls({RETAIN, RELEASE})]
        mine = [i for _b, i in F.calls(callee)]
        rep.need(mine, "%s does not call %s" % (fn, callee))
        for i in mine:
            # error-undo sites (release inside sched_create) are governed by the failed step: only the
            # primary site of each routine is constrained
            bad, loops = _governing(F, i, sites)
            n += 1
            rep.ob("R9", "%s: %s(%s) runs for every pool of the scheduler" % (fn, callee, canon.expr(F, F.nodes[i]["a"][0])),
                   not bad and bool(loops), ("also depends on %s" % bad) if bad else "not inside the loop over the pools",
                   loc=F.loc(i), site="%s/%s" % (fn, callee))
    rep.need(n >= 2, "only %d retain/release sites" % n)
