"""C11 -- suspend/resume and directed switches hand control as documented
(structural part)."""
import re
from abtverif import canon, cfg, seq
from abtverif.seq import idx, is_call, show
from . import common, C02, C06, C12
from .C06 import Sel, atomic_test, rooted, descendants_through

EXPLANATION = (
    "Decides, for every switch primitive of abti_ythread.h and its API entry point: R1 (= C02.R3) BLOCKED is "
    "published last in the suspend callbacks; R2 a resume marks the unit READY, pushes it and only then un-counts "
    "it, and the API resumes only a unit observed BLOCKED; R3 each primitive switches to the ULT it was given and "
    "passes a post-switch callback whose effect on the caller matches the primitive's family -- yield family: the "
    "caller is pushed back to its pool on every non-cancelled path; suspend family: BLOCKED is stored; exit family: "
    "the caller is terminated -- and the API routines hand their own argument to the primitive; R4 "
    "ABT_thread_yield_to removes the target from its pool, after testing that it is queued and READY, before "
    "switching; R5 (= C06.R1-R4) blocked-counter balance; R6 after every returning switch the cached execution-"
    "stream/local pointer is re-read (a ULT may resume on another stream).  'Runs exactly once per resume' over "
    "histories with user-defined schedulers is not decided.")
DECLINED = ["'runs exactly once per resume' over histories with user-defined schedulers"]
ASSUMPTIONS = ["C02 A1-A5: the assembly runs the callback after saving the old context"]
RULES_DOC = dict(common.SHARED_DOC)
RULES_DOC["R7"] = "= C12.R3: a unit that is suspending is never terminated inside its suspend callback (only yield-family callbacks may honour a cancel request)"
RULES_DOC["R8"] = "the directed-yield entry points that document ABT_ERR_INV_THREAD for the caller itself reach their switch primitive only after an effective test that the target is not the caller (a unit that switches to itself is RUNNING and queued at once)"
RULES_DOC["R9"] = "= C01.R5: a yield-family callback pushes the caller back iff it was not cancelled (a terminated unit is never re-queued)"
RULES_DOC["X4"] = common.X4_DOC
RULES_DOC["R10"] = "a copy of *pp_local taken before a call that may resume the caller on another stream (any call that is handed pp_local itself) is not used after that call: the blocking helpers refresh *pp_local, a cached copy still names the old stream"
RULES_DOC["R12"] = "= C02.R5: every directed switch marks the ULT it switches TO as RUNNING (not the caller): a target that runs while its state still reads BLOCKED can be resumed -- pushed to its pool -- a second time"
RULES_DOC["R11"] = "ABT_thread_create_to stores the new handle through its out-parameter before it switches to the new ULT (the documented order: the created ULT may read the handle location as soon as it runs)"
RULES_DOC.update({
    "R1": "= C02.R3: suspend callbacks publish BLOCKED before anything that lets a waker run",
    "R2": "resume: READY -> push -> un-count; ABT_thread_resume acts only on a unit observed BLOCKED (acquire)",
    "R3": "primitive table: target = the given ULT; callback effect on the caller = family of the primitive; API passes its own argument",
    "R4": "ABT_thread_yield_to: in-pool & READY test, pre-count, remove target from its pool, then switch",
    "R5": "= C06.R1-R4: blocked counter balance of all post-switch callbacks",
    "R6": "after a returning switch the local stream pointer is re-read before use / return",
})
VARIANTS = ["no_ext_thread", "active_wait", "tool_interface"]
YH = "src/include/abti_ythread.h"
Y = "src/ythread.c"


def classify_callback(P, name):
    """'yield' | 'suspend' | 'exit' | 'other' from the callback's effect on p_prev on every path."""
    F = P.fn(name, Y, flat=True)
    BLOCKED = P.enum_consts["ABT_THREAD_STATE_BLOCKED"]
    calls = {"ABTI_pool_add_thread", "ABTI_thread_terminate", "ABTI_thread_handle_request", "ythread_callback_yield_impl"}
    # canonical label of the cancellation test: `ABTI_thread_handle_request(..) & CANCELLED`, true = the bit is set
    sel = Sel(calls=calls, fields={"state"}, conds=lambda t: "ABTI_thread_handle_request(" in t, canon=True)
    kinds = set()
    for toks, kind, rv, rtxt in seq.sequences(F, sel):
        if kind != "ret":
            continue
        if idx(toks, is_call("ythread_callback_yield_impl")):
            kinds.add(classify_callback(P, "ythread_callback_yield_impl"))
            continue
        cancelled = any(t[0] == "if" and t[2] for t in toks)
        if any(t[0] == "ast" and t[2] == "ABTI_thread::state" and t[3] == BLOCKED for t in toks):
            kinds.add("suspend")
        elif idx(toks, is_call("ABTI_thread_terminate")):
            kinds.add("exit")
        elif idx(toks, is_call("ABTI_pool_add_thread")):
            kinds.add("yield")
        elif cancelled:
            kinds.add("yield-cancelled")
        else:
            kinds.add("none")
    if kinds <= {"yield", "yield-cancelled"} and "yield" in kinds:
        return "yield"
    if kinds == {"suspend"}:
        return "suspend"
    if kinds == {"exit"}:
        return "exit"
    return "other:" + ",".join(sorted(kinds))


PRIMS = {
    # primitive: (family, has target parameter)
    "ABTI_ythread_yield": ("yield", False),
    "ABTI_ythread_yield_to": ("yield", True),
    "ABTI_ythread_thread_yield_to": ("yield", True),
    "ABTI_ythread_resume_yield_to": ("yield", True),
    "ABTI_ythread_suspend": ("suspend", False),
    "ABTI_ythread_suspend_to": ("suspend", True),
    "ABTI_ythread_resume_suspend_to": ("suspend", True),
    "ABTI_ythread_suspend_unlock": ("suspend", False),
    "ABTI_ythread_suspend_join": ("suspend", False),
    "ABTI_ythread_suspend_replace_sched": ("suspend", False),
    "ABTI_ythread_exit": ("exit", False),
    "ABTI_ythread_exit_to": ("exit", True),
    "ABTI_ythread_resume_exit_to": ("exit", True),
}
SIB = {"ABTI_ythread_switch_to_sibling_internal", "ABTI_ythread_jump_to_sibling_internal"}
PAR = {"ABTI_ythread_switch_to_parent_internal", "ABTI_ythread_jump_to_parent_internal"}
API = {
    "ABT_self_yield_to": ("src/self.c", "ABTI_ythread_yield_to"),
    "ABT_self_resume_yield_to": ("src/self.c", "ABTI_ythread_resume_yield_to"),
    "ABT_self_suspend_to": ("src/self.c", "ABTI_ythread_suspend_to"),
    "ABT_self_resume_suspend_to": ("src/self.c", "ABTI_ythread_resume_suspend_to"),
    "ABT_self_exit_to": ("src/self.c", "ABTI_ythread_exit_to"),
    "ABT_self_resume_exit_to": ("src/self.c", "ABTI_ythread_resume_exit_to"),
    "ABT_thread_yield_to": ("src/thread.c", "ABTI_ythread_thread_yield_to"),
    "ABT_thread_create_to": ("src/thread.c", "ABTI_ythread_yield_to"),
    "ABT_thread_revive_to": ("src/thread.c", "ABTI_ythread_yield_to"),
    "ABT_self_suspend": ("src/self.c", "ABTI_ythread_suspend"),
}


YT = "ABTI_ythread*"


def _ty(p):
    return p["t"].replace(" ", "")


def _roles(G):
    """role -> parameter index of a switch helper / primitive, from the parameter TYPES: the ABTI_ythread * parameters
    in order are the outgoing unit ('old') and the unit switched to ('new'), the function pointer is the post-switch
    callback, the last void * its argument."""
    r = {}
    yts = [i for i, p in enumerate(G.params) if _ty(p) == YT]
    if yts:
        r["old"] = yts[0]
    if len(yts) > 1:
        r["new"] = yts[1]
    fps = [i for i, p in enumerate(G.params) if "(*)" in p["t"]]
    if fps:
        r["f_cb"] = fps[0]
        vs = [i for i, p in enumerate(G.params) if _ty(p) == "void*" and i > fps[0]]
        if vs:
            r["cb_arg"] = vs[-1]
    return r


def _local_types(F):
    out = {}
    for bid, j in F.all_events():
        dn = F.nodes[j]
        if dn.get("k") == "decl":
            for v in dn["vars"]:
                out[v["n"]] = (v["t"], j, v.get("init"))
    return out


def _struct_values(F, var, init):
    """field index/name -> value node of a local struct: from its initialiser list, else from member stores"""
    vals = {}
    il = F.nodes[F.strip(init)] if init is not None else None
    if il is not None and il.get("k") == "ilist":
        for k, e in enumerate(il["e"]):
            vals[k] = e
        return vals
    for b, i, lh, rh in F.stores():
        ln = F.nodes[F.strip(lh)]
        if rh is not None and ln.get("k") == "mem" and not ln["arrow"]:
            bn = F.nodes[F.strip(ln["b"])]
            if bn.get("k") == "ref" and bn["n"] == var:
                vals[ln["f"]] = rh
    return vals


def rule_R3(P, rep):
    cls_cache = {}
    for prim, (family, has_target) in sorted(PRIMS.items()):
        F = P.fn(prim, YH, required=(prim != "ABTI_ythread_suspend_replace_sched"))
        if F is None:
            F = P.fn(prim)
        sw = F.calls(SIB | PAR)
        rep.need(sw, "%s does not switch" % prim)
        mine = _roles(F)
        rep.need("old" in mine and (not has_target or "new" in mine), "%s: ABTI_ythread * parameters not found" % prim)
        p_self = F.params[mine["old"]]["n"]
        p_target = F.params[mine["new"]]["n"] if has_target else None
        ltypes = _local_types(F)
        for bid, nid in sw:
            nd = F.nodes[nid]
            G = P.resolve_call(F, nd)
            roles = _roles(G)
            # arguments by role, as access paths rooted at this primitive's parameters (temporaries resolved)
            argmap = {r: rooted(F, nd["a"][k]) for r, k in roles.items() if k < len(nd["a"])}
            why = []
            cbi = [nd["a"][roles["f_cb"]]] if "f_cb" in roles else []
            # the callback is a designator or a local that only ever holds designators: each candidate is classified
            cands = sorted((F.func_values(cbi[0]) if cbi else None) or [argmap.get("f_cb")])
            cb = "|".join(str(c) for c in cands)
            for c in cands:
                if c not in cls_cache:
                    cls_cache[c] = classify_callback(P, c) if P.fns(c) else "unknown"
                if cls_cache[c] != family:
                    why.append("passes %s whose effect on the caller is '%s'" % (c, cls_cache[c]))
            if has_target:
                if nd["fn"] not in SIB:
                    why.append("a directed switch must go to the sibling (target), not the parent")
                elif argmap.get("new") != p_target:
                    why.append("switches to %s instead of the given target" % argmap.get("new"))
            else:
                if nd["fn"] in SIB and prim != "ABTI_ythread_exit":
                    why.append("undirected primitive switches to a sibling")
            if argmap.get("old") != p_self:
                why.append("outgoing ULT is %s" % argmap.get("old"))
            # the callback argument must identify the outgoing ULT (directly or through the arg struct)
            ca = argmap.get("cb_arg", "")
            carries = ca == p_self or (ca.startswith("&") and ltypes.get(ca[1:], ("",))[0].startswith("ABTI_ythread_callback_"))
            if not carries:
                why.append("callback argument %s does not carry the outgoing ULT" % ca)
            rep.ob("R3", "%s (%s family) -> %s with callback %s" % (prim, family, nd["fn"].replace("ABTI_ythread_", ""), cb),
                   not why, "; ".join(why), loc=F.loc(nid), site="%s/%s" % (prim, cb))
        # arg structs: { p_self, p_target/lock/... } first field must be the outgoing ULT
        for var, (t, j, init) in sorted(ltypes.items()):
            if not t.startswith("ABTI_ythread_callback_"):
                continue
            rec = P.record(t)
            names = [f["n"] for f in rec["fields"]]
            sv = _struct_values(F, var, init)
            if not sv:
                continue
            vals = [rooted(F, sv[k]) if k in sv else (rooted(F, sv[n]) if n in sv else None)
                    for k, n in enumerate(names)]
            ok = bool(vals) and vals[0] == p_self and names[0] == "p_prev"
            if has_target and len(names) > 1 and names[1] == "p_next":
                ok = ok and vals[1] == p_target
            rep.ob("R3", "%s fills %s as %s" % (prim, t, dict(zip(names, vals))), ok,
                   "p_prev must be the caller and p_next the target", loc=F.loc(j), site="%s/argstruct" % prim)
    # API -> primitive: each success path performs exactly one switch, through the designated primitive,
    # with distinct caller / target ULTs
    allprims = set(PRIMS)
    for api, (file, prim) in sorted(API.items()):
        F = P.fn(api, file)
        rep.need(F.calls(prim), "%s does not call %s" % (api, prim))
        G = P.fn(prim)
        roles = _roles(G)
        sel = Sel(calls=lambda c: c in allprims)
        n = 0
        for toks, kind, rv, rtxt in seq.sequences(F, sel, max_len=40):
            sw = [t for t in toks if t[0] == "call"]
            if not sw:
                continue
            n += 1
            why = []
            if len(sw) != 1 or sw[0][1] != prim:
                why.append("switches through %s" % [t[1] for t in sw])
            else:
                args = F.nodes[sw[0][-1]]["a"]
                argmap = {r: rooted(F, args[k]) for r, k in roles.items() if k < len(args)}
                if PRIMS[prim][1] and argmap.get("new") == argmap.get("old"):
                    why.append("caller and target are the same unit (%s)" % argmap.get("new"))
                if kind == "ret" and rv not in (0, None):
                    why.append("returns error %s after switching" % rv)
            rep.ob("R3", "%s switches exactly once through %s" % (api, prim), not why, "; ".join(why),
                   loc="%s:%d" % (F.file, F.line), site="%s/%s/%d" % (api, prim, len(toks)))
        rep.need(n >= 1, "%s: no switching path" % api)
    rep.min_instances("R3", 28)


def rule_R2(P, rep):
    C06.rule_R2(P, rep)
    F = P.fn("ABT_thread_resume", "src/thread.c")
    BLOCKED = P.enum_consts["ABT_THREAD_STATE_BLOCKED"]

    def conds(text, F, node):
        order = atomic_test(F, node, "ABTI_thread::state", BLOCKED)
        if order:
            return "state==BLOCKED/%s" % order       # canonical polarity: true = the loaded state equals BLOCKED
        return False
    sel = Sel(calls={"ABTI_ythread_resume_and_push"}, conds=conds, canon=True)
    n = 0
    for toks, kind, rv, rtxt in seq.sequences(F, sel):
        r = idx(toks, is_call("ABTI_ythread_resume_and_push"))
        if kind != "ret" or not r:
            continue
        n += 1
        tests = [t for t in toks[:r[0]] if t[0] == "if" and t[1].startswith("state==BLOCKED")]
        ok = bool(tests) and tests[-1][2] is True and tests[-1][1].endswith("/acquire")
        rep.ob("R2", "ABT_thread_resume resumes only after observing BLOCKED with an acquire load", ok, show(toks),
               loc="%s:%d" % (F.file, F.line), site="ABT_thread_resume/precondition")
    rep.need(n >= 1, "ABT_thread_resume never resumes")


def rule_R4(P, rep):
    F = P.fn("ABT_thread_yield_to", "src/thread.c")
    READY = P.enum_consts["ABT_THREAD_STATE_READY"]
    G = P.fn("ABTI_ythread_thread_yield_to")
    roles = _roles(G)
    rep.need("old" in roles and "new" in roles, "ABTI_ythread_thread_yield_to: ABTI_ythread * parameters not found")
    handle = F.params[0]["n"]

    def conds(text, F, node):
        order = atomic_test(F, node, "ABTI_thread::state", READY)
        if order:
            return "state==READY/%s" % order         # canonical polarity: true = the loaded state equals READY
        for d in descendants_through(F, node):
            dn = F.nodes[d]
            if dn.get("k") == "call" and "fe" in dn and F.fieldpath(dn["fe"]).endswith("u_is_in_pool"):
                # the canonical label is `(*u_is_in_pool)(unit) == 1` (or the bare call): true = the unit is queued
                return "in_pool?" if (text.endswith(") == 1") or " == " not in text) else "in_pool?:" + text
        return False
    sel = Sel(calls={"ABTI_pool_remove", "ABTI_ythread_thread_yield_to", C06.INC}, conds=conds, indirect=True, canon=True)
    n = 0
    for toks, kind, rv, rtxt in seq.sequences(F, sel):
        sw = idx(toks, is_call("ABTI_ythread_thread_yield_to"))
        if kind != "ret" or not sw:
            continue
        n += 1
        why = []
        swargs = F.nodes[toks[sw[0]][-1]]["a"]
        cur, tgt = rooted(F, swargs[roles["old"]]), rooted(F, swargs[roles["new"]])
        rm = idx(toks, is_call("ABTI_pool_remove"))
        if len(rm) != 1 or rm[0] > sw[0]:
            why.append("target not removed from its pool before the switch (it could be popped and run twice)")
        else:
            args = [rooted(F, a) for a in F.nodes[toks[rm[0]][-1]]["a"]]
            if args[0] != tgt + "->thread.p_pool" or args[1] != tgt + "->thread.unit":
                why.append("removes %s" % args)
            inp = [t for t in toks[:rm[0]] if t[0] == "if" and t[1] == "in_pool?"]
            rdy = [t for t in toks[:rm[0]] if t[0] == "if" and t[1].startswith("state==READY")]
            if not inp or not inp[-1][2]:
                why.append("no successful in-pool test before the removal")
            if not rdy or rdy[-1][2] is not True or not rdy[-1][1].endswith("/acquire"):
                why.append("no acquire observation of READY before the removal")
            if inp and rdy and toks.index(inp[-1]) > toks.index(rdy[-1]):
                why.append("state tested before the in-pool flag (READY is stored before the push, so the flag must be read first)")
        # the unit switched to is the one the caller named (derived from the handle parameter), the outgoing one is the
        # unit running on the local stream
        if ("ABTI_thread_get_ptr(%s)" % handle) not in canon.expr(F, swargs[roles["new"]]) or \
                "ABTI_xstream::p_thread" not in canon.expr(F, swargs[roles["old"]]) or cur == tgt:
            why.append("switches %s -> %s" % (cur, tgt))
        rep.ob("R4", "ABT_thread_yield_to: test, pre-count, remove, switch [%s]" % show(toks)[:200], not why, "; ".join(why),
               loc="%s:%d" % (F.file, F.line), site="ABT_thread_yield_to/switch")
    rep.need(n >= 1, "ABT_thread_yield_to never switches")


def rule_R6(P, rep):
    """Stale stream: a function that holds `ABTI_local **pp_local` and passes the address of a local
    ABTI_xstream* to a function that may switch must refresh *pp_local from it on every path to a return."""
    n = 0
    for F in sorted(P.functions.values(), key=lambda f: (f.file, f.line)):
        pl = [p["n"] for p in F.params if _ty(p) == "ABTI_local**"]
        if not pl:
            continue
        ppl = pl[0]
        refresh = []      # (store node, canonical value): stores through the ABTI_local ** parameter
        for b, i, lh, rh in F.stores():
            ln = F.nodes[F.strip(lh)]
            if rh is not None and ln.get("k") == "un" and ln["op"] == "*":
                bn = F.nodes[F.strip(ln["e"])]
                if bn.get("k") == "ref" and bn["n"] == ppl:
                    refresh.append((i, canon.expr(F, rh)))
        for bid, nid in F.calls():
            nd = F.nodes[nid]
            G = P.resolve_call(F, nd) if nd.get("fn") else None
            if G is None:
                continue
            for p, a in zip(G.params, nd["a"]):
                if _ty(p) == "ABTI_xstream**":
                    an = F.nodes[F.strip(a)]
                    inner = F.nodes[F.strip(an["e"])] if an.get("k") == "un" and an["op"] == "&" else None
                    if inner is not None and inner.get("k") == "ref":
                        var = inner["n"]
                        ok_refresh = [i for i, val in refresh if val == "ABTI_xstream_get_local(%s)" % var]
                        path = cfg.reach_exit_avoiding(F, nid, avoid_nodes=ok_refresh)
                        n += 1
                        rep.ob("R6", "%s refreshes *%s from %s after %s on every path to a return" % (F.name, ppl, var, nd["fn"]),
                               path is None, "a return is reachable without `*%s = ABTI_xstream_get_local(%s)` (blocks %s): the "
                               "caller keeps the stream it blocked on" % (ppl, var, path), loc=F.loc(nid),
                               site="%s/refresh/%s" % (F.name, nd["fn"]))
    rep.need(n >= 4, "only %d switch sites in pp_local functions" % n)
    # same for ABTI_xstream **pp_local_xstream helpers of abti_ythread.h is C02.R4
    rep.min_instances("R6", 4)


def rule_R8(P, rep):
    from abtverif import ctrldep
    for fn, file, prim in (("ABT_self_yield_to", "src/self.c", "ABTI_ythread_yield_to"),
                           ("ABT_thread_yield_to", "src/thread.c", "ABTI_ythread_thread_yield_to")):
        F = P.fn(fn, file)
        tp = F.params[0]["n"]
        sites = [i for _b, i in F.calls(prim)]
        rep.need(sites, "%s does not call %s" % (fn, prim))
        for i in sites:
            conds = ctrldep.conditions(F, i)
            def is_self_test(lab, val):
                if val or lab.count(" == ") != 1:
                    return False
                a, b = lab.split(" == ")
                tgt = "ABTI_thread_get_ptr(%s)" % tp
                other = b if tgt in a else (a if tgt in b else None)
                # the other side is the caller: anything but a constant (NULL tests carry no `==` in canonical form)
                return other is not None and not re.match(r"^-?\d+$|^\(void \*\)0$", other.strip())
            ok = any(is_self_test(lab, val) for lab, val, _a in conds)
            rep.ob("R8", "%s switches only after testing that the target is not the caller" % fn, ok,
                   "no governing `target == caller` test (false) before %s: %s" % (prim, [c[0] for c in conds][:6]),
                   loc=F.loc(i), site="%s/self-target" % fn)


def rule_R10(P, rep):
    n = 0
    for F in sorted(P.functions.values(), key=lambda f: (f.file, f.line)):
        pl = [p["n"] for p in F.params if p["t"].replace(" ", "") == "ABTI_local**"]
        if not pl or not F.blocks:
            continue
        ppl = pl[0]
        # locals that hold a copy of *pp_local
        copies = {}
        for _b, i in F.all_events():
            nd = F.nodes[i]
            if nd.get("k") == "decl":
                for v in nd["vars"]:
                    if "init" in v and canon.expr(F, v["init"], 0) == "*" + ppl:
                        copies.setdefault(v["n"], []).append(i)
            elif nd.get("k") == "bin" and nd.get("asg") and nd["op"] == "=":
                ln = F.nodes[F.strip(nd["lh"])]
                if ln.get("k") == "ref" and ln.get("dk") == "var" and canon.expr(F, nd["rh"], 0) == "*" + ppl:
                    copies.setdefault(ln["n"], []).append(i)
        # calls that receive pp_local itself
        handoffs = [i for _b, i in F.calls() if any(F.nodes[F.strip(a)].get("k") == "ref" and F.nodes[F.strip(a)].get("n") == ppl
                                                     for a in F.nodes[i]["a"])]
        n += 1
        bad = []
        for v, defs in copies.items():
            uses = [j for j, nd in enumerate(F.nodes) if nd and nd.get("k") == "ref" and nd.get("n") == v and nd.get("dk") == "var" and
                    F.block_of(j) is not None and j not in defs]
            for h in handoffs:
                if not any(cfg.can_reach(F, d, h) or cfg.dominates(F, d, h) for d in defs):
                    continue
                for u in uses:
                    if cfg.can_reach(F, h, u, avoid_nodes=defs):
                        bad.append("`%s` (a copy of *%s taken at %s) is used at %s after %s was handed %s" %
                                   (v, ppl, F.loc(defs[0]), F.loc(u), F.nodes[h]["fn"], ppl))
        # the dual: a callee that may move the caller to another stream is handed the address of a local copy; then the
        # in/out parameter itself is stale unless the copy is written back before *pp_local is used again or the function returns
        for _b, h in F.calls():
            G = P.resolve_call(F, F.nodes[h])
            if G is None:
                continue
            for prm, a in zip(G.params, F.nodes[h]["a"]):
                an = F.nodes[F.strip(a)]
                if prm["t"].replace(" ", "") != "ABTI_local**" or an.get("k") != "un" or an["op"] != "&":
                    continue
                vn = F.nodes[F.strip(an["e"])]
                if vn.get("k") != "ref" or vn.get("dk") != "var":
                    continue
                v = vn["n"]
                back = [i for _b2, i, lh, rh in F.stores() if rh is not None and canon.expr(F, lh, 0) == "*" + ppl and
                        F.nodes[F.strip(rh)].get("n") == v]
                later = [j for j, nd in enumerate(F.nodes) if nd and nd.get("k") == "ref" and nd.get("n") == ppl and
                         F.block_of(j) is not None and j not in F.descendants(h)]
                for u in later:
                    if u in [x for b in back for x in F.descendants(b)]:
                        continue
                    if cfg.can_reach(F, h, u, avoid_nodes=back):
                        bad.append("%s is handed &%s (a local) at %s, then %s is used at %s without `*%s = %s`" %
                                   (F.nodes[h]["fn"], v, F.loc(h), ppl, F.loc(u), ppl, v))
                if not back:
                    bad.append("%s is handed &%s (a local) at %s and the stream it resumes on is never written back to *%s" %
                               (F.nodes[h]["fn"], v, F.loc(h), ppl))
        rep.ob("R10", "%s: no stale copy of *%s is used after a call that may change it" % (F.name, ppl), not bad,
               "; ".join(sorted(set(bad)))[:500], loc="%s:%d" % (F.file, F.line), site="%s/stale-local" % F.name)
    rep.need(n >= 6, "only %d functions take an ABTI_local ** parameter" % n)


def rule_R11(P, rep):
    F = P.fn("ABT_thread_create_to", "src/thread.c")
    outp = [p["n"] for p in F.params if p["t"].replace(" ", "") == "ABT_thread*"]
    rep.need(len(outp) == 1, "ABT_thread_create_to: out-handle parameter not found")
    sw = [i for _b, i in F.calls("ABTI_ythread_yield_to")]
    st = [i for _b, i, lh, rh in F.stores() if F.nodes[F.strip(lh)].get("k") == "un" and F.nodes[F.strip(lh)]["op"] == "*" and
          F.base_var(lh) == outp[0] and rh is not None and "ABTI_ythread_get_handle(" in canon.expr(F, rh)]
    rep.need(sw and st, "ABT_thread_create_to: switch or handle store not found")
    late = [F.loc(s) for s in st if any(cfg.can_reach(F, w, s) for w in sw)]
    rep.ob("R11", "ABT_thread_create_to stores the new handle before switching to the new ULT", not late,
           "the handle is stored at %s, after the switch" % late, loc=F.loc(sw[0]), site="create_to/handle-first")


def run(P, rep, tier):
    common.rule_X4(P, rep)
    common.run_shared(P, rep, which=("X1",))
    sub = type(rep)(rep.prop, rep.tier, rep.variant)
    C02.rule_R3(P, sub)
    for o in sub.obligations:
        rep.ob("R1", o["instance"], o["ok"], o["detail"], o["loc"], site="R1/" + o["instance"][:150])
    rule_R2(P, rep)
    rule_R3(P, rep)
    rule_R4(P, rep)
    sub = type(rep)(rep.prop, rep.tier, rep.variant)
    C06.rule_R1_R3_R4(P, sub)
    for o in sub.obligations:
        rep.ob("R5", "[C06.%s] %s" % (o["rule"], o["instance"]), o["ok"], o["detail"], o["loc"], site="R5/" + o["instance"][:150])
    rule_R6(P, rep)
    common.borrow(rep, P, C12.rule_R3, "R7")
    rule_R8(P, rep)
    rule_R10(P, rep)
    rule_R11(P, rep)
    common.borrow(rep, P, C02.rule_R4_R5, "R12", only=("R5",))
    from . import C01
    common.borrow(rep, P, C01.rule_R5, "R9")
