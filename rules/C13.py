"""C13 -- migration (structural part)."""
from abtverif import cfg, locks, seq
from abtverif.seq import idx, is_call, show, has_if, held_at
from . import common, C01, C06

EXPLANATION = (
    "Decides that a migration request publishes its target pool before the request bit (R1); that request handling "
    "re-associates the unit once, then calls the migration callback at most once and only when one is registered, "
    "then clears the request bit, and does nothing else on its error paths (R2); that all four ABT_thread_migrate* "
    "routines reject non-migratable units and main-scheduler ULTs and reject -- with the same polarity -- a target "
    "whose pool EQUALS the unit's current pool (sibling cross-check of every comparison against the current pool) "
    "(R3); that ABT_thread_migrate copies the stream list under the list lock, skips the unit's last stream and "
    "streams that are not RUNNING, and frees its array on every exit (R4); and that a migrated unit is re-pushed "
    "exactly once by the scheduler / yield callbacks (R5 = C01.R3/R5).  Which stream is picked and exactly-once "
    "callbacks over overwritten requests are not decided.")
DECLINED = ["'picks some other running stream when one exists' beyond the rejection polarity",
            "exactly-once callback over repeated / overwritten requests (histories)"]
ASSUMPTIONS = ["C14 for the unit re-association performed by ABTI_thread_set_associated_pool"]
RULES_DOC = dict(common.SHARED_DOC)
RULES_DOC.update({
    "R1": "thread_migrate_to_pool: target pool stored before REQ_MIGRATE is set; nothing set on the error path",
    "R2": "handle_request_migrate: set_associated_pool once -> callback (<=1, only if registered, with the unit's handle and the registered argument) -> unset REQ_MIGRATE; error paths do nothing else",
    "R3": "all migrate entry points test MIGRATABLE and !MAIN_SCHED and reject on pool EQUALITY (same polarity in all siblings)",
    "R4": "ABT_thread_migrate: list copied under xstream_list_lock, skips last stream / non-RUNNING streams, array freed on every exit",
    "R5": "= C01.R3/R5: a migrated unit is re-pushed exactly once",
})
VARIANTS = []
T = "src/thread.c"


def rule_R1(P, rep):
    F = P.fn("thread_migrate_to_pool", T)
    sel = seq.Sel(calls={"ABTI_thread_set_request", "ABTI_thread_get_mig_data"}, fields={"p_migration_pool"})
    for toks, kind, rv, rtxt in seq.sequences(F, sel):
        if kind != "ret":
            continue
        st = [i for i, t in enumerate(toks) if t[0] == "ast" and t[2].endswith("p_migration_pool")]
        rq = idx(toks, is_call("ABTI_thread_set_request"))
        if rv == 0:
            ok = len(st) == 1 and len(rq) == 1 and st[0] < rq[0] and toks[st[0]][3] in ("p_pool", "(void *)p_pool")
            why = "the handler reads the pool after seeing the request bit, so the pool must be stored first"
        else:
            ok = not st and not rq
            why = "error path must not publish a request"
        rep.ob("R1", "thread_migrate_to_pool path -> %s [%s]" % (rtxt, show(toks)), ok, why, loc="%s:%d" % (F.file, F.line),
               site="thread_migrate_to_pool/%s" % rtxt)
    S = P.fn("ABTI_thread_set_request", required=False)
    if S is not None:
        c = [S.nodes[i] for b, i in S.calls() if (S.nodes[i].get("fn") or "").startswith("ABTD_atomic_fetch_or")]
        rep.ob("R1", "ABTI_thread_set_request is an atomic fetch_or on the request word", len(c) == 1 and
               S.field_of(c[0]["a"][0]) == ("ABTI_thread", "request"), "", loc=S.file, site="set_request")


def rule_R2(P, rep):
    F = P.fn("ABTI_thread_handle_request_migrate", T)
    sel = seq.Sel(calls={"ABTI_thread_set_associated_pool", "ABTI_thread_unset_request", "ABTI_thread_get_mig_data"},
                  indirect=True, conds=lambda t: "f_migration_cb" in t)
    kinds = set()
    for toks, kind, rv, rtxt in seq.sequences(F, sel):
        if kind != "ret":
            continue
        sa = idx(toks, is_call("ABTI_thread_set_associated_pool"))
        cb = [i for i, t in enumerate(toks) if t[0] == "icall"]
        un = idx(toks, is_call("ABTI_thread_unset_request"))
        why = []
        if rv == 0:
            kinds.add("ok")
            if len(sa) != 1 or len(un) != 1 or not sa[0] < un[0]:
                why.append("must re-associate once and then clear the request once")
            registered = has_if(toks, "p_mig_data->f_migration_cb", True)
            if registered != (len(cb) == 1) or len(cb) > 1:
                why.append("callback registered=%s but invoked %d time(s)" % (registered, len(cb)))
            if cb:
                call = F.nodes[toks[cb[0]][-1]]
                args = [F.render(a) for a in call["a"]]
                if F.render(call["fe"]) != "p_mig_data->f_migration_cb" or args != ["thread", "p_mig_data->p_migration_cb_arg"]:
                    why.append("callback invoked as %s(%s)" % (F.render(call["fe"]), args))
                if sa and un and not (sa[0] < cb[0] < un[0]):
                    why.append("callback must run after the re-association and before the request is cleared")
            if un and F.nodes[F.strip(F.nodes[toks[un[0]][-1]]["a"][1])].get("m", [None])[0] != "ABTI_THREAD_REQ_MIGRATE" and \
                    "ABTI_THREAD_REQ_MIGRATE" not in seq.macros_in(F, F.nodes[toks[un[0]][-1]]["a"][1]):
                why.append("clears a different request bit")
        else:
            kinds.add("err")
            if cb or un:
                why.append("error path invokes the callback or clears the request")
        rep.ob("R2", "handle_request_migrate path -> %s [%s]" % (rtxt, show(toks)[:200]), not why, "; ".join(why),
               loc="%s:%d" % (F.file, F.line), site="handle_request_migrate/%s/%d" % (rtxt, len(cb)))
    rep.ob("R2", "handle_request_migrate has success and error paths", kinds == {"ok", "err"}, str(kinds), loc=F.file,
           site="handle_request_migrate/kinds")
    # the pool handed to set_associated_pool is the one stored by the request
    dec = [F.render(i) for b, i in F.all_events() if F.nodes[i].get("k") == "decl" and any(v["n"] == "p_pool" for v in F.nodes[i]["vars"])]
    rep.ob("R2", "the new pool is the one stored in the request (p_migration_pool)", any("p_migration_pool" in d for d in dec),
           str(dec), loc=F.file, site="handle_request_migrate/pool-source")


APIS = ["ABT_thread_migrate_to_xstream", "ABT_thread_migrate_to_sched", "ABT_thread_migrate_to_pool", "ABT_thread_migrate"]


def rule_R3(P, rep):
    TARGET = P.macro_int("ABT_ERR_MIGRATION_TARGET")
    rep.need(TARGET, "ABT_ERR_MIGRATION_TARGET not found")
    polar = {}
    for api in APIS:
        F = P.fn(api, T)

        def conds(text, F, node):
            ms = seq.macros_in(F, node)
            if "ABTI_THREAD_TYPE_MIGRATABLE" in ms:
                return "MIGRATABLE"
            if "ABTI_THREAD_TYPE_MAIN_SCHED" in ms:
                return "MAIN_SCHED"
            nd = F.nodes[F.strip(node)]
            if nd.get("k") == "bin" and nd["op"] in ("==", "!="):
                sides = [F.render(nd["lh"]), F.render(nd["rh"])]
                if any(s.endswith("->p_pool") and "p_thread" in s for s in sides):
                    return "POOLCMP" + nd["op"]
                if any("p_last_xstream" in s for s in sides):
                    return "ITER"
            return False
        sel = seq.Sel(calls={"thread_migrate_to_pool", "ABTI_sched_get_migration_pool"}, conds=conds, rets=True)
        ps = seq.sequences(F, sel, max_repeat=2, max_len=60)
        n_mig = 0
        n_cmp = 0
        for toks, kind, rv, rtxt in ps:
            mig = idx(toks, is_call("thread_migrate_to_pool"))
            why = []
            if mig:
                n_mig += 1
                pre = toks[:mig[0]]
                if not any(t[0] == "if" and t[1] == "MIGRATABLE" and t[2] for t in pre):
                    why.append("requests a migration without having tested ABTI_THREAD_TYPE_MIGRATABLE")
                if not any(t[0] == "if" and t[1] == "MAIN_SCHED" and not t[2] for t in pre):
                    why.append("requests a migration without excluding a main-scheduler ULT")
                rep.ob("R3", "%s reaches the request only for a migratable, non-main-scheduler unit" % api, not why,
                       "; ".join(why), loc="%s:%d" % (F.file, F.line), site="%s/flags" % api)
            # polarity of each pool comparison on this path: is the candidate still considered afterwards?
            for i, t in enumerate(toks):
                if t[0] == "if" and t[1].startswith("POOLCMP"):
                    equal = (t[1].endswith("==")) == t[2]
                    nxt = [u for u in toks[i + 1:] if u[0] in ("ret", "call") or (u[0] == "if" and u[1] in ("ITER",) or
                                                                                   (u[0] == "if" and u[1].startswith("POOLCMP")))]
                    first = nxt[0] if nxt else None
                    considered = first is not None and (first[0] == "call" or (first[0] == "if" and first[1].startswith("POOLCMP")))
                    n_cmp += 1
                    polar.setdefault(api, set()).add(("equal" if equal else "differ", "accept" if considered else "reject"))
                    if equal:
                        rep.ob("R3", "%s: a target pool EQUAL to the unit's current pool is rejected" % api, not considered,
                               "after the comparison found the pools equal the candidate is still used (next: %s)" %
                               (first[:3] if first else None,), loc="%s:%d" % (F.file, F.line), site="%s/equal-rejected" % api)
                        if first is not None and first[0] == "ret" and api != "ABT_thread_migrate":
                            rep.ob("R3", "%s reports ABT_ERR_MIGRATION_TARGET for an equal pool" % api, first[1] == TARGET,
                                   "returns %s" % first[1], loc="%s:%d" % (F.file, F.line), site="%s/equal-errcode" % api)
                    else:
                        rep.ob("R3", "%s: a target pool DIFFERENT from the current pool is not rejected" % api, considered,
                               "the candidate is abandoned because its pool differs from the unit's pool (inverted "
                               "comparison); next: %s" % (first[:3] if first else None,), loc="%s:%d" % (F.file, F.line),
                               site="%s/differ-accepted" % api)
        rep.need(n_mig >= 1, "%s never requests a migration" % api)
        rep.need(n_cmp >= 1, "%s never compares a target pool with the current pool" % api)
    ref = {("equal", "reject"), ("differ", "accept")}
    for api in APIS:
        rep.ob("R3", "%s has the same rejection polarity as its siblings" % api, polar.get(api) == ref,
               "%s vs %s" % (sorted(polar.get(api, ())), sorted(ref)), loc=T, site="%s/polarity-agreement" % api)
    rep.min_instances("R3", 12)


def rule_R4(P, rep):
    F = P.fn("ABT_thread_migrate", T)
    ts = locks.run_locks(P, F)
    L = "&p_global->xstream_list_lock"
    n = 0
    for bid, b in F.blocks.items():
        for i in b.elems:
            nd = F.nodes[i]
            if nd.get("k") == "mem" and nd["f"] in ("p_xstream_head", "num_xstreams", "p_next") and nd.get("r") in ("ABTI_global", "ABTI_xstream"):
                # find the enclosing event to look up the lockset
                pm = F.parent_map()
                j = i
                while j is not None and j not in ts.at:
                    j = pm.get(j)
                if j is None:
                    continue
                n += 1
                helds = ts.at[j]
                ok = all(any("xstream_list_lock" in k for k in h) for h in helds)
                rep.ob("R4", "ABT_thread_migrate reads %s::%s under xstream_list_lock" % (nd["r"], nd["f"]), ok,
                       "lock sets %s" % sorted(sorted(h) for h in helds), loc=F.loc(i), site="migrate/list-read/%s" % nd["f"])
    rep.need(n >= 3, "only %d stream-list reads found" % n)
    unb = [(k, nid, h) for k, nid, h, rv in ts.exits if k == "ret" and h]
    rep.ob("R4", "ABT_thread_migrate releases xstream_list_lock on every exit", not unb and not ts.errors,
           str([(F.loc(n) if n is not None else "", sorted(h)) for k, n, h in unb]), loc=F.file, site="migrate/lock-balance")
    # array freed on all exits after a successful allocation
    sel = seq.Sel(calls={"ABTU_malloc", "ABTU_free", "thread_migrate_to_pool"}, conds=lambda t: "abt_errno" in t, rets=True)
    for toks, kind, rv, rtxt in seq.sequences(F, sel, max_repeat=2, max_len=60):
        if kind != "ret":
            continue
        m = idx(toks, is_call("ABTU_malloc"))
        if not m:
            continue
        fr = idx(toks, is_call("ABTU_free"))
        alloc_failed = any(t[0] == "if" and "abt_errno" in t[1] and "!= 0" in t[1] and t[2] for t in toks[m[0]:m[0] + 3]) and not fr and rv != 0
        ok = alloc_failed or (len(fr) == 1 and "var:xstreams" in toks[fr[0]][2])
        rep.ob("R4", "ABT_thread_migrate frees its stream array exactly once on the exit -> %s" % rtxt, ok, show(toks)[-160:],
               loc=F.file, site="migrate/array-freed/%s/%d" % (rtxt, len(fr)))
    # skips the last stream and non-running streams before considering a candidate
    RUN = P.enum_consts["ABT_XSTREAM_STATE_RUNNING"]

    def conds(text, F, node):
        if "p_last_xstream" in text:
            return "LAST"
        c = seq.atomic_cmp(F, node, "ABTI_xstream::state")
        if c and c[2] == RUN:
            return "RUNNING" + c[1]
        return False
    sel = seq.Sel(calls={"thread_migrate_to_pool"}, conds=conds)
    n = 0
    for toks, kind, rv, rtxt in seq.sequences(F, sel, max_repeat=1, max_len=40):
        mig = idx(toks, is_call("thread_migrate_to_pool"))
        if not mig:
            continue
        n += 1
        pre = toks[:mig[0]]
        last = [t for t in pre if t[0] == "if" and t[1] == "LAST"]
        run = [t for t in pre if t[0] == "if" and t[1].startswith("RUNNING")]
        ok = bool(last) and last[-1][2] is False and bool(run) and ((run[-1][1] == "RUNNING!=" and not run[-1][2]) or (run[-1][1] == "RUNNING==" and run[-1][2]))
        rep.ob("R4", "a candidate stream is neither the unit's last stream nor a non-RUNNING stream", ok, show(pre), loc=F.file,
               site="migrate/candidate-filter")
    rep.need(n >= 1, "ABT_thread_migrate: no candidate path")


def run(P, rep, tier):
    common.run_shared(P, rep, which=("X2",))
    rule_R1(P, rep)
    rule_R2(P, rep)
    rule_R3(P, rep)
    rule_R4(P, rep)
    C01._import(rep, P, C01.rule_R3, "R5")
    C01._import(rep, P, C01.rule_R5, "R5")
