"""C13 -- migration (structural part)."""
import re

from abtverif import canon, cfg, locks, seq, tables
from abtverif.seq import idx, is_call, show, has_if, held_at
from . import common, C01, C06, C12

EXPLANATION = (
    "Decides that a migration request publishes its target pool before the request bit (R1); that request handling "
    "re-associates the unit once, then calls the migration callback at most once and only when one is registered, "
    "then clears the request bit, and does nothing else on its error paths (R2); that all four ABT_thread_migrate* "
    "routines reject non-migratable units and main-scheduler ULTs and reject -- with the same polarity -- a target "
    "whose pool EQUALS the unit's current pool (sibling cross-check of every comparison against the current pool) "
    "(R3); that ABT_thread_migrate copies the stream list under the list lock, skips the unit's last stream and "
    "streams that are not RUNNING, and frees its array on every exit (R4); and that a migrated unit is re-pushed "
    "exactly once by the scheduler / yield callbacks (R5 = C01.R3/R5).  Which stream is picked and exactly-once "
    "callbacks over overwritten requests are not decided.")
DECLINED = ["'picks some other running stream when one exists' beyond the rejection polarity",
            "exactly-once callback over repeated / overwritten requests (histories)"]
ASSUMPTIONS = ["C14 for the unit re-association performed by ABTI_thread_set_associated_pool"]
RULES_DOC = dict(common.SHARED_DOC)
RULES_DOC["X9"] = common.X9_DOC
RULES_DOC["X8"] = common.X8_DOC
RULES_DOC["R6"] = "= C12.R4: revive clears every pending request (a migration request that was never served does not survive into the revived run)"
RULES_DOC["X4"] = common.X4_DOC
RULES_DOC["R7"] = "= C06.R1/R3/R4: a unit that migrates inside a switch is counted on the right pool before and after (the migration target can be joined)"
RULES_DOC["R8"] = "migrate_to_sched / migrate_to_xstream reject a unit that already is in ANY pool of the target scheduler: the comparison with the unit's pool sits inside a loop over the scheduler's pools (sibling agreement)"
RULES_DOC["R11"] = "= C16.R5: the id under which the migration record (callback, target pool) is kept in the unit's key table is not handed out to a user key"
RULES_DOC["R13"] = "who-may-write census of ABTI_thread_attr::f_cb / p_cb_arg: among the attribute setters only ABT_thread_attr_set_callback reaches a store of the callback (a stack-size update that re-runs the attribute initialiser would drop a callback set earlier, and the migration then runs without it)"
RULES_DOC["R12"] = "= C17.R8: the stream list that ABT_thread_migrate scans for a target is linked completely in both directions on every insertion path"
RULES_DOC["R10"] = "= C12.R12: the request dispatcher tests REQ_MIGRATE bitwise: a migration request is honoured although a join or cancel request is pending on the same unit"
RULES_DOC["R9"] = "a migration callback given in the creation attribute is recorded whenever it is non-NULL (its installation depends on the callback pointer only, not on whether the unit is migratable yet -- migratability can be switched on later)"
RULES_DOC.update({
    "R1": "thread_migrate_to_pool: target pool stored before REQ_MIGRATE is set; nothing set on the error path",
    "R2": "handle_request_migrate: set_associated_pool once -> callback (<=1, only if registered, with the unit's handle and the registered argument) -> unset REQ_MIGRATE; error paths do nothing else",
    "R3": "all migrate entry points test MIGRATABLE and !MAIN_SCHED and reject on pool EQUALITY (same polarity in all siblings)",
    "R4": "ABT_thread_migrate: list copied under xstream_list_lock, skips last stream / non-RUNNING streams, array freed on every exit",
    "R5": "= C01.R3/R5: a migrated unit is re-pushed exactly once",
})
VARIANTS = []
T = "src/thread.c"

# Canonical (abtverif.canon) spellings used below: only record/field names, callee names, enumerators and macro
# values of the repository -- never a local variable name, never the polarity or the spelling of a test.
MIG_POOL = "ABTI_thread_mig_data::p_migration_pool"
MIG_CB = "ABTI_thread_mig_data::f_migration_cb"
MIG_CB_ARG = "ABTI_thread_mig_data::p_migration_cb_arg"
CUR_POOL = "ABTI_thread::p_pool"
LAST_XSTREAM = "ABTI_thread::p_last_xstream"


def _rlabel(rv, rtxt):
    """Name-independent label of an exit: the constant returned, else `non-constant` (an error code held in a local)."""
    if rv is not None:
        return str(rv)
    return "void" if rtxt is None else "non-constant"


def _param_of_type(F, ty):
    """Name of the only parameter whose type is `ty` (whitespace-insensitive)."""
    ns = [p["n"] for p in F.params if p["t"].replace(" ", "") == ty.replace(" ", "")]
    return ns[0] if len(ns) == 1 else None


def _macro_value(P, name):
    """Constant value of an internal object-like macro, read off the expressions it expanded to anywhere in the
    program (the outermost node produced by the macro body carries the folded value)."""
    cache = P.__dict__.setdefault("_c13_macro_values", {})
    if name not in cache:
        vals = set()
        for F in P.functions.values():
            pm = None
            for i, nd in enumerate(F.nodes):
                if not nd or not nd.get("m") or nd["m"][0] != name or "cv" not in nd:
                    continue
                pm = pm or F.parent_map()
                par = F.nodes[pm[i]] if i in pm else None
                if par is not None and par.get("m") and par["m"][0] == name:
                    continue
                if any((F.nodes[j].get("m") or [None])[0] != name for j in F.descendants(i)):
                    continue        # `A | B`: the operator is attributed to the first macro, B's body is not
                vals.add(nd["cv"])
        cache[name] = vals.pop() if len(vals) == 1 else None
    return cache[name]


def _eq_sides(label):
    """(a, b) of a canonical equality label `a == b` (top level), else None."""
    depth = 0
    for k in range(len(label)):
        c = label[k]
        if c in "([{":
            depth += 1
        elif c in ")]}":
            depth -= 1
        elif depth == 0 and label.startswith(" == ", k):
            return label[:k], label[k + 4:]
    return None


def _call_args(F, tok):
    """Canonical (name-independent) rendering of the arguments of a call / icall token."""
    return [canon.expr(F, a) for a in F.nodes[tok[-1]]["a"]]


def _resolve(F, i, depth=3):
    """Node a local (pointer / value temporary) stands for: follow single reaching definitions."""
    i = F.strip(i)
    while depth > 0:
        nd = F.nodes[i]
        if nd.get("k") != "ref" or nd.get("dk") != "var":
            break
        d = canon.reaching_def(F, nd["n"], i)
        if not isinstance(d, int):
            break
        i = F.strip(d)
        depth -= 1
    return i


def _lock_fields(F):
    """lock key (as used by locks.run_locks) -> (record, field) of the lock object, through pointer temporaries."""
    out = {}
    for table in (tables.LOCK_ACQUIRE, tables.LOCK_COND_ACQUIRE):
        for b, i in F.calls():
            fn = F.nodes[i].get("fn")
            if fn in table and len(F.nodes[i]["a"]) > table[fn]:
                a = F.nodes[i]["a"][table[fn]]
                out[locks.lock_key(F, a)] = F.field_of(_resolve(F, a))
    return out


def rule_R1(P, rep):
    F = P.fn("thread_migrate_to_pool", T)
    target = _param_of_type(F, "ABTI_pool *")
    rep.need(target, "thread_migrate_to_pool has no single ABTI_pool * parameter")
    sel = seq.Sel(calls={"ABTI_thread_set_request", "ABTI_thread_get_mig_data"}, fields={"p_migration_pool"}, canon=True)
    for toks, kind, rv, rtxt in seq.sequences(F, sel):
        if kind != "ret":
            continue
        st = [i for i, t in enumerate(toks) if t[0] == "ast" and t[2] == MIG_POOL]
        rq = idx(toks, is_call("ABTI_thread_set_request"))
        if rv == 0:
            # the stored value is the target-pool parameter (canonical value: casts and copies are looked through)
            ok = len(st) == 1 and len(rq) == 1 and st[0] < rq[0] and toks[st[0]][3] == target
            why = "the handler reads the pool after seeing the request bit, so the pool must be stored first"
        else:
            ok = not st and not rq
            why = "error path must not publish a request"
        rep.ob("R1", "thread_migrate_to_pool path -> %s [%s]" % (_rlabel(rv, rtxt), show(toks)), ok, why,
               loc="%s:%d" % (F.file, F.line), site="thread_migrate_to_pool/%s" % _rlabel(rv, rtxt))
    S = P.fn("ABTI_thread_set_request", required=False)
    if S is not None:
        c = [S.nodes[i] for b, i in S.calls() if (S.nodes[i].get("fn") or "").startswith("ABTD_atomic_fetch_or")]
        rep.ob("R1", "ABTI_thread_set_request is an atomic fetch_or on the request word", len(c) == 1 and
               S.field_of(c[0]["a"][0]) == ("ABTI_thread", "request"), "", loc=S.file, site="set_request")


def rule_R2(P, rep):
    F = P.fn("ABTI_thread_handle_request_migrate", T)
    unit = _param_of_type(F, "ABTI_thread *")
    rep.need(unit, "ABTI_thread_handle_request_migrate has no single ABTI_thread * parameter")
    sel = seq.Sel(calls={"ABTI_thread_set_associated_pool", "ABTI_thread_unset_request", "ABTI_thread_get_mig_data"},
                  indirect=True, conds=lambda t: "registered" if t == MIG_CB else None, canon=True)
    kinds = set()
    n_sa = 0
    for toks, kind, rv, rtxt in seq.sequences(F, sel):
        if kind != "ret":
            continue
        sa = idx(toks, is_call("ABTI_thread_set_associated_pool"))
        cb = [i for i, t in enumerate(toks) if t[0] == "icall"]
        un = idx(toks, is_call("ABTI_thread_unset_request"))
        why = []
        if rv == 0:
            kinds.add("ok")
            if len(sa) != 1 or len(un) != 1 or not sa[0] < un[0]:
                why.append("must re-associate once and then clear the request once")
            registered = has_if(toks, "registered", True)     # canonical polarity: true = a callback is registered
            if registered != (len(cb) == 1) or len(cb) > 1:
                why.append("callback registered=%s but invoked %d time(s)" % (registered, len(cb)))
            if cb:
                call = F.nodes[toks[cb[0]][-1]]
                slot = canon.expr(F, call["fe"])
                args = _call_args(F, toks[cb[0]])
                if slot != MIG_CB or args != ["ABTI_thread_get_handle(%s)" % unit, MIG_CB_ARG]:
                    why.append("callback invoked as %s(%s)" % (slot, args))
                if sa and un and not (sa[0] < cb[0] < un[0]):
                    why.append("callback must run after the re-association and before the request is cleared")
            if un and F.nodes[F.strip(F.nodes[toks[un[0]][-1]]["a"][1])].get("m", [None])[0] != "ABTI_THREAD_REQ_MIGRATE" and \
                    "ABTI_THREAD_REQ_MIGRATE" not in seq.macros_in(F, F.nodes[toks[un[0]][-1]]["a"][1]):
                why.append("clears a different request bit")
        else:
            kinds.add("err")
            if cb or un:
                why.append("error path invokes the callback or clears the request")
        rep.ob("R2", "handle_request_migrate path -> %s [%s]" % (_rlabel(rv, rtxt), show(toks)[:200]), not why, "; ".join(why),
               loc="%s:%d" % (F.file, F.line), site="handle_request_migrate/%s/%d" % (_rlabel(rv, rtxt), len(cb)))
    rep.ob("R2", "handle_request_migrate has success and error paths", kinds == {"ok", "err"}, str(kinds), loc=F.file,
           site="handle_request_migrate/kinds")
    # the pool handed to set_associated_pool is the one stored by the request: the argument is (a copy of) an
    # atomic load of the request's p_migration_pool
    src = []
    for b, i in F.calls("ABTI_thread_set_associated_pool"):
        a = F.nodes[i]["a"]
        src.append(canon.expr(F, a[2]) if len(a) >= 3 else "?")
    pat = re.compile(r"^ABTD_atomic_(relaxed|acquire)_load_ptr\(&%s\)$" % re.escape(MIG_POOL))
    rep.ob("R2", "the new pool is the one stored in the request (p_migration_pool)", bool(src) and all(pat.match(s) for s in src),
           str(src), loc=F.file, site="handle_request_migrate/pool-source")


APIS = ["ABT_thread_migrate_to_xstream", "ABT_thread_migrate_to_sched", "ABT_thread_migrate_to_pool", "ABT_thread_migrate"]


def _is_cur_pool_cmp(label):
    s = _eq_sides(label)
    return s is not None and CUR_POOL in s and s[0] != s[1]


def rule_R3(P, rep):
    TARGET = P.macro_int("ABT_ERR_MIGRATION_TARGET")
    rep.need(TARGET, "ABT_ERR_MIGRATION_TARGET not found")
    MIGRATABLE = _macro_value(P, "ABTI_THREAD_TYPE_MIGRATABLE")
    MAIN_SCHED = _macro_value(P, "ABTI_THREAD_TYPE_MAIN_SCHED")
    rep.need(MIGRATABLE and MAIN_SCHED and MIGRATABLE != MAIN_SCHED, "values of ABTI_THREAD_TYPE_MIGRATABLE / _MAIN_SCHED not found")
    flag = {"ABTI_thread::type & %d" % MIGRATABLE: "MIGRATABLE", "%d & ABTI_thread::type" % MIGRATABLE: "MIGRATABLE",
            "ABTI_thread::type & %d" % MAIN_SCHED: "MAIN_SCHED", "%d & ABTI_thread::type" % MAIN_SCHED: "MAIN_SCHED"}

    def conds(label, F, node):
        # canonical labels: `X` stands for X != 0, `a == b` for equality whatever way round the test was written
        if label in flag:
            return flag[label]
        if _is_cur_pool_cmp(label):
            return "POOLEQ " + label
        s = _eq_sides(label)
        if s is not None and LAST_XSTREAM in s:
            return "ITER"
        return None
    polar = {}
    for api in APIS:
        F = P.fn(api, T)
        sel = seq.Sel(calls={"thread_migrate_to_pool", "ABTI_sched_get_migration_pool"}, conds=conds, rets=True, canon=True)
        ps = seq.sequences(F, sel, max_repeat=2, max_len=60)
        n_mig = 0
        n_cmp = 0
        for toks, kind, rv, rtxt in ps:
            mig = idx(toks, is_call("thread_migrate_to_pool"))
            why = []
            if mig:
                n_mig += 1
                pre = toks[:mig[0]]
                if not any(t[0] == "if" and t[1] == "MIGRATABLE" and t[2] for t in pre):
                    why.append("requests a migration without having tested ABTI_THREAD_TYPE_MIGRATABLE")
                if not any(t[0] == "if" and t[1] == "MAIN_SCHED" and not t[2] for t in pre):
                    why.append("requests a migration without excluding a main-scheduler ULT")
                rep.ob("R3", "%s reaches the request only for a migratable, non-main-scheduler unit" % api, not why,
                       "; ".join(why), loc="%s:%d" % (F.file, F.line), site="%s/flags" % api)
            # polarity of each pool comparison on this path: is the candidate still considered afterwards?
            for i, t in enumerate(toks):
                if t[0] == "if" and t[1].startswith("POOLEQ"):
                    equal = bool(t[2])
                    # what happens next: a return, a request/lookup call, the next candidate stream, or the next pool
                    # comparison.  The same comparison met again at another branch (its outcome was kept in a flag
                    # that is tested later: same canonical label, other block) is not a new comparison.
                    nxt = [u for u in toks[i + 1:] if u[0] in ("ret", "call") or (u[0] == "if" and u[1] == "ITER") or
                           (u[0] == "if" and u[1].startswith("POOLEQ") and not (u[1] == t[1] and u[3] != t[3]))]
                    first = nxt[0] if nxt else None
                    considered = first is not None and (first[0] == "call" or (first[0] == "if" and first[1].startswith("POOLEQ")))
                    n_cmp += 1
                    polar.setdefault(api, set()).add(("equal" if equal else "differ", "accept" if considered else "reject"))
                    if equal:
                        rep.ob("R3", "%s: a target pool EQUAL to the unit's current pool is rejected" % api, not considered,
                               "after the comparison found the pools equal the candidate is still used (next: %s)" %
                               (first[:3] if first else None,), loc="%s:%d" % (F.file, F.line), site="%s/equal-rejected" % api)
                        if first is not None and first[0] == "ret" and api != "ABT_thread_migrate":
                            rep.ob("R3", "%s reports ABT_ERR_MIGRATION_TARGET for an equal pool" % api, first[1] == TARGET,
                                   "returns %s" % first[1], loc="%s:%d" % (F.file, F.line), site="%s/equal-errcode" % api)
                    else:
                        rep.ob("R3", "%s: a target pool DIFFERENT from the current pool is not rejected" % api, considered,
                               "the candidate is abandoned because its pool differs from the unit's pool (inverted "
                               "comparison); next: %s" % (first[:3] if first else None,), loc="%s:%d" % (F.file, F.line),
                               site="%s/differ-accepted" % api)
        rep.need(n_mig >= 1, "%s never requests a migration" % api)
        rep.need(n_cmp >= 1, "%s never compares a target pool with the current pool" % api)
    ref = {("equal", "reject"), ("differ", "accept")}
    for api in APIS:
        rep.ob("R3", "%s has the same rejection polarity as its siblings" % api, polar.get(api) == ref,
               "%s vs %s" % (sorted(polar.get(api, ())), sorted(ref)), loc=T, site="%s/polarity-agreement" % api)
    rep.min_instances("R3", 12)


def rule_R4(P, rep):
    F = P.fn("ABT_thread_migrate", T)
    ts = locks.run_locks(P, F)
    lf = _lock_fields(F)
    LIST_LOCK = ("ABTI_global", "xstream_list_lock")
    n = 0
    for bid, b in F.blocks.items():
        for i in b.elems:
            nd = F.nodes[i]
            if nd.get("k") == "mem" and nd["f"] in ("p_xstream_head", "num_xstreams", "p_next") and nd.get("r") in ("ABTI_global", "ABTI_xstream"):
                # find the enclosing event to look up the lockset
                pm = F.parent_map()
                j = i
                while j is not None and j not in ts.at:
                    j = pm.get(j)
                if j is None:
                    continue
                n += 1
                helds = ts.at[j]
                ok = all(any(lf.get(k) == LIST_LOCK for k in h) for h in helds)
                rep.ob("R4", "ABT_thread_migrate reads %s::%s under xstream_list_lock" % (nd["r"], nd["f"]), ok,
                       "lock sets %s" % sorted(sorted(h) for h in helds), loc=F.loc(i), site="migrate/list-read/%s" % nd["f"])
    rep.need(n >= 3, "only %d stream-list reads found" % n)
    unb = [(k, nid, h) for k, nid, h, rv in ts.exits if k == "ret" and h]
    rep.ob("R4", "ABT_thread_migrate releases xstream_list_lock on every exit", not unb and not ts.errors,
           str([(F.loc(n) if n is not None else "", sorted(h)) for k, n, h in unb]), loc=F.file, site="migrate/lock-balance")
    # array freed on all exits after a successful allocation.  The test of the allocation result is recognised by
    # its canonical label (the ABTU_malloc call itself, whatever local holds the result; true = non-zero = failed);
    # the array is the object whose address was handed to ABTU_malloc, whatever it is called.
    sel = seq.Sel(calls={"ABTU_malloc", "ABTU_free", "thread_migrate_to_pool"},
                  conds=lambda t: "ALLOCFAIL" if t.startswith("ABTU_malloc(") else None, rets=True, canon=True)
    for toks, kind, rv, rtxt in seq.sequences(F, sel, max_repeat=2, max_len=60):
        if kind != "ret":
            continue
        m = idx(toks, is_call("ABTU_malloc"))
        if not m:
            continue
        fr = idx(toks, is_call("ABTU_free"))
        # same window as before: the outcome test directly follows the allocation (a lock release may intervene)
        alloc_failed = any(t[0] == "if" and t[1] == "ALLOCFAIL" and t[2] for t in toks[m[0]:m[0] + 3]) and not fr and rv != 0
        out = F.nodes[F.strip(F.nodes[toks[m[0]][-1]]["a"][1])]
        arr = None
        if out.get("k") == "un" and out["op"] == "&" and F.nodes[F.strip(out["e"])].get("k") == "ref":
            arr = F.nodes[F.strip(out["e"])]["n"]
        ok = alloc_failed or (len(fr) == 1 and arr is not None and _call_args(F, toks[fr[0]]) == [arr])
        rep.ob("R4", "ABT_thread_migrate frees its stream array exactly once on the exit -> %s" % _rlabel(rv, rtxt), ok,
               show(toks)[-160:], loc=F.file, site="migrate/array-freed/%s/%d" % (_rlabel(rv, rtxt), len(fr)))
    # skips the last stream and non-running streams before considering a candidate
    running = re.compile(r"^ABTD_atomic_(acquire|relaxed)_load_int\(&ABTI_xstream::state\) == (ABT_XSTREAM_STATE_RUNNING|%d)$"
                         % P.enum_consts["ABT_XSTREAM_STATE_RUNNING"])

    def conds(label, F, node):
        s = _eq_sides(label)
        if s is not None and LAST_XSTREAM in s:
            return "LAST"            # true = the candidate IS the unit's last stream
        if running.match(label):
            return "RUNNING"         # true = the candidate's state IS RUNNING
        return None
    sel = seq.Sel(calls={"thread_migrate_to_pool"}, conds=conds, canon=True)
    n = 0
    for toks, kind, rv, rtxt in seq.sequences(F, sel, max_repeat=1, max_len=40):
        mig = idx(toks, is_call("thread_migrate_to_pool"))
        if not mig:
            continue
        n += 1
        pre = toks[:mig[0]]
        last = [t for t in pre if t[0] == "if" and t[1] == "LAST"]
        run = [t for t in pre if t[0] == "if" and t[1] == "RUNNING"]
        ok = bool(last) and last[-1][2] is False and bool(run) and run[-1][2] is True
        rep.ob("R4", "a candidate stream is neither the unit's last stream nor a non-RUNNING stream", ok, show(pre), loc=F.file,
               site="migrate/candidate-filter")
    rep.need(n >= 1, "ABT_thread_migrate: no candidate path")


def rule_R8(P, rep):
    from abtverif import ctrldep
    sig = {}
    for fn in ("ABT_thread_migrate_to_sched", "ABT_thread_migrate_to_xstream"):
        F = P.fn(fn, "src/thread.c")
        found = False
        why = "no comparison with ABTI_thread::p_pool inside a loop bounded by num_pools"
        for bid, B in F.blocks.items():
            if B.tc is None:
                continue
            aj, at = cfg.cond_atom(F, B.tc, True)
            lab, flip = canon.cond(F, aj)
            if "ABTI_thread::p_pool" not in lab or "==" not in lab:
                continue
            # is this comparison evaluated once per pool of the scheduler?
            heads = [a for a, k in ctrldep.closure(F, bid) if F.blocks[a].tk in ("ForStmt", "WhileStmt", "DoStmt") and F.blocks[a].tc is not None
                     and "num_pools" in canon.cond(F, cfg.cond_atom(F, F.blocks[a].tc, True)[0])[0]]
            for a in heads:
                # ... and is the pool it looks at the one the loop counter selects (pools[p] with `p < num_pools`)?
                hl = canon.cond(F, cfg.cond_atom(F, F.blocks[a].tc, True)[0])[0]
                m = re.match(r"^(.+?) (<|!=) ", hl)
                ix = re.search(r"::pools\[([^\]]+)\]", lab)
                if m and ix and not re.search(r"\b%s\b" % re.escape(m.group(1).strip()), ix.group(1)):
                    why = "the comparison reads pools[%s] on every pass of the loop over `%s`" % (ix.group(1), hl)
                else:
                    found = True     # pools[<counter>], or a form that does not index the array by position
        sig[fn] = found
        rep.ob("R8", "%s compares the unit's pool with every pool of the target scheduler" % fn, found,
               why, loc="%s:%d" % (F.file, F.line), site="%s/all-pools" % fn)


def rule_R9(P, rep):
    from abtverif import ctrldep
    F = P.fn("ythread_create", "src/thread.c")
    st = [i for _b, i, lh, rh in F.stores() if F.field_of(lh) == ("ABTI_thread_mig_data", "f_migration_cb")]
    rep.need(st, "ythread_create does not record the attribute's migration callback")
    for i in st:
        gov = []
        for lab, val, a in ctrldep.conditions(F, i):
            A = F.blocks[a]
            others = [x for j, x in enumerate(A.succs) if x is not None]
            # keep the tests that are not error exits / assertions / the attribute being present
            if "f_cb" in lab or lab.endswith("::f_cb"):
                continue
            if any(F.blocks[o].noret for o in others):
                continue
            if re.search(r"type|migratable|MIGRATABLE", lab):
                gov.append((lab, val))
        rep.ob("R9", "ythread_create records the attribute's callback whenever it is given", not gov,
               "the callback is recorded only if %s" % gov, loc=F.loc(i), site="ythread_create/attr-callback")


def rule_R13(P, rep):
    """Who may (transitively) write the migration callback of a thread attribute: creation / duplication of an
    attribute and ABT_thread_attr_set_callback.  Another attribute setter that resets it silently drops the callback."""
    ws = sorted(x.split(":")[-1] for x in P.may_write("ABTI_thread_attr", "f_cb"))
    rep.need("ABT_thread_attr_set_callback" in ws, "ABT_thread_attr_set_callback does not write f_cb")
    setters = [w for w in ws if re.match(r"^(ABT_thread_attr_set_|thread_attr_set_|ABT_thread_attr_get_)", w)]
    bad = [w for w in setters if w != "ABT_thread_attr_set_callback"]
    rep.ob("R13", "only ABT_thread_attr_set_callback (and attribute creation) writes ABTI_thread_attr::f_cb", not bad,
           "%s may overwrite the migration callback stored in the attribute" % bad, loc="src/thread_attr.c", site="attr-cb-writers")


def run(P, rep, tier):
    common.rule_X9(P, rep, fields=[('ABTI_thread', 'request')])
    common.rule_X8(P, rep)
    common.rule_X4(P, rep)
    common.run_shared(P, rep, which=("X2",))
    rule_R1(P, rep)
    rule_R2(P, rep)
    rule_R3(P, rep)
    rule_R4(P, rep)
    C01._import(rep, P, C01.rule_R3, "R5")
    C01._import(rep, P, C01.rule_R5, "R5")
    common.borrow(rep, P, C12.rule_R4, "R6")
    common.borrow(rep, P, C06.rule_R1_R3_R4, "R7")
    common.borrow(rep, P, C06.rule_R2, "R7")
    rule_R8(P, rep)
    rule_R9(P, rep)
    common.borrow(rep, P, C12.rule_R12, "R10")
    from . import C16, C17
    common.borrow(rep, P, C16.rule_R5, "R11")
    common.borrow(rep, P, C17.rule_R8, "R12")
    rule_R13(P, rep)
