"""C18 -- a failed allocation makes the call fail cleanly (structural part)."""
import os
import subprocess

from abtverif import build, canon, cfg, errflow, seq
from . import common, c18_commit, C16

EXPLANATION = (
    "Decides the error discipline that makes a single allocation failure harmless.  R1: no fallible result is "
    "dropped (compile-fail witness: every unit is re-parsed with -Werror=unused-result; the allocator table must be "
    "declared warn_unused_result) and no out-parameter of a fallible call is read on a path on which the call's "
    "result has not been tested.  R2 (path-sensitive typestate with constant propagation, so the init_stage ladders "
    "are followed exactly): at every error return each resource acquired earlier in the function -- heap blocks, "
    "descriptors, key tables, and the stage resources of the init ladders -- has been released or handed over.  R3 "
    "(commit point): after a caller-owned object was registered under a key whose destructor releases it, no error "
    "path frees the key table without detaching the object first.  R4: in every ABT_*_create* routine an error "
    "return leaves the out-handle untouched or holding a NULL-handle constant and a success return stores the new "
    "handle last.  R5: the result of an allocation never flows into an assertion, except the upstream-acknowledged "
    "lazy-stack sites which exist only when lazy stack allocation is configured in (checked in that variant).  "
    "'Pre-existing objects still work' and 'the call succeeds when retried' are behavioural and not decided; "
    "resources stored into arrays inside loops are out of scope."
    ' R6 (typestate over every function that calls a step which may fail for lack of memory): at an error return that follows such a failure no field of a handle-backed descriptor reached from a parameter or global is left modified, unless a later store on the path restores it -- state is committed after the last fallible step.  R7 (= C16.R1): the lock sentinel of the key-table slot is put back when the table cannot be allocated.')
DECLINED = ["'pre-existing objects ... still work' and 'the same call succeeds when retried' as behaviour",
            "resources stored in arrays inside loops", "failures of user callbacks other than create_unit"]
ASSUMPTIONS = ["the allocator table of abtverif/errflow.py lists the repository's allocation entry points"]
RULES_DOC = dict(common.SHARED_DOC)
RULES_DOC["X8"] = common.X8_DOC
RULES_DOC["X7"] = common.X7_DOC
RULES_DOC["R6"] = c18_commit.DOC
RULES_DOC["R7"] = ("= C16.R1: the key-table slot is published NULL -> LOCKED -> table and is put back to NULL when the "
                   "table cannot be allocated (a failed set leaves no lock sentinel behind)")
RULES_DOC["R8"] = "a routine that receives an array of pool handles frees, on its own paths, only the pools it created itself: every ABTI_pool_free call in it is governed by the test that the caller's slot was ABT_POOL_NULL"
RULES_DOC["X4"] = common.X4_DOC
RULES_DOC["R12"] = "= C17.R3: the roll-back of a failed stream creation returns the rank completely (unlink and un-count): num_xstreams is what ABT_xstream_get_num reports and what ABT_thread_migrate sizes its array with"
RULES_DOC["R11"] = "= C15.R9: when a page allocation fails half-way through carving a bucket, the blocks obtained so far are returned labelled with their real number (the failed create is clean only if the global pool stays consistent)"
RULES_DOC["R10"] = "= C14.R1: when associating a unit with a pool fails, the unit that was just created is given back to the pool that created it (and nothing else changes): the error path of ABTI_unit_set_associated_pool / ABTI_thread_set_associated_pool undoes exactly what it did"
RULES_DOC["R9"] = "= C06.R9: an error path that detaches the caller's pools from a scheduler before freeing it releases the reference it took on each of them"
RULES_DOC.update({
    "R1": "no dropped error (-Werror=unused-result witness over all units) and no out-parameter read before the result test",
    "R2": "every error return has released or handed over the resources acquired on that path (incl. init_stage ladders)",
    "R3": "commit point: a caller-owned object registered with a destructor-bearing key is detached before the table is freed on error",
    "R4": "create routines: error => out-handle untouched or NULL-handle constant; success => new handle stored last",
    "R5": "allocation results never feed assertions (lazy-stack FIXME sites only in the lazy-stack configuration)",
})
VARIANTS = ["lazy_stack", "no_ext_thread", "no_mem_pool", "tool_interface"]
TECHNIQUE = ("compile-fail witness (-Werror=unused-result) + path-sensitive typestate (resource ownership with constant "
             "propagation) over clang CFG facts")


# ---- local helpers: identities that do not depend on local names or on the spelling of a test ----------

def _look(F, i, depth=3):
    """(node, position) of expression i after looking through local temporaries that have exactly one
    reaching definition."""
    at = i
    i = F.strip(i)
    while depth > 0:
        nd = F.nodes[i]
        if nd.get("k") != "ref" or nd.get("dk") != "var":
            break
        d = canon.reaching_def(F, nd["n"], at)
        if not isinstance(d, int) or F.nodes[F.strip(d)].get("k") in ("ilist", "zero"):
            break
        at = d
        i = F.strip(d)
        depth -= 1
    return i, at


def _root(F, i, depth=3):
    """The `ref` node an access path is rooted at, a local pointer being replaced by the expression it
    was (only) assigned from: `ABTI_sched *s = p_sched; ... s` is rooted at the parameter p_sched."""
    at = i
    while i is not None and i >= 0:
        i = F.strip(i)
        nd = F.nodes[i]
        k = nd.get("k")
        if k in ("mem", "idx"):
            i = nd["b"]
        elif k == "un" and nd["op"] in ("&", "*"):
            i = nd["e"]
        elif k == "ref":
            if nd.get("dk") == "var" and depth > 0:
                d = canon.reaching_def(F, nd["n"], at)
                if isinstance(d, int):
                    at = i = d
                    depth -= 1
                    continue
            return nd
        else:
            return None
    return None


def _is_null_const(F, i):
    n = F.nodes[_look(F, i)[0]]
    return n.get("cv") == 0 and n.get("k") != "ref"


def _label_edges(F, B):
    """(canonical label, successor on which the label is true, successor on which it is false) of a
    two-way branch; the label is independent of the polarity/spelling of the test (canon.cond)."""
    if B.tc is None or len(B.succs) != 2:
        return None
    aj, at = cfg.cond_atom(F, B.tc)
    lab, flip = canon.cond(F, aj)
    true_first = (at != flip)          # label value on succs[0]
    return lab, (B.succs[0] if true_first else B.succs[1]), (B.succs[1] if true_first else B.succs[0])


def _copies_of(F, name):
    """`name` plus every local that is only ever a plain copy of it (`int e = abt_errno;`), transitively."""
    names = {name}
    changed = True
    while changed:
        changed = False
        for nd in F.nodes:
            if not nd or nd.get("k") != "decl":
                continue
            for v in nd["vars"]:
                if v["n"] in names or "init" not in v:
                    continue
                ds = F.var_defs(v["n"])
                if ds and all(d is not None and F.nodes[F.strip(d)].get("k") == "ref" and F.nodes[F.strip(d)]["n"] in names for d in ds):
                    names.add(v["n"])
                    changed = True
        for b, i, lh, rh in F.stores():
            ln = F.nodes[F.strip(lh)]
            if ln.get("k") == "ref" and ln.get("dk") == "var" and ln["n"] not in names:
                ds = F.var_defs(ln["n"])
                if ds and all(d is not None and F.nodes[F.strip(d)].get("k") == "ref" and F.nodes[F.strip(d)]["n"] in names for d in ds):
                    names.add(ln["n"])
                    changed = True
    return names


def rule_R1(P, rep):
    # (a) witness: all units with -Werror=unused-result
    units = build.compile_db(P.repo)
    shadow = os.path.join(P.dir, "include") if os.path.isdir(os.path.join(P.dir, "include")) else None
    bad = []
    n = 0
    procs = []
    for path, flags in units:
        if not path.endswith(".c"):
            continue
        n += 1
        fl = [f for f in build.unit_flags(P.repo, flags, P.variant, shadow) if f != "-Wno-everything"]
        cmd = ["clang-14"] + fl[1:] + ["-fsyntax-only", "-Wno-everything", "-Werror=unused-result", os.path.join(P.repo, path)]
        procs.append((path, subprocess.Popen(cmd, cwd=os.path.join(P.repo, "src"), stdout=subprocess.PIPE, stderr=subprocess.PIPE,
                                             universal_newlines=True)))
    for path, pr in procs:
        out, err = pr.communicate()
        if pr.returncode != 0:
            lines = [l for l in err.splitlines() if "unused-result" in l or "error:" in l]
            bad.append("%s: %s" % (path, lines[:2]))
    rep.ob("R1", "all %d units compile with -Werror=unused-result (no fallible result is discarded)" % n, not bad, "; ".join(bad)[:600],
           loc="src", site="witness/unused-result")
    # (b) the allocator table is declared warn_unused_result
    for fn in sorted(set(errflow.ALLOCATORS) | {"ABTU_realloc", "ABTI_mem_pool_alloc", "ABTI_mem_alloc_ythread_default",
                                                 "ABTI_ktable_set", "ABTI_ktable_set_unsafe", "ABTI_thread_init_pool",
                                                 "ABTI_thread_set_associated_pool", "ABTI_unit_map_thread"}):
        Fs = P.fns(fn)
        wur = (Fs and Fs[0].wur) or (fn in P.protos and P.protos[fn].get("wur"))
        rep.ob("R1", "%s is declared ABTU_ret_err (warn_unused_result)" % fn, bool(wur), "", loc="src/include", site="wur/" + fn)
    # (c) use before check, repository-wide
    total = 0
    for F in sorted(P.functions.values(), key=lambda f: (f.file, f.line)):
        fs = errflow.use_before_check(P, F)
        sites = [(c, v) for b, c in F.calls() if errflow.is_fallible(P, F, F.nodes[c]) for v in errflow.out_params(F, c)]
        total += len(sites)
        flagged = {(c, v): e for c, v, e in fs}
        ordinal = {}
        for c, v in sites:
            e = flagged.get((c, v))
            # stable signature without the local's name: callee, argument position, n-th such call in the function
            callee, argi = F.nodes[c]["fn"], errflow.out_params(F, c)[v]
            k = ordinal[(callee, argi)] = ordinal.get((callee, argi), 0) + 1
            rep.ob("R1", "%s: %s filled by %s is not read before the result is tested" % (F.name, v, F.nodes[c]["fn"]), e is None,
                   "read at %s (%s) on a path where the result of the call was not tested: on failure the variable is "
                   "uninitialised" % (F.loc(e), F.render(e)[:60]) if e is not None else "", loc=F.loc(c),
                   site="%s/use-before-check/%s/arg%d/%d" % (F.name, callee, argi, k))
    rep.need(total >= 60, "only %d fallible calls with out-parameters found" % total)


def rule_R2(P, rep):
    n = 0
    for F in sorted(P.functions.values(), key=lambda f: (f.file, f.line)):
        acq = [(b, c) for b, c in F.calls() if F.nodes[c].get("fn") in errflow.ALLOCATORS or F.nodes[c].get("fn") in errflow.STAGE_PAIRS]
        if not acq:
            continue
        ls = errflow.leaks_on_error(P, F)
        if ls is None:
            rep.ob("R2", "%s is analysable" % F.name, False, "state explosion", loc=F.file, site="%s/leak-analysis" % F.name)
            continue
        leaked = {}
        for c, v, r in ls:
            leaked.setdefault(c, []).append((v, r))
        for b, c in acq:
            n += 1
            l = leaked.get(c)
            rep.ob("R2", "%s: the resource acquired by %s at line %s is released or handed over on every error return" %
                   (F.name, F.nodes[c]["fn"], F.nodes[c]["l"]), not l,
                   "; ".join("still held (%s) at the error return %s" % (v, F.loc(r)) for v, r in (l or [])), loc=F.loc(c),
                   site="%s/leak/%s" % (F.name, F.nodes[c]["fn"]))
    rep.need(n >= 60, "only %d acquisitions analysed" % n)
    # the ladders: every stage constant that is tested in the cleanup code is also assigned
    for fn, file in (("init_library", "src/global.c"), ("xstream_create", "src/stream.c"), ("ABTD_xstream_context_create", "src/arch/abtd_stream.c")):
        F = P.fn(fn, file)
        lad = _ladders(F)
        rep.need(len(lad) >= 1, "%s: no init-stage ladder variable found" % fn)
        # several constant-valued locals: the ladder is the one with the most stages
        assigned, tested = max(lad.values(), key=lambda at: (len(set(at[0])), len(at[1])))
        ok = bool(assigned) and set(tested) <= set(assigned) and assigned == list(range(1, len(assigned) + 1))
        rep.ob("R2", "%s: init-stage ladder is dense (stages %s) and cleanup guards test assigned stages %s" % (fn, assigned, tested), ok,
               "stages assigned %s are not 1..n without gaps, or a cleanup guard tests a stage %s that is never assigned" % (assigned, tested),
               loc=F.file, site="%s/ladder" % fn)


def _ladders(F):
    """{variable: (sorted assigned stages, sorted tested stages)} for every local that plays the role of an
    init-stage counter: each of its assignments stores an integer constant (at least two different ones) and it
    is compared with integer constants by the cleanup guards.  The variable is found by this role, not by its
    name; a guard is read as the smallest stage it lets through whatever way round it is written:
    `v >= k`, `!(v < k)`, `k <= v` -> k;  `v > k`, `!(v <= k)`, `k < v` -> k + 1;  `v == k` / `v != k` -> k."""
    vals, bad = {}, set()
    for b, i, lh, rh in F.stores():
        ln = F.nodes[F.strip(lh)]
        if ln.get("k") != "ref" or ln.get("dk") != "var":
            continue
        rn = F.nodes[F.strip(rh)] if rh is not None and rh >= 0 else {}
        if F.nodes[i].get("op") == "=" and "cv" in rn and rn.get("k") != "ref":
            vals.setdefault(ln["n"], []).append(rn["cv"])
        else:
            bad.add(ln["n"])
    tests = {}
    for B in F.blocks.values():
        if B.tc is None:
            continue
        c = F.nodes[cfg.cond_atom(F, B.tc)[0]]
        if c.get("k") != "bin" or c["op"] not in ("<", ">", "<=", ">=", "==", "!="):
            continue
        for a, k, op in ((c["lh"], c["rh"], c["op"]), (c["rh"], c["lh"], {"<": ">", ">": "<", "<=": ">=", ">=": "<="}.get(c["op"], c["op"]))):
            an, kn = F.nodes[F.strip(a)], F.nodes[F.strip(k)]
            if an.get("k") == "ref" and an.get("dk") == "var" and "cv" in kn and kn.get("k") != "ref":
                # `var op const`
                tests.setdefault(an["n"], []).append(kn["cv"] + (1 if op in (">", "<=") else 0))
                break
    out = {}
    for v, a in vals.items():
        if v in bad or len(set(a)) < 2 or v not in tests:
            continue
        out[v] = (sorted(a), sorted(tests[v]))
    return out


class _CommitTS(cfg.Typestate):
    """State: frozenset of (key text, registration node, assumed_success) for caller-owned objects
    currently registered under a destructor-bearing key."""

    def __init__(self, F, regs):
        self.init = frozenset()
        self.regs = regs          # registration call nodes of interest
        self.bad = []

    def event(self, F, nid, st, ctx):
        nd = F.nodes[nid]
        if nd.get("k") == "bin" and nd.get("asg"):
            ln = F.nodes[F.strip(nd["lh"])]
            if ln.get("k") == "ref":
                rhs = F.strip(nd["rh"])
                # the result variable is reused for another call: it no longer speaks about the registration
                return frozenset((k, c, (None if (r == ln["n"] and rhs != c) else r), ok) for k, c, r, ok in st)
            return st
        if nd.get("k") != "call":
            return st
        fn = nd.get("fn")
        if fn in ("ABTI_ktable_set_unsafe", "ABTI_ktable_set"):
            key = canon.expr(F, nd["a"][3])
            if nid in self.regs:
                r = errflow.result_var(F, nid)
                st2 = frozenset(x for x in st if x[0] != key)
                return {st2 | {(key, nid, r, True)}, st2 | {(key, nid, r, False)}}
            if ctx.value(nd["a"][4]) == 0 or _is_null_const(F, nd["a"][4]):
                return frozenset(x for x in st if x[0] != key)      # detached
        if fn == "ABTI_ktable_free":
            for key, c, r, ok in st:
                if ok:
                    self.bad.append((c, nid))
            return frozenset()
        return st

    def edge(self, F, bid, key, truth, st, ctx):
        if ctx.cond_node is None or not st:
            return st
        from abtverif.locks import _result_zero
        # the test in canonical form: label = the tested expression without local names, val = its truth
        # (`!x`, `x == NULL`, `x != NULL`, a temporary holding x all give label x)
        lab, flip = canon.cond(F, ctx.cond_node)
        val = bool(ctx.cond_val) != flip
        copies = ctx.aliases()
        for (k, c, r, ok) in st:
            for name in [r] + sorted(a for a, src in copies.items() if r is not None and src == r):
                rz = _result_zero(F, ctx.cond_node, ctx.cond_val, c, name)
                if rz is not None and rz != ok:
                    return None
            # semantics of the key table: a lookup of a key registered with a non-NULL value is non-NULL
            if ok and not val and lab.startswith("ABTI_ktable_get(") and lab.endswith(", %s)" % k):
                return None
        return st


def rule_R3(P, rep):
    """Keys with destructors that release or mutate the registered object."""
    n = 0
    for F in sorted(P.functions.values(), key=lambda f: (f.file, f.line)):
        regs = {}
        for b, c in F.calls({"ABTI_ktable_set_unsafe", "ABTI_ktable_set"}):
            nd = F.nodes[c]
            val = nd["a"][4]
            if _is_null_const(F, val):
                continue            # detaching store
            base = _root(F, val)    # the object belongs to the caller when it is reached from a parameter
            if base is not None and base.get("dk") == "param" and any(p["n"] == base["n"] for p in F.params):
                regs[c] = (canon.expr(F, nd["a"][3]), canon.expr(F, val))
        if not regs:
            continue
        ts = _CommitTS(F, set(regs))
        cfg.simulate(F, ts)
        bad = {}
        for c, fr in ts.bad:
            bad.setdefault(c, set()).add(F.loc(fr))
        for c, (keyarg, valtxt) in regs.items():
            n += 1
            rep.ob("R3", "%s: caller-owned %s registered under %s is detached before the key table is freed on error" %
                   (F.name, valtxt, keyarg), c not in bad,
                   "ABTI_ktable_free at %s runs the key's destructor on an object the caller still owns" % sorted(bad.get(c, ())),
                   loc=F.loc(c), site="%s/commit-point/%s" % (F.name, keyarg))
    rep.need(n >= 1, "no caller-owned object is registered under a key")


def _stored_through(F):
    """Names of the parameters the function stores through (`*p = ..`, `p[i] = ..`), directly or through a
    local that is only ever a copy of the parameter."""
    out = set()
    for b, i, lh, rh in F.stores():
        n = F.nodes[F.strip(lh)]
        tgt = n.get("e") if (n.get("k") == "un" and n["op"] == "*") else (n.get("b") if n.get("k") == "idx" else None)
        if tgt is None:
            continue
        r = F.nodes[_look(F, tgt)[0]]
        if r.get("k") == "ref" and r.get("dk") == "param":
            out.add(r["n"])
    return out


def rule_R4(P, rep):
    n = 0
    for F in sorted(P.functions.values(), key=lambda f: (f.file, f.line)):
        if not (F.name.startswith("ABT_") and ("_create" in F.name or F.name.endswith("_dup"))) or F.name in ("ABT_thread_create_many",):
            continue
        # out-handles by type and use, not by name: non-const `ABT_<kind> *` parameters; an `ABT_pool *` parameter
        # is an out-handle only if the routine stores through it (otherwise it is the input array of pools)
        written = _stored_through(F)
        outs = [p["n"] for p in F.params if p["t"].startswith("ABT_") and p["t"].rstrip().endswith("*") and "const" not in p["t"] and
                (not p["t"].startswith("ABT_pool *") or p["n"] in written)]
        if not outs:
            continue
        # a local that is only ever a copy of an out-parameter stands for it (`ABT_thread *p_out = newthread; *p_out = h`)
        alias = {}
        for o in outs:
            for a in _copies_of(F, o) - {o}:
                alias[a] = o
        sel = seq.Sel(derefs=set(outs) | set(alias), rets=True, locks=False, canon=True)
        seen_ok = False
        for toks, kind, rv, rtxt in seq.sequences(F, sel, max_len=40, max_repeat=2):
            if kind != "ret":
                continue
            for o in outs:
                st = [t for t in toks if t[0] == "dst" and alias.get(t[1], t[1]) == o]
                if rv == 0:
                    if st:
                        seen_ok = True
                    # a success return either stored a freshly created handle last, or the handle is optional (NULL pointer)
                    ok = (not st) or not isinstance(st[-1][2], int)
                    why = "success path leaves a constant in *%s" % o
                else:
                    ok = (not st) or isinstance(st[-1][2], int)
                    why = "error path leaves %s in *%s (a dangling or half-built handle is handed back)" % (st[-1][2] if st else None, o)
                n += 1
                rep.ob("R4", "%s: *%s on the %s path -> %s" % (F.name, o, "success" if rv == 0 else "error", rtxt), ok, why,
                       loc="%s:%d" % (F.file, F.line), site="%s/out-handle/%s/%s/%s" % (F.name, o, "ok" if rv == 0 else "err",
                                                                                         st[-1][2] if st and rv != 0 else ""))
    rep.need(n >= 40, "only %d out-handle paths analysed" % n)


ALLOC_RESULT_FNS = set(errflow.ALLOCATORS) | {"ABTU_realloc", "ABTI_mem_pool_alloc", "ABTI_mem_alloc_ythread_mempool_stack",
                                              "ABTI_mem_alloc_ythread_default", "ABTI_mem_alloc_ythread_mempool_desc_stack",
                                              "ABTI_mem_alloc_ythread_malloc_desc_stack", "ABTI_mem_alloc_ythread_mempool_desc",
                                              "ABTI_ktable_set", "ABTI_ktable_set_unsafe", "ABTI_ktable_alloc_elem"}
LAZY_SITES = {"ABTI_ythread_context_switch", "ABTI_ythread_context_jump", "ABTI_ythread_context_jump_with_call",
              "ABTI_ythread_context_switch_with_call"}


def rule_R5(P, rep):
    n = 0
    for F in sorted(P.functions.values(), key=lambda f: (f.file, f.line)):
        for b, c in F.calls(ALLOC_RESULT_FNS):
            r = errflow.result_var(F, c)
            if r is None:
                continue
            n += 1
            asserts = []
            names = _copies_of(F, r)       # the result, or a local it was merely copied into
            for bid, B in F.blocks.items():
                if B.tc is not None and names & F.vars_in(B.tc) and ("assert" in B.tm or "ABTI_ASSERT" in B.tm) and B.elems and \
                        cfg.can_reach(F, c, B.elems[-1]):
                    asserts.append(F.loc(B.tc))
            if not asserts:
                rep.ob("R5", "%s: the result of %s is not asserted" % (F.name, F.nodes[c]["fn"]), True, "", loc=F.loc(c),
                       site="%s/assert/%s" % (F.name, F.nodes[c]["fn"]))
                continue
            if F.nodes[c]["fn"] in ("ABTI_ktable_set_unsafe", "ABTI_ktable_set") and _is_detach_of_existing_key(F, c):
                rep.ob("R5", "%s: detaching an existing key (value NULL, key presence tested first) cannot allocate; its "
                       "result may be asserted" % F.name, True, "", loc=F.loc(c), site="%s/assert/detach" % F.name)
                continue
            if F.name in LAZY_SITES and F.nodes[c]["fn"] == "ABTI_mem_alloc_ythread_mempool_stack":
                # upstream FIXME: reachable only for ULTs created without a stack, i.e. when lazy stack allocation is
                # configured in.  In other configurations no ULT is created without a stack (checked below).
                lazy_creators = [G.name for G in P.functions.values() for b2, i2 in G.calls("ABTD_ythread_context_init_lazy")]
                live = any(_reachable_from_api(P, g) for g in lazy_creators) if P.variant == "lazy_stack" else False
                dead = P.variant != "lazy_stack" and _lazy_dead(P)
                rep.ob("R5", "%s: lazy stack allocation failure aborts (upstream FIXME); not reachable in this configuration" % F.name,
                       dead if P.variant != "lazy_stack" else True,
                       "lazy ULT descriptors can be created in this configuration" if not dead else "", loc=F.loc(c),
                       site="%s/lazy-assert" % F.name)
                if P.variant == "lazy_stack":
                    rep.note("lazy_stack configuration: %s asserts the result of a stack allocation (upstream FIXME)" % F.name)
                continue
            rep.ob("R5", "%s: the result of %s is not asserted" % (F.name, F.nodes[c]["fn"]), False,
                   "allocation failure aborts the process at %s instead of returning an error" % asserts, loc=F.loc(c),
                   site="%s/assert/%s" % (F.name, F.nodes[c]["fn"]))
    rep.need(n >= 40, "only %d allocation results analysed" % n)


def _is_detach_of_existing_key(F, c):
    """ABTI_ktable_set*(…, &KEY, NULL) dominated by the edge on which `ABTI_ktable_get(…, &KEY)` is non-NULL
    (however that test is spelt: `get()`, `get() != NULL`, `!get()` with the call in the else arm, a temporary):
    the element exists, so ABTI_ktable_set_impl returns from its first scan without allocating."""
    nd = F.nodes[c]
    if not _is_null_const(F, nd["a"][4]):
        return False
    key = canon.expr(F, nd["a"][3])
    dom = cfg.dominators(F)
    cb = F.block_of(c)
    for bid, B in F.blocks.items():
        if bid not in dom.get(cb, ()):
            continue
        le = _label_edges(F, B)
        if le is None or le[1] is None:
            continue
        lab, found, _missing = le
        if lab.startswith("ABTI_ktable_get(") and lab.endswith(", %s)" % key) and found in dom.get(cb, ()) | {cb}:
            return True
    return False


def _lazy_dead(P):
    """In configurations without lazy stack allocation no descriptor is created with a deferred stack:
    the only caller of ABTD_ythread_context_init_lazy sits behind a constant-false `use_lazy_stack`."""
    for G in P.functions.values():
        for b, i in G.calls("ABTD_ythread_context_init_lazy"):
            if G.block_of(i) in cfg.reachable_blocks(G):
                # reachable in the CFG: is the guard a compile-time constant false?  clang prunes such edges,
                # so a reachable call means the guard is not constant.
                return False
    return True


def _reachable_from_api(P, name):
    return True


def _copy_root(F, var, at):
    """The variable a local is a plain copy of (a helper's parameter after flattening, a renamed temporary)."""
    hops = 0
    while var is not None and hops < 4:
        d = canon.reaching_def(F, var, at)
        if not isinstance(d, int):
            break
        dn = F.nodes[F.strip(d)]
        if dn.get("k") != "ref" or dn.get("dk") not in ("var", "param"):
            break
        var, at = dn["n"], d
        hops += 1
    return var


def rule_R8(P, rep):
    from abtverif import ctrldep
    n = 0
    for F in sorted(P.functions.values(), key=lambda f: (f.file, f.line)):
        arr = [p["n"] for p in F.params if p["t"].replace(" ", "") in ("ABT_pool*", "constABT_pool*")]
        if not arr or not F.blocks:
            continue
        sites = [i for _b, i in F.calls("ABTI_pool_free")]
        for i in sites:
            # only releases of a slot that may hold one of the caller's pools: the freed handle is read from a local
            # array into which a handle of the parameter array was copied on a path that reaches the release
            base = F.base_var(F.nodes[i]["a"][0]) or F.base_var(F.nodes[F.strip(F.nodes[i]["a"][0])]["a"][0]) \
                if F.nodes[F.strip(F.nodes[i]["a"][0])].get("k") == "call" else F.base_var(F.nodes[i]["a"][0])
            base = _copy_root(F, base, i)
            mixed = False
            for _b2, s2, lh, rh in F.stores():
                if rh is None or _copy_root(F, F.base_var(lh), s2) != base or base in arr:
                    continue
                if any((a + "[") in canon.expr(F, rh, depth=1) for a in arr) and cfg.can_reach(F, s2, i):
                    mixed = True
            if base in arr:
                mixed = True
            if not mixed:
                continue
            conds = ctrldep.conditions(F, i)
            own = [c for c in conds if any(c[0].startswith(a + "[") and " == " in c[0] and c[0].rsplit(" == ", 1)[1].lstrip("-").isdigit()
                                            for a in arr)]
            ok = any(c[1] for c in own) and not any(not c[1] for c in own if not any(d[1] and d[0] == c[0] for d in own))
            n += 1
            rep.ob("R8", "%s frees a pool only if the caller's slot was ABT_POOL_NULL (the pool was created here)" % F.name, ok,
                   "governing tests of the caller's array: %s" % [(c[0], c[1]) for c in own], loc=F.loc(i),
                   site="%s/pool-free/%d" % (F.name, sites.index(i)))
    rep.need(n >= 3, "only %d releases of slots that may hold a caller's pool" % n)


def run(P, rep, tier):
    common.rule_X8(P, rep)
    common.rule_X7(P, rep)
    common.rule_X4(P, rep)
    rule_R1(P, rep)
    rule_R2(P, rep)
    rule_R3(P, rep)
    rule_R4(P, rep)
    rule_R5(P, rep)
    c18_commit.rule_R6(P, rep)
    rule_R8(P, rep)
    from . import c06_refs
    common.borrow(rep, P, c06_refs.rule_R9, "R9")
    common.borrow(rep, P, C16.rule_R1_R2, "R7", only=("R1",))
    from . import C14
    common.borrow(rep, P, C14.rule_R1, "R10")
    from . import C15
    common.borrow(rep, P, C15.rule_R9, "R11")
    from . import C17
    common.borrow(rep, P, C17.rule_R1_R2_R3, "R12", only=("R3",))
