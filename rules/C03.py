"""C03 -- join/free return after, and only after, termination (structural part)."""
import re

from abtverif import canon, cfg, seq
from abtverif.seq import idx, is_call, show, has_if
from . import common

EXPLANATION = (
    "Decides that every returning path of thread_join observes TERMINATED through an acquire load (directly or in "
    "one of the three waiting helpers, whose loops can only be left on that observation) (R1); that the joiner "
    "announces itself (fetch_or REQ_JOIN) before suspending, suspends only if no request was pending, and publishes "
    "its link after BLOCKED / after preparing the futex dummy (R2); that the target side returns 'no joiner' only "
    "when its own fetch_or saw no request and otherwise waits for the link with acquire loads, and that every "
    "terminating jump releases the joiner exactly once first (R3); that a joiner obtained on exit is woken by exactly "
    "one of futex resume / direct jump (with the blocked counter decremented and RUNNING stored) / resume-and-push, "
    "with the two exit paths agreeing on how an external joiner is recognised (R4); that the free routines join, "
    "then free, then null the handle, and thread_free releases unit association, key table and descriptor at most/"
    "exactly once (R5); and that termination is a single release-store of TERMINATED with nothing after it for "
    "named units (R6).  Progress of the join under user-defined schedulers is not decided."
    ' R7 (control dependence): the *_many routines reach the join (and free) call for every non-NULL handle of the array; nothing leaves the loop early.')
DECLINED = ["'they do return once the target terminates' under arbitrary user schedulers (progress)"]
ASSUMPTIONS = ["X1 memory orders of the atomic wrappers", "C02.R3: the joiner's BLOCKED state is published after its context is saved"]
RULES_DOC = dict(common.SHARED_DOC)
RULES_DOC["X9"] = common.X9_DOC
RULES_DOC["R8"] = "= C01.R5: a unit cancelled in a yield-family callback is not pushed back to its pool (a joiner is released once and the terminated unit never runs again)"
RULES_DOC["R9"] = "= C18.R6: a failed step leaves the descriptor it was given unchanged (a revive that fails does not leave a TERMINATED unit marked READY, on which a join or free would never return)"
RULES_DOC["X4"] = common.X4_DOC
RULES_DOC["R12"] = "contradiction rule: the result of the unchecked downcast ABTI_thread_get_ythread (a cast, never NULL) is nowhere tested against NULL -- such a test shows that ABTI_thread_get_ythread_or_null was meant, and a tasklet target of a join would be pushed through the ULT handshake and never wake its joiner"
RULES_DOC["R11"] = "= C12.R3: a unit that suspends itself is not terminated inside its suspend callback: the termination half of the join handshake would wake the joiner while the target goes on to BLOCKED and terminates again later"
RULES_DOC["R10"] = "= C06.R1-R4: a joiner that blocks is counted on the pool it will be resumed on, and is pushed before it stops being counted (a join whose caller is stranded in a dead pool never returns although the target terminated)"
RULES_DOC.update({
    "R1": "every return of thread_join (and of its waiting helpers) follows an acquire-load observation state == TERMINATED",
    "R2": "joiner: fetch_or(REQ_JOIN) before suspending, suspend only if none was pending; BLOCKED before the p_link release-store; futex dummy prepared before p_link is published",
    "R3": "target: get_joiner returns NULL only on 'no prior REQ_JOIN', else acquire-loads p_link until set; every terminating jump obtains/releases the joiner exactly once before jumping",
    "R4": "a non-NULL joiner is woken by exactly one mechanism; exit and resume_joiner agree on the external-joiner test",
    "R5": "free routines: join -> free -> handle = NULL; thread_free: unset pool <= 1, ktable_free <= 1, mem_free_thread == 1",
    "R6": "ABTI_thread_terminate: exactly one release-store of TERMINATED; freed iff unnamed; nothing after the store for named units",
    "R7": "the *_many routines join (and free) every non-NULL handle of the array: the per-element call depends only on the loop and the NULL test of that element, and nothing leaves the loop early",
})
VARIANTS = ["active_wait", "no_ext_thread", "no_linux_futex", "tool_interface"]
T = "src/thread.c"
YH = "src/include/abti_ythread.h"


# ---- canonical vocabulary ------------------------------------------------------------------
# Every rule below is phrased over abtverif.canon labels (seq.Sel(canon=True)): conditions are
# independent of the polarity/spelling of the test and of the names of locals; call arguments are
# compared through canon.expr / canon.rooted (the value a local was assigned from), never through
# the name of a local.  Only record/field names, callee names, enumerators, macro names and the
# parameter names of the anchor functions (taken from F.params) occur.

_STATE_RE = re.compile(r"^ABTD_atomic_(\w+?)_load_int\(&(?:ABTI_thread::state|ABTI_ythread::thread\.state)\) == (\w+)$")
_LINK_LOAD = r"ABTD_atomic_(\w+?)_load_ythread_context_ptr\(&(?:ABTD_ythread_context::p_link|ABTI_ythread::ctx\.p_link)\)"
_LINK_RE = re.compile("^" + _LINK_LOAD + "$")
_LINK_RET_RE = re.compile(r"^ABTI_ythread_context_get_ythread\(" + _LINK_LOAD + r"\)$")
_REQUEST = ("&ABTI_thread::request", "&ABTI_ythread::thread.request")
_GET_JOINER = "ABTI_ythread_atomic_get_joiner("
_MACROVALS = {}


def _macro_value(P, macro):
    """Value of an internal object-like macro (abti.h), read off any constant expression that its
    expansion produced somewhere in the program (private emulation of a macro table)."""
    key = (id(P), macro)
    if key not in _MACROVALS:
        val = None
        for G in P.functions.values():
            for nd in G.nodes:
                if nd and nd.get("m") and nd["m"][0] == macro and len(nd["m"]) == 1 and "cv" in nd and \
                        nd.get("k") in ("cast", "bin"):
                    val = nd["cv"]
                    if nd.get("k") == "cast":
                        break
            if val is not None:
                break
        _MACROVALS[key] = val
    return _MACROVALS[key]


_DEPTH = 6   # locals are looked through up to this many copies (canon's default of 3 is too short for alias chains)


def _cargs(F, tok):
    """Canonical (local-name independent) arguments of a call token."""
    return tuple(canon.expr(F, a, depth=_DEPTH) for a in F.nodes[tok[-1]]["a"])


def _rargs(F, tok):
    """Arguments of a call token as object-identity preserving access paths."""
    return tuple(canon.rooted(F, a, depth=_DEPTH) for a in F.nodes[tok[-1]]["a"])


def _field_of(F, i, depth=_DEPTH):
    """F.field_of for a pointer-valued expression (the address argument of an atomic wrapper) that
    also looks through a local pointer holding the address of a field (`q = &p->state; store(q, v)`
    accesses ABTI_thread::state)."""
    fo = F.field_of(i)
    if fo:
        return fo
    j = F.strip(i)
    if j is None or j < 0 or depth <= 0:
        return None
    nd = F.nodes[j]
    if nd.get("k") == "ref" and nd.get("dk") == "var":
        d = canon.reaching_def(F, nd["n"], j)
        if isinstance(d, int) and d >= 0:
            dn = F.nodes[F.strip(d)]
            if dn.get("k") == "un" and dn["op"] == "&":
                return F.field_of(d)
            if dn.get("k") == "ref":
                return _field_of(F, d, depth - 1)
    return None


def _lvalue_field_of(F, lh):
    """(record, field) written by an assignment to `lh`: a member access, or `*q` with q a local
    pointer to a field.  An assignment to a local variable itself writes no field."""
    fo = F.field_of(lh)
    if fo:
        return fo
    nd = F.nodes[F.strip(lh)]
    if nd.get("k") == "un" and nd["op"] == "*":
        return _field_of(F, nd["e"])
    return None


class _Sel(seq.Sel):
    """seq.Sel whose field stores ('st' / 'ast' tokens) are also recognised through a local pointer
    to the field (private emulation; the engine only sees direct member accesses)."""

    def _want_field(self, F, node):
        par = F.parent_map().get(node)
        if par is not None and F.nodes[par].get("k") == "call":
            fo = _field_of(F, node)          # address argument of an atomic wrapper
        else:
            fo = _lvalue_field_of(F, node)   # left-hand side of an assignment / operand of ++
        if fo and (fo[1] in self.fields or ("%s::%s" % fo) in self.fields):
            return "%s::%s" % fo
        return None


def _cshow(F, toks):
    """seq.show with call arguments rendered canonically (instance labels without local names)."""
    out = []
    for t in toks:
        if t[0] == "call":
            out.append("%s(%s)" % (t[1], ",".join(_cargs(F, t))))
        else:
            out.append(show([t]))
    return " ; ".join(out)


def _expanded(F, node, depth=3):
    """Node ids of an expression with locals looked through (single reaching definition)."""
    out = []
    work = [(node, depth)]
    while work:
        i, d = work.pop()
        for j in F.descendants(i):
            out.append(j)
            nd = F.nodes[j]
            if d > 0 and nd.get("k") == "ref" and nd.get("dk") == "var":
                r = canon.reaching_def(F, nd["n"], j)
                if isinstance(r, int) and r >= 0:
                    work.append((r, d - 1))
    return out


def _joiner_type_test(P, text, F, node):
    """A test of the `type` of the joiner (the unit returned by ABTI_ythread_atomic_get_joiner):
    ('joiner-ext', flip) when it is exactly `type == ABTI_THREAD_TYPE_EXT`, 'joiner-type?:<label>'
    for any other test of that field, None if the condition does not look at the joiner's type."""
    mems = [j for j in _expanded(F, node) if F.nodes[j].get("k") == "mem" and F.nodes[j]["f"] == "type" and
            canon.rooted(F, j, depth=_DEPTH).startswith(_GET_JOINER)]
    if not mems:
        return None
    EXT = _macro_value(P, "ABTI_THREAD_TYPE_EXT")
    for j in mems:
        T = canon.expr(F, j)
        if EXT == 0 and text == T:
            return ("joiner-ext", True)       # label T is true for type != 0, i.e. not external
        if EXT is not None and text == "%s == %d" % (T, EXT):
            return ("joiner-ext", False)
    return "joiner-type?:" + text


def _labels(P, extra=False):
    """conds callback for canon selectors: the rule's own short labels.
      state==TERMINATED/<order>  atomic load of the state field compared with TERMINATED
      join-pending               the REQ_JOIN bit of the value returned by fetch_or(&request, REQ_JOIN)
      link                       the (atomically loaded) p_link is non-NULL
      joiner                     ABTI_ythread_atomic_get_joiner(..) returned a joiner
      joiner-ext                 joiner->thread.type == ABTI_THREAD_TYPE_EXT
      yieldable(<param>)         ABTI_thread_get_ythread_or_null(<parameter>) is non-NULL
    extra=True: other tests of a type / p_last_xstream field keep their canonical label."""
    TERM = P.enum_consts["ABT_THREAD_STATE_TERMINATED"]
    JOIN = _macro_value(P, "ABTI_THREAD_REQ_JOIN")
    pend = None
    if JOIN is not None:
        pend = re.compile(r"^ABTD_atomic_fetch_or_uint32\((?:%s), %d\) & %d(?: == %d)?$" %
                          ("|".join(re.escape(r) for r in _REQUEST), JOIN, JOIN, JOIN))

    def conds(text, F, node):
        m = _STATE_RE.match(text)
        if m and m.group(2) in ("ABT_THREAD_STATE_TERMINATED", str(TERM)):
            return "state==TERMINATED/%s" % m.group(1)
        if pend is not None and pend.match(text):
            return "join-pending"
        if _LINK_RE.match(text):
            return "link"
        if text.startswith(_GET_JOINER) and text.endswith(")") and text.count("(") == 1:
            return "joiner"
        m = re.match(r"^ABTI_thread_get_ythread_or_null\((\w+)\)$", text)
        if m and m.group(1) in [p["n"] for p in F.params]:
            return "yieldable(%s)" % m.group(1)
        if "type" in text:
            r = _joiner_type_test(P, text, F, node)
            if r is not None:
                return r
        if extra and ("p_last_xstream" in text or "::type" in text or ".type" in text):
            return True
        return False
    return conds


def _observed(toks):
    """Is the last evaluation of the state test an acquire-load observation of TERMINATED?"""
    tests = [t for t in toks if t[0] == "if" and t[1].startswith("state==TERMINATED/")]
    return bool(tests) and tests[-1][1].endswith("/acquire") and tests[-1][2] is True


def rule_R1(P, rep):
    conds = _labels(P)
    helpers = ["thread_join_busywait", "thread_join_yield_thread"]
    for fn in helpers:
        F = P.fn(fn, T)
        sel = _Sel(calls={"ABTI_ythread_yield"}, conds=conds, canon=True)
        ps = [p for p in seq.sequences(F, sel) if p[1] == "ret"]
        rep.need(ps, "%s has no returning path" % fn)
        for toks, kind, rv, rtxt in ps:
            rep.ob("R1", "%s returns only after an acquire-load of state equal to TERMINATED [%s]" % (fn, _cshow(F, toks)),
                   _observed(toks), "last state test: %s" % [t[1:3] for t in toks if t[0] == "if"][-1:],
                   loc="%s:%d" % (F.file, F.line), site="%s/%s" % (fn, _cshow(F, toks)))
    waiters = set(helpers)
    Fw = P.fn("thread_join_futexwait", T, required=False)
    if Fw is not None:
        sel = _Sel(calls={"thread_join_busywait", "ABTD_futex_suspend"}, conds=conds, canon=True)
        for toks, kind, rv, rtxt in seq.sequences(Fw, sel):
            if kind != "ret":
                continue
            calls = [t for t in toks if t[0] == "call"]
            ok = bool(calls) and calls[-1][1] == "thread_join_busywait" and _rargs(Fw, calls[-1]) == (Fw.params[0]["n"],)
            rep.ob("R1", "thread_join_futexwait ends with thread_join_busywait(target) [%s]" % _cshow(Fw, toks), ok,
                   "a resumed external joiner must still wait for TERMINATED", loc="%s:%d" % (Fw.file, Fw.line),
                   site="thread_join_futexwait/%s" % _cshow(Fw, toks))
        waiters.add("thread_join_futexwait")
    F = P.fn("thread_join", T)
    sel = _Sel(calls=lambda fn: fn in waiters or fn == "ABTI_ythread_suspend_join", conds=conds, canon=True)
    ps = [p for p in seq.sequences(F, sel) if p[1] == "ret"]
    rep.need(len(ps) >= 4, "thread_join: %d returning paths" % len(ps))
    tgt = F.params[1]["n"]
    # the join target itself, or the descriptor embedded in its ULT view
    tgt_paths = (tgt, "&ABTI_thread_get_ythread_or_null(%s)->thread" % tgt, "&ABTI_thread_get_ythread(%s)->thread" % tgt)
    for toks, kind, rv, rtxt in ps:
        # last observation: a waiter call on the target, or a direct observation, with nothing that
        # could un-observe in between (TERMINATED is final, so any later event is fine)
        waits = [i for i, t in enumerate(toks) if t[0] == "call" and t[1] in waiters]
        ok = _observed(toks) and not waits
        why = ""
        if waits:
            last = toks[waits[-1]]
            waited = _rargs(F, last)[-1]
            on_target = waited in tgt_paths
            ok = on_target
            if not on_target:
                why = "waits for %s, not for the join target" % (waited,)
            sj = idx(toks, is_call("ABTI_ythread_suspend_join"))
            if sj and sj[-1] > waits[-1]:
                ok = False
                why = "returns right after being resumed by the hand-off, without waiting for TERMINATED"
        elif not ok:
            why = "returns without observing TERMINATED (path: %s)" % _cshow(F, toks)
        rep.ob("R1", "thread_join path [%s]" % _cshow(F, toks)[:300], ok, why, loc="%s:%d" % (F.file, F.line),
               site="thread_join/%s" % _cshow(F, toks)[:300])
    rep.min_instances("R1", 7)


def _announce_ok(F, tok, JOIN):
    """fetch_or(&<unit>.request, ABTI_THREAD_REQ_JOIN)?"""
    a = _cargs(F, tok)
    return len(a) == 2 and a[0] in _REQUEST and a[1] == str(JOIN)


def rule_R2(P, rep):
    conds = _labels(P)
    REQ_JOIN = _macro_value(P, "ABTI_THREAD_REQ_JOIN")
    rep.need(REQ_JOIN is not None, "value of ABTI_THREAD_REQ_JOIN not found")
    F = P.fn("thread_join", T)
    sel = _Sel(calls={"ABTI_ythread_suspend_join", "ABTD_atomic_fetch_or_uint32"}, conds=conds, canon=True)
    n = 0
    for toks, kind, rv, rtxt in seq.sequences(F, sel):
        sj = idx(toks, is_call("ABTI_ythread_suspend_join"))
        if not sj:
            continue
        n += 1
        why = []
        fo = [i for i, t in enumerate(toks) if t[0] == "call" and t[1] == "ABTD_atomic_fetch_or_uint32"]
        if not fo or fo[0] > sj[0]:
            why.append("suspends before announcing the join request")
        else:
            if not _announce_ok(F, toks[fo[0]], REQ_JOIN):
                why.append("fetch_or on %s" % (_cargs(F, toks[fo[0]]),))
            between = [t for t in toks[fo[0]:sj[0]] if t[0] == "if" and t[1] == "join-pending"]
            if not between or between[-1][2] is not False:
                why.append("suspends although a join request was already pending (the target may be past its joiner check)")
        rep.ob("R2", "thread_join suspends only after fetch_or(REQ_JOIN) showed no pending request", not why,
               "; ".join(why), loc=F.file, site="thread_join/suspend")
    rep.need(n >= 1, "thread_join never suspends")
    # callback: BLOCKED before p_link
    C = P.fn("ABTI_ythread_callback_suspend_join", "src/ythread.c", flat=True)
    BLOCKED = P.enum_consts["ABT_THREAD_STATE_BLOCKED"]
    sel = _Sel(fields={"state", "p_link"}, canon=True)
    for toks, kind, rv, rtxt in seq.sequences(C, sel):
        if kind != "ret":
            continue
        st = [i for i, t in enumerate(toks) if t[0] == "ast" and t[2] == "ABTI_thread::state"]
        ln = [i for i, t in enumerate(toks) if t[0] == "ast" and t[2].endswith("::p_link")]
        ok = len(st) == 1 and len(ln) == 1 and st[0] < ln[0] and toks[st[0]][3] == BLOCKED and \
            "release" in toks[st[0]][1] and "release" in toks[ln[0]][1]
        rep.ob("R2", "suspend_join callback: release-store BLOCKED, then release-store p_link", ok, show(toks),
               loc=C.file, site="callback_suspend_join/order")
    Fw = P.fn("thread_join_futexwait", T, required=False)
    if Fw is None:
        rep.skip("R2", "no futex join in this configuration")
    else:
        EXT = _macro_value(P, "ABTI_THREAD_TYPE_EXT")
        rep.need(EXT is not None, "value of ABTI_THREAD_TYPE_EXT not found")
        sel = _Sel(calls={"ABTD_futex_suspend", "ABTD_atomic_fetch_or_uint32"}, fields={"type", "p_arg", "p_link"},
                      conds=conds, canon=True)
        n = 0
        for toks, kind, rv, rtxt in seq.sequences(Fw, sel):
            ln = [i for i, t in enumerate(toks) if t[0] == "ast" and t[2].endswith("::p_link")]
            if kind != "ret" or not ln:
                continue
            n += 1
            why = []
            ty = [i for i, t in enumerate(toks) if t[0] == "st" and t[1] == "ABTI_thread::type"]
            ar = [i for i, t in enumerate(toks) if t[0] == "st" and t[1] == "ABTI_thread::p_arg"]
            su = idx(toks, is_call("ABTD_futex_suspend"))
            fo = idx(toks, is_call("ABTD_atomic_fetch_or_uint32"))
            # the futex the joiner sleeps on (an addressable object of this frame)
            slept = _cargs(Fw, toks[su[0]])[0] if su else None
            if not (ty and ar and ty[0] < ln[0] and ar[0] < ln[0]):
                why.append("dummy joiner's type/p_arg not set before p_link is published")
            elif toks[ty[0]][3] != EXT or not str(toks[ar[0]][3]).startswith("&") or \
                    (slept is not None and toks[ar[0]][3] != slept):
                why.append("dummy joiner prepared with type=%s p_arg=%s (sleeps on %s)" % (toks[ty[0]][3], toks[ar[0]][3], slept))
            if "release" not in toks[ln[0]][1]:
                why.append("p_link not release-stored")
            if not su or su[0] < ln[0]:
                why.append("does not sleep on the futex after publishing the link")
            if not fo or fo[0] > ln[0] or not _announce_ok(Fw, toks[fo[0]], REQ_JOIN) or \
                    not has_if(toks[fo[0]:ln[0]], "join-pending", False):
                why.append("publishes the link although a join request was already pending")
            rep.ob("R2", "futex join: announce, prepare dummy, release-store p_link, sleep", not why, "; ".join(why),
                   loc=Fw.file, site="thread_join_futexwait/link")
        rep.need(n >= 1, "thread_join_futexwait never publishes a link")
    rep.min_instances("R2", 2)


def rule_R3_R4(P, rep):
    conds = _labels(P, extra=True)
    G = P.fn("ABTI_ythread_atomic_get_joiner", YH)
    sel = _Sel(calls={"ABTD_atomic_fetch_or_uint32"}, conds=conds, canon=True)
    ps = [p for p in seq.sequences(G, sel, max_repeat=3) if p[1] == "ret"]
    rep.need(len(ps) >= 3, "get_joiner: %d paths" % len(ps))
    for toks, kind, rv, rtxt in ps:
        why = []
        if rv == 0:
            if not (has_if(toks, "link", False) and has_if(toks, "join-pending", False)):
                why.append("returns NULL without having seen 'no link' and 'no prior REQ_JOIN' from its own fetch_or")
        else:
            links = [t for t in toks if t[0] == "if" and t[1] == "link"]
            if not links or links[-1][2] is not True:
                why.append("returns a joiner although the last read link was NULL")
            if not _LINK_RET_RE.match(rtxt or ""):
                why.append("returns %s" % rtxt)
        short = "NULL" if rv == 0 else ("get_ythread(link)" if _LINK_RET_RE.match(rtxt or "") else rtxt)
        rep.ob("R3", "get_joiner path -> %s [%s]" % (short, _cshow(G, toks)[:200]), not why, "; ".join(why), loc=G.file,
               site="get_joiner/%s/%s" % (short, len(toks)))
    loads = [G.nodes[i] for _b, i in G.calls() if G.nodes[i]["a"] and (_field_of(G, G.nodes[i]["a"][0]) or ("", ""))[1] == "p_link"]
    rep.ob("R3", "get_joiner reads p_link with acquire loads only", bool(loads) and all("acquire_load" in nd["fn"] for nd in loads),
           str([nd["fn"] for nd in loads]), loc=G.file, site="get_joiner/acquire")
    # every terminating jump is preceded by exactly one joiner release
    jumps = {"ABTI_ythread_jump_to_sibling_internal", "ABTI_ythread_jump_to_parent_internal", "ABTI_thread_terminate",
             "ABTI_ythread_context_jump_with_call"}
    rel = {"ABTI_ythread_atomic_get_joiner", "ABTI_ythread_resume_joiner"}
    table = [("ABTI_ythread_exit", YH), ("ABTI_ythread_exit_to", YH), ("ABTI_ythread_resume_exit_to", YH),
             ("ABTI_thread_handle_request_cancel", T)]
    for fn, file in table:
        F = P.fn(fn, file)
        sel = _Sel(calls=lambda c: c in jumps or c in rel, conds=conds, canon=True)
        ps = seq.sequences(F, sel)
        n = 0
        self_arg = [p["n"] for p in F.params if "ABTI_ythread *" in p["t"] or "ABTI_thread *" in p["t"]][0]
        for toks, kind, rv, rtxt in ps:
            js = idx(toks, lambda t: t[0] == "call" and t[1] in jumps)
            if not js:
                continue
            n += 1
            rs = idx(toks, lambda t: t[0] == "call" and t[1] in rel)
            if has_if(toks, "yieldable(%s)" % self_arg, False):
                # a tasklet has no context and therefore no suspended joiner link (it is joined by polling)
                rep.ob("R3", "%s: non-yieldable target needs no joiner release" % fn, len(rs) == 0, _cshow(F, toks),
                       loc=F.file, site="%s/joiner-release/tasklet" % fn)
                continue
            ok = len(rs) == 1 and rs[0] < js[0]
            if ok and _rargs(F, toks[rs[0]])[-1] != self_arg and fn != "ABTI_thread_handle_request_cancel":
                ok = False
            rep.ob("R3", "%s releases the terminating ULT's joiner exactly once before jumping [%s]" % (fn, _cshow(F, toks)[:200]),
                   ok, "joiner releases: %d" % len(rs), loc=F.file, site="%s/joiner-release/%s" % (fn, len(toks)))
        rep.need(n >= 1, "%s: no terminating jump found" % fn)
    # exit_to_primary: named exception (root ULT has no joiner) -- must not be called with a joinable ULT: checked by callers
    # R4: wake mechanisms
    wake = {"ABTD_futex_resume", "ABTI_ythread_resume_and_push", "ABTI_ythread_jump_to_sibling_internal"}
    ext_tests = {}
    # every function that obtains the joiner itself is a waker and is held to the same discipline (the two known
    # today plus whichever function a later change makes call ABTI_ythread_atomic_get_joiner directly)
    wakers = [("ABTI_ythread_exit", YH), ("ABTI_ythread_resume_joiner", YH)]
    for G_ in P.functions.values():
        if (G_.name, G_.file) not in wakers and G_.calls("ABTI_ythread_atomic_get_joiner"):
            wakers.append((G_.name, G_.file))
    for fn, wfile in wakers:
        F = P.fn(fn, wfile)
        sel = _Sel(calls=lambda c: c in wake or c in ("ABTI_pool_dec_num_blocked", "ABTI_ythread_jump_to_parent_internal"),
                      fields={"state"}, conds=conds, canon=True)
        for toks, kind, rv, rtxt in seq.sequences(F, sel):
            if (fn, wfile) in wakers[2:]:
                # a further waker may go on to jump elsewhere (exit_to jumps to its target): only a jump to the
                # joiner itself is a wake-up there
                toks = [t for t in toks if not (t[0] == "call" and t[1] == "ABTI_ythread_jump_to_sibling_internal" and
                                                not _rargs(F, t)[2].startswith(_GET_JOINER))]
            if not has_if(toks, "joiner", True):
                w = idx(toks, lambda t: t[0] == "call" and t[1] in wake)
                rep.ob("R4", "%s without joiner wakes nobody" % fn, not w, _cshow(F, toks), loc=F.file, site="%s/no-joiner" % fn)
                continue
            w = [t for t in toks if t[0] == "call" and t[1] in wake]
            why = []
            if len(w) != 1:
                why.append("%d wake-ups for one joiner" % len(w))
            else:
                woken = _rargs(F, w[0])
                if w[0][1] == "ABTI_ythread_jump_to_sibling_internal":
                    dec = idx(toks, is_call("ABTI_pool_dec_num_blocked"))
                    run = [t for t in toks if t[0] == "ast" and t[2] == "ABTI_thread::state"]
                    if len(dec) != 1 or len(run) != 1 or run[0][3] != P.enum_consts["ABT_THREAD_STATE_RUNNING"]:
                        why.append("direct hand-off must decrement the joiner's blocked counter once and store RUNNING once")
                    if not woken[2].startswith(_GET_JOINER):
                        why.append("jumps to %s" % woken[2])
                elif w[0][1] == "ABTD_futex_resume":
                    # the futex the external joiner stored in its dummy descriptor's p_arg
                    if not (woken[-1].startswith(_GET_JOINER) and woken[-1].endswith(")->thread.p_arg")):
                        why.append("wakes %s" % (woken[-1],))
                elif not woken[-1].startswith(_GET_JOINER) or not woken[-1].endswith(")"):
                    why.append("wakes %s" % (woken[-1],))
            for t in toks:
                if t[0] == "if" and (t[1] == "joiner-ext" or t[1].startswith("joiner-type?:")):
                    ext_tests.setdefault(fn, set()).add(t[1])
                    if t[2] and (not w or w[0][1] != "ABTD_futex_resume"):
                        why.append("external joiner not woken through its futex")
                    if not t[2] and w and w[0][1] == "ABTD_futex_resume":
                        why.append("futex resume for a yieldable joiner")
            rep.ob("R4", "%s joiner path [%s]" % (fn, _cshow(F, toks)[:240]), not why, "; ".join(why), loc=F.file,
                   site="%s/joiner/%s" % (fn, _cshow(F, toks)[:160]))
    if P.variant != "active_wait":
        a, b = ext_tests.get("ABTI_ythread_exit", set()), ext_tests.get("ABTI_ythread_resume_joiner", set())
        rep.ob("R4", "exit and resume_joiner recognise an external joiner with the same test", a == b == {"joiner-ext"},
               "exit: %s ; resume_joiner: %s (expected: joiner's type == ABTI_THREAD_TYPE_EXT)" % (sorted(a), sorted(b)), loc=YH,
               site="joiner/ext-test-agreement")
        for fn, wfile in wakers[2:]:
            c = ext_tests.get(fn, set())
            rep.ob("R4", "%s obtains the joiner itself and recognises an external joiner like resume_joiner" % fn,
                   c == {"joiner-ext"}, "%s tests: %s (expected: joiner's type == ABTI_THREAD_TYPE_EXT)" % (fn, sorted(c)),
                   loc=wfile, site="joiner/ext-test-agreement/%s" % fn)
    rep.min_instances("R3", 8)
    rep.min_instances("R4", 6)


def _handle_store(F, lh, pname):
    """Is `lh` a store through the handle parameter `pname`: `*p` / `p[k]` where the pointer is the
    parameter itself or a local alias of it / of `&p[k]`?  (A store to a local copy of the handle
    is not one.)"""
    n = F.nodes[F.strip(lh)]
    if n.get("k") == "un" and n["op"] == "*":
        base = canon.rooted(F, n["e"], depth=_DEPTH)
        return base == pname or base.startswith("&%s[" % pname)
    if n.get("k") == "idx":
        return canon.rooted(F, n["b"], depth=_DEPTH) == pname
    return False


def rule_R5(P, rep):
    for fn, file in (("ABT_thread_free", T), ("ABT_thread_free_many", T)):
        F = P.fn(fn, file)
        sel = _Sel(calls={"thread_join", "ABTI_thread_free", "ABTI_thread_join"}, indirect=False, canon=True)
        # handle stores: *thread = NULL / thread_list[i] = NULL
        n = 0
        for toks, kind, rv, rtxt in seq.sequences(F, sel, max_repeat=2):
            if kind != "ret" or rv != 0:
                continue
            j = idx(toks, is_call({"thread_join", "ABTI_thread_join"}))
            f = idx(toks, is_call("ABTI_thread_free"))
            if not f:
                continue
            n += 1
            ok = len(j) >= 1 and all(any(jj < ff for jj in j) for ff in f) and len(j) == len(f) and \
                all(_cargs(F, toks[jj])[-1] == _cargs(F, toks[ff])[-1] for jj, ff in zip(j, f)) and \
                all(jj < ff for jj, ff in zip(j, f))
            rep.ob("R5", "%s joins each unit before freeing it [%s]" % (fn, _cshow(F, toks)), ok, "", loc=F.file,
                   site="%s/join-before-free/%d" % (fn, len(f)))
        rep.need(n >= 1, "%s: no freeing path" % fn)
        # out-handle nulled
        hp = [p["n"] for p in F.params if p["t"].replace(" ", "") == "ABT_thread*"]
        rep.need(len(hp) == 1, "%s: handle parameter not found" % fn)
        nulls = [i for b, i, lh, rh in F.stores() if rh is not None and F.nodes[F.strip(rh)].get("cv") is not None and
                 _handle_store(F, lh, hp[0])]
        rep.ob("R5", "%s writes the NULL handle into the caller's handle" % fn, len(nulls) >= 1, "", loc=F.file,
               site="%s/null-handle" % fn)
    F = P.fn("ABT_task_free", "src/task.c")
    c = F.calls("ABT_thread_free")
    rep.ob("R5", "ABT_task_free forwards to ABT_thread_free(task)",
           len(c) == 1 and canon.rooted(F, F.nodes[c[0][1]]["a"][0], depth=_DEPTH) == F.params[0]["n"],
           "", loc=F.file, site="ABT_task_free/forward")
    F = P.fn("thread_free", T)
    sel = _Sel(calls={"ABTI_thread_unset_associated_pool", "ABTI_ktable_free", "ABTI_mem_free_thread"})
    for toks, kind, rv, rtxt in seq.sequences(F, sel):
        if kind != "ret":
            continue
        u = idx(toks, is_call("ABTI_thread_unset_associated_pool"))
        k = idx(toks, is_call("ABTI_ktable_free"))
        m = idx(toks, is_call("ABTI_mem_free_thread"))
        ok = len(u) <= 1 and len(k) <= 1 and len(m) == 1 and all(i < m[0] for i in u + k)
        rep.ob("R5", "thread_free path [%s]" % _cshow(F, toks), ok, "unset<=1, ktable_free<=1, mem_free_thread==1 and last",
               loc=F.file, site="thread_free/%s" % _cshow(F, toks))
    rep.min_instances("R5", 8)


def rule_R6(P, rep):
    F = P.fn("ABTI_thread_terminate", "src/include/abti_thread.h")
    TERM = P.enum_consts["ABT_THREAD_STATE_TERMINATED"]
    NAMED = _macro_value(P, "ABTI_THREAD_TYPE_NAMED")
    rep.need(NAMED is not None, "value of ABTI_THREAD_TYPE_NAMED not found")
    type_test = re.compile(r"^ABTI_(?:thread::|ythread::thread\.)type & (\d+)$")

    def conds(text):
        m = type_test.match(text)
        if m:
            return "type&NAMED" if int(m.group(1)) == NAMED else "type&%s" % m.group(1)
        return False
    sel = _Sel(calls={"ABTI_thread_free", "ABTI_mem_free_ythread_mempool_stack"}, fields={"state"},
                  conds=conds, canon=True)
    kinds = set()
    for toks, kind, rv, rtxt in seq.sequences(F, sel):
        if kind != "ret":
            continue
        st = [i for i, t in enumerate(toks) if t[0] == "ast" and t[2] == "ABTI_thread::state"]
        fr = idx(toks, is_call("ABTI_thread_free"))
        why = []
        if len(st) != 1 or toks[st[0]][3] != TERM or "release" not in toks[st[0]][1]:
            why.append("must release-store TERMINATED exactly once")
        else:
            after = [t for t in toks[st[0] + 1:] if t[0] in ("call", "st", "ast")]
            if fr:
                kinds.add("unnamed")
                if len(fr) != 1 or fr[0] < st[0]:
                    why.append("unnamed unit must be freed once, after TERMINATED")
            else:
                kinds.add("named")
                if after:
                    why.append("named unit touched after TERMINATED was published (the joiner may free it)")
        rep.ob("R6", "thread_terminate path [%s]" % _cshow(F, toks)[:200], not why, "; ".join(why), loc=F.file,
               site="thread_terminate/%s" % ("free" if fr else "named"))
    rep.ob("R6", "thread_terminate has named and unnamed arms", kinds == {"named", "unnamed"}, str(kinds), loc=F.file,
           site="thread_terminate/kinds")
    # freed iff not NAMED: the branch guarding the free tests the NAMED bit
    labels = []
    for b in F.blocks.values():
        if b.tc is not None:
            atom, _truth = cfg.cond_atom(F, b.tc, True)
            labels.append(canon.cond(F, atom)[0])
    rep.ob("R6", "the free is guarded by a test of ABTI_THREAD_TYPE_NAMED", any(conds(c) == "type&NAMED" for c in labels),
           str(labels), loc=F.file, site="thread_terminate/named-test")


def rule_R7(P, rep):
    from abtverif import ctrldep
    n = 0
    for fn, callees in (("ABT_thread_join_many", ("thread_join",)), ("ABT_thread_free_many", ("thread_join", "ABTI_thread_free"))):
        F = P.fn(fn, T)
        for callee in callees:
            sites = [i for _b, i in F.calls(callee)]
            rep.need(len(sites) == 1, "%s calls %s %d times" % (fn, callee, len(sites)))
            # the element is the work-unit argument (last pointer argument of the callee)
            i = sites[0]
            nd = F.nodes[i]
            elem = nd["a"][-1]
            bad, head = ctrldep.per_element(F, i, sites, elem=elem)
            n += 1
            rep.ob("R7", "%s: %s runs for every non-NULL handle of the array" % (fn, callee), not bad and head is not None,
                   "; ".join(bad) if bad else "not inside a loop over the array", loc=F.loc(i), site="%s/%s/per-element" % (fn, callee))
    rep.need(n >= 3, "only %d per-element call sites" % n)


def rule_R12(P, rep):
    """Contradiction rule: ABTI_thread_get_ythread is a plain cast and never yields NULL; code that tests its result
    against NULL believes it called ABTI_thread_get_ythread_or_null -- for a tasklet the ULT branch is taken (the join
    handshake registers a joiner that a tasklet's termination never wakes)."""
    from abtverif import ctrldep
    calls = sum(len(F.calls("ABTI_thread_get_ythread")) for F in P.functions.values())
    rep.need(calls >= 20, "only %d uses of the unchecked ULT downcast" % calls)
    bad = []
    for F in sorted(P.functions.values(), key=lambda f: (f.file, f.line)):
        for bid, B in sorted(F.blocks.items()):
            if B.tc is None or B.tk == "SwitchStmt":
                continue
            for leaf in ctrldep._operands(F, B.tc):
                lab, _flip = canon.cond(F, leaf)
                if re.match(r"^ABTI_thread_get_ythread\(.*\)( == 0)?$", lab) and lab.count("(") == lab.count(")"):
                    bad.append((F, leaf, lab))
    for F, leaf, lab in bad:
        rep.ob("R12", "%s does not test the unchecked ULT downcast against NULL" % F.name, False,
               "`%s` is used as a condition: the cast never yields NULL, so the branch for tasklets / external threads is dead "
               "and they are handled as ULTs" % lab, loc=F.loc(leaf), site="downcast-null-test/%s" % F.name)
    rep.ob("R12", "no routine tests the result of ABTI_thread_get_ythread (a cast) against NULL", not bad,
           "%d tests" % len(bad), loc="src", site="downcast-null-test")


def run(P, rep, tier):
    common.rule_X9(P, rep, fields=[('ABTI_thread', 'request')])
    common.rule_X4(P, rep)
    common.run_shared(P, rep, which=("X1",))
    rule_R1(P, rep)
    rule_R2(P, rep)
    rule_R3_R4(P, rep)
    rule_R5(P, rep)
    rule_R6(P, rep)
    rule_R7(P, rep)
    from . import C01        # lazy: C01 imports this module
    common.borrow(rep, P, C01.rule_R5, "R8")
    from . import c18_commit
    common.borrow(rep, P, c18_commit.rule_R6, "R9")
    from . import C06
    common.borrow(rep, P, C06.rule_R1_R3_R4, "R10")
    common.borrow(rep, P, C06.rule_R2, "R10")
    from . import C12
    common.borrow(rep, P, C12.rule_R3, "R11")
    rule_R12(P, rep)
