"""C03 -- join/free return after, and only after, termination (structural part)."""
from abtverif import seq
from abtverif.seq import idx, is_call, show, has_if, atomic_cmp
from . import common

EXPLANATION = (
    "Decides that every returning path of thread_join observes TERMINATED through an acquire load (directly or in "
    "one of the three waiting helpers, whose loops can only be left on that observation) (R1); that the joiner "
    "announces itself (fetch_or REQ_JOIN) before suspending, suspends only if no request was pending, and publishes "
    "its link after BLOCKED / after preparing the futex dummy (R2); that the target side returns 'no joiner' only "
    "when its own fetch_or saw no request and otherwise waits for the link with acquire loads, and that every "
    "terminating jump releases the joiner exactly once first (R3); that a joiner obtained on exit is woken by exactly "
    "one of futex resume / direct jump (with the blocked counter decremented and RUNNING stored) / resume-and-push, "
    "with the two exit paths agreeing on how an external joiner is recognised (R4); that the free routines join, "
    "then free, then null the handle, and thread_free releases unit association, key table and descriptor at most/"
    "exactly once (R5); and that termination is a single release-store of TERMINATED with nothing after it for "
    "named units (R6).  Progress of the join under user-defined schedulers is not decided.")
DECLINED = ["'they do return once the target terminates' under arbitrary user schedulers (progress)"]
ASSUMPTIONS = ["X1 memory orders of the atomic wrappers", "C02.R3: the joiner's BLOCKED state is published after its context is saved"]
RULES_DOC = dict(common.SHARED_DOC)
RULES_DOC.update({
    "R1": "every return of thread_join (and of its waiting helpers) follows an acquire-load observation state == TERMINATED",
    "R2": "joiner: fetch_or(REQ_JOIN) before suspending, suspend only if none was pending; BLOCKED before the p_link release-store; futex dummy prepared before p_link is published",
    "R3": "target: get_joiner returns NULL only on 'no prior REQ_JOIN', else acquire-loads p_link until set; every terminating jump obtains/releases the joiner exactly once before jumping",
    "R4": "a non-NULL joiner is woken by exactly one mechanism; exit and resume_joiner agree on the external-joiner test",
    "R5": "free routines: join -> free -> handle = NULL; thread_free: unset pool <= 1, ktable_free <= 1, mem_free_thread == 1",
    "R6": "ABTI_thread_terminate: exactly one release-store of TERMINATED; freed iff unnamed; nothing after the store for named units",
})
VARIANTS = ["active_wait", "no_ext_thread", "no_linux_futex", "tool_interface"]
T = "src/thread.c"
YH = "src/include/abti_ythread.h"


def _state_label(P):
    TERM = P.enum_consts["ABT_THREAD_STATE_TERMINATED"]

    def conds(text, F, node):
        c = atomic_cmp(F, node, "ABTI_thread::state")
        if c and c[2] == TERM:
            return "state%sTERMINATED/%s" % (c[1], c[0])
        if "req" in text or "p_joiner" in text or "p_link" in text or "p_last_xstream" in text or "p_ythread" in text:
            return text
        return False
    return conds


def _observed(toks):
    """Is the last evaluation of the state test an acquire-load observation of TERMINATED?"""
    tests = [t for t in toks if t[0] == "if" and t[1].startswith("state")]
    if not tests:
        return False
    last = tests[-1]
    if not last[1].endswith("/acquire"):
        return False
    return (last[1].startswith("state==") and last[2]) or (last[1].startswith("state!=") and not last[2])


def rule_R1(P, rep):
    conds = _state_label(P)
    helpers = ["thread_join_busywait", "thread_join_yield_thread"]
    for fn in helpers:
        F = P.fn(fn, T)
        sel = seq.Sel(calls={"ABTI_ythread_yield"}, conds=conds)
        ps = [p for p in seq.sequences(F, sel) if p[1] == "ret"]
        rep.need(ps, "%s has no returning path" % fn)
        for toks, kind, rv, rtxt in ps:
            rep.ob("R1", "%s returns only after an acquire-load of state equal to TERMINATED [%s]" % (fn, show(toks)),
                   _observed(toks), "last state test: %s" % [t[1:3] for t in toks if t[0] == "if"][-1:],
                   loc="%s:%d" % (F.file, F.line), site="%s/%s" % (fn, show(toks)))
    waiters = set(helpers)
    Fw = P.fn("thread_join_futexwait", T, required=False)
    if Fw is not None:
        sel = seq.Sel(calls={"thread_join_busywait", "ABTD_futex_suspend"}, conds=conds)
        for toks, kind, rv, rtxt in seq.sequences(Fw, sel):
            if kind != "ret":
                continue
            calls = [t for t in toks if t[0] == "call"]
            ok = bool(calls) and calls[-1][1] == "thread_join_busywait" and calls[-1][2] == ("var:" + Fw.params[0]["n"],)
            rep.ob("R1", "thread_join_futexwait ends with thread_join_busywait(target) [%s]" % show(toks), ok,
                   "a resumed external joiner must still wait for TERMINATED", loc="%s:%d" % (Fw.file, Fw.line),
                   site="thread_join_futexwait/%s" % show(toks))
        waiters.add("thread_join_futexwait")
    F = P.fn("thread_join", T)
    sel = seq.Sel(calls=lambda fn: fn in waiters or fn == "ABTI_ythread_suspend_join", conds=conds)
    ps = [p for p in seq.sequences(F, sel) if p[1] == "ret"]
    rep.need(len(ps) >= 4, "thread_join: %d returning paths" % len(ps))
    tgt = "var:" + F.params[1]["n"]
    for toks, kind, rv, rtxt in ps:
        # last observation: a waiter call on the target, or a direct observation, with nothing that
        # could un-observe in between (TERMINATED is final, so any later event is fine)
        waits = [i for i, t in enumerate(toks) if t[0] == "call" and t[1] in waiters]
        ok = _observed(toks) and not waits
        why = ""
        if waits:
            last = toks[waits[-1]]
            on_target = last[2][-1] in (tgt, "&ABTI_ythread::thread")
            ok = on_target
            if not on_target:
                why = "waits for %s, not for the join target" % (last[2][-1],)
            sj = idx(toks, is_call("ABTI_ythread_suspend_join"))
            if sj and sj[-1] > waits[-1]:
                ok = False
                why = "returns right after being resumed by the hand-off, without waiting for TERMINATED"
        elif not ok:
            why = "returns without observing TERMINATED (path: %s)" % show(toks)
        rep.ob("R1", "thread_join path [%s]" % show(toks)[:300], ok, why, loc="%s:%d" % (F.file, F.line),
               site="thread_join/%s" % show(toks)[:300])
    rep.min_instances("R1", 7)


def rule_R2(P, rep):
    conds = _state_label(P)
    REQ_JOIN = 1
    F = P.fn("thread_join", T)
    sel = seq.Sel(calls={"ABTI_ythread_suspend_join", "ABTD_atomic_fetch_or_uint32"}, conds=conds, decls={"req"})
    n = 0
    for toks, kind, rv, rtxt in seq.sequences(F, sel):
        sj = idx(toks, is_call("ABTI_ythread_suspend_join"))
        if not sj:
            continue
        n += 1
        why = []
        fo = [i for i, t in enumerate(toks) if t[0] == "call" and t[1] == "ABTD_atomic_fetch_or_uint32"]
        if not fo or fo[0] > sj[0]:
            why.append("suspends before announcing the join request")
        else:
            if toks[fo[0]][2][0] not in ("&ABTI_thread::request", "&ABTI_ythread::thread.request") or toks[fo[0]][2][1] != str(REQ_JOIN):
                why.append("fetch_or on %s" % (toks[fo[0]][2],))
            between = [t for t in toks[fo[0]:sj[0]] if t[0] == "if" and "req &" in t[1]]
            if not between or between[-1][2] is not False:
                why.append("suspends although a join request was already pending (the target may be past its joiner check)")
        rep.ob("R2", "thread_join suspends only after fetch_or(REQ_JOIN) showed no pending request", not why,
               "; ".join(why), loc=F.file, site="thread_join/suspend")
    rep.need(n >= 1, "thread_join never suspends")
    # callback: BLOCKED before p_link
    C = P.fn("ABTI_ythread_callback_suspend_join", "src/ythread.c")
    BLOCKED = P.enum_consts["ABT_THREAD_STATE_BLOCKED"]
    sel = seq.Sel(fields={"state", "p_link"})
    for toks, kind, rv, rtxt in seq.sequences(C, sel):
        if kind != "ret":
            continue
        st = [i for i, t in enumerate(toks) if t[0] == "ast" and t[2] == "ABTI_thread::state"]
        ln = [i for i, t in enumerate(toks) if t[0] == "ast" and t[2].endswith("::p_link")]
        ok = len(st) == 1 and len(ln) == 1 and st[0] < ln[0] and toks[st[0]][3] == BLOCKED and \
            "release" in toks[st[0]][1] and "release" in toks[ln[0]][1]
        rep.ob("R2", "suspend_join callback: release-store BLOCKED, then release-store p_link", ok, show(toks),
               loc=C.file, site="callback_suspend_join/order")
    Fw = P.fn("thread_join_futexwait", T, required=False)
    if Fw is None:
        rep.skip("R2", "no futex join in this configuration")
    else:
        sel = seq.Sel(calls={"ABTD_futex_suspend", "ABTD_atomic_fetch_or_uint32"}, fields={"type", "p_arg", "p_link"},
                      conds=conds)
        n = 0
        for toks, kind, rv, rtxt in seq.sequences(Fw, sel):
            ln = [i for i, t in enumerate(toks) if t[0] == "ast" and t[2].endswith("::p_link")]
            if kind != "ret" or not ln:
                continue
            n += 1
            why = []
            ty = [i for i, t in enumerate(toks) if t[0] == "st" and t[1] == "ABTI_thread::type"]
            ar = [i for i, t in enumerate(toks) if t[0] == "st" and t[1] == "ABTI_thread::p_arg"]
            su = idx(toks, is_call("ABTD_futex_suspend"))
            fo = idx(toks, is_call("ABTD_atomic_fetch_or_uint32"))
            if not (ty and ar and ty[0] < ln[0] and ar[0] < ln[0]):
                why.append("dummy joiner's type/p_arg not set before p_link is published")
            elif toks[ty[0]][3] != 0 or toks[ar[0]][3] != "&futex":
                why.append("dummy joiner prepared with type=%s p_arg=%s" % (toks[ty[0]][3], toks[ar[0]][3]))
            if "release" not in toks[ln[0]][1]:
                why.append("p_link not release-stored")
            if not su or su[0] < ln[0]:
                why.append("does not sleep on the futex after publishing the link")
            if not fo or fo[0] > ln[0] or not has_if(toks[fo[0]:ln[0]], "req & (1 << 0)", False):
                why.append("publishes the link although a join request was already pending")
            rep.ob("R2", "futex join: announce, prepare dummy, release-store p_link, sleep", not why, "; ".join(why),
                   loc=Fw.file, site="thread_join_futexwait/link")
        rep.need(n >= 1, "thread_join_futexwait never publishes a link")
    rep.min_instances("R2", 2)


def rule_R3_R4(P, rep):
    conds = _state_label(P)
    G = P.fn("ABTI_ythread_atomic_get_joiner", YH)
    sel = seq.Sel(calls={"ABTD_atomic_fetch_or_uint32"}, conds=conds, decls={"p_link", "req"})
    ps = [p for p in seq.sequences(G, sel, max_repeat=3) if p[1] == "ret"]
    rep.need(len(ps) >= 3, "get_joiner: %d paths" % len(ps))
    for toks, kind, rv, rtxt in ps:
        why = []
        if rv == 0:
            if not (has_if(toks, "p_link", False) and has_if(toks, "req & (1 << 0)", False)):
                why.append("returns NULL without having seen 'no link' and 'no prior REQ_JOIN' from its own fetch_or")
        else:
            links = [t for t in toks if t[0] == "if" and t[1] == "p_link"]
            if not links or links[-1][2] is not True:
                why.append("returns a joiner although the last read link was NULL")
            if rtxt != "ABTI_ythread_context_get_ythread(p_link)":
                why.append("returns %s" % rtxt)
        rep.ob("R3", "get_joiner path -> %s [%s]" % (rtxt, show(toks)[:200]), not why, "; ".join(why), loc=G.file,
               site="get_joiner/%s/%s" % (rtxt, len(toks)))
    loads = [G.nodes[i] for _b, i in G.calls() if G.nodes[i]["a"] and (G.field_of(G.nodes[i]["a"][0]) or ("", ""))[1] == "p_link"]
    rep.ob("R3", "get_joiner reads p_link with acquire loads only", bool(loads) and all("acquire_load" in nd["fn"] for nd in loads),
           str([nd["fn"] for nd in loads]), loc=G.file, site="get_joiner/acquire")
    # every terminating jump is preceded by exactly one joiner release
    jumps = {"ABTI_ythread_jump_to_sibling_internal", "ABTI_ythread_jump_to_parent_internal", "ABTI_thread_terminate",
             "ABTI_ythread_context_jump_with_call"}
    rel = {"ABTI_ythread_atomic_get_joiner", "ABTI_ythread_resume_joiner"}
    table = [("ABTI_ythread_exit", YH), ("ABTI_ythread_exit_to", YH), ("ABTI_ythread_resume_exit_to", YH),
             ("ABTI_thread_handle_request_cancel", T)]
    for fn, file in table:
        F = P.fn(fn, file)
        sel = seq.Sel(calls=lambda c: c in jumps or c in rel, conds=conds)
        ps = seq.sequences(F, sel)
        n = 0
        for toks, kind, rv, rtxt in ps:
            js = idx(toks, lambda t: t[0] == "call" and t[1] in jumps)
            if not js:
                continue
            n += 1
            rs = idx(toks, lambda t: t[0] == "call" and t[1] in rel)
            if has_if(toks, "p_ythread", False):
                # a tasklet has no context and therefore no suspended joiner link (it is joined by polling)
                rep.ob("R3", "%s: non-yieldable target needs no joiner release" % fn, len(rs) == 0, show(toks),
                       loc=F.file, site="%s/joiner-release/tasklet" % fn)
                continue
            ok = len(rs) == 1 and rs[0] < js[0]
            self_arg = "var:" + [p["n"] for p in F.params if "ABTI_ythread *" in p["t"] or "ABTI_thread *" in p["t"]][0]
            if ok and toks[rs[0]][2][-1] != self_arg and fn != "ABTI_thread_handle_request_cancel":
                ok = False
            rep.ob("R3", "%s releases the terminating ULT's joiner exactly once before jumping [%s]" % (fn, show(toks)[:200]),
                   ok, "joiner releases: %d" % len(rs), loc=F.file, site="%s/joiner-release/%s" % (fn, len(toks)))
        rep.need(n >= 1, "%s: no terminating jump found" % fn)
    # exit_to_primary: named exception (root ULT has no joiner) -- must not be called with a joinable ULT: checked by callers
    # R4: wake mechanisms
    wake = {"ABTD_futex_resume", "ABTI_ythread_resume_and_push", "ABTI_ythread_jump_to_sibling_internal"}
    ext_tests = {}
    for fn in ("ABTI_ythread_exit", "ABTI_ythread_resume_joiner"):
        F = P.fn(fn, YH)
        sel = seq.Sel(calls=lambda c: c in wake or c in ("ABTI_pool_dec_num_blocked", "ABTI_ythread_jump_to_parent_internal"),
                      fields={"state"}, conds=lambda t: "p_joiner" in t or "p_last_xstream" in t or "thread.type" in t)
        for toks, kind, rv, rtxt in seq.sequences(F, sel):
            if not has_if(toks, "p_joiner", True):
                w = idx(toks, lambda t: t[0] == "call" and t[1] in wake)
                rep.ob("R4", "%s without joiner wakes nobody" % fn, not w, show(toks), loc=F.file, site="%s/no-joiner" % fn)
                continue
            w = [t for t in toks if t[0] == "call" and t[1] in wake]
            why = []
            if len(w) != 1:
                why.append("%d wake-ups for one joiner" % len(w))
            else:
                if w[0][1] == "ABTI_ythread_jump_to_sibling_internal":
                    dec = idx(toks, is_call("ABTI_pool_dec_num_blocked"))
                    run = [t for t in toks if t[0] == "ast" and t[2] == "ABTI_thread::state"]
                    if len(dec) != 1 or len(run) != 1 or run[0][3] != P.enum_consts["ABT_THREAD_STATE_RUNNING"]:
                        why.append("direct hand-off must decrement the joiner's blocked counter once and store RUNNING once")
                    if w[0][2][2] != "var:p_joiner":
                        why.append("jumps to %s" % w[0][2][2])
                elif w[0][2][-1] not in ("var:p_joiner", "var:p_futex"):
                    why.append("wakes %s" % (w[0][2][-1],))
            for t in toks:
                if t[0] == "if" and "thread.type" in t[1] and "p_joiner" in t[1]:
                    ext_tests.setdefault(fn, set()).add(t[1])
                    if t[2] and (not w or w[0][1] != "ABTD_futex_resume"):
                        why.append("external joiner not woken through its futex")
                    if not t[2] and w and w[0][1] == "ABTD_futex_resume":
                        why.append("futex resume for a yieldable joiner")
            rep.ob("R4", "%s joiner path [%s]" % (fn, show(toks)[:240]), not why, "; ".join(why), loc=F.file,
                   site="%s/joiner/%s" % (fn, show(toks)[:160]))
    if P.variant != "active_wait":
        a, b = ext_tests.get("ABTI_ythread_exit", set()), ext_tests.get("ABTI_ythread_resume_joiner", set())
        rep.ob("R4", "exit and resume_joiner recognise an external joiner with the same test", a == b and len(a) == 1 and
               all("==" in t for t in a), "exit: %s ; resume_joiner: %s" % (sorted(a), sorted(b)), loc=YH,
               site="joiner/ext-test-agreement")
    rep.min_instances("R3", 8)
    rep.min_instances("R4", 6)


def rule_R5(P, rep):
    for fn, file in (("ABT_thread_free", T), ("ABT_thread_free_many", T)):
        F = P.fn(fn, file)
        sel = seq.Sel(calls={"thread_join", "ABTI_thread_free", "ABTI_thread_join"}, indirect=False)
        # handle stores: *thread = NULL / thread_list[i] = NULL
        n = 0
        for toks, kind, rv, rtxt in seq.sequences(F, sel, max_repeat=2):
            if kind != "ret" or rv != 0:
                continue
            j = idx(toks, is_call({"thread_join", "ABTI_thread_join"}))
            f = idx(toks, is_call("ABTI_thread_free"))
            if not f:
                continue
            n += 1
            ok = len(j) >= 1 and all(any(jj < ff for jj in j) for ff in f) and len(j) == len(f) and \
                all(toks[jj][2][-1] == toks[ff][2][-1] for jj, ff in zip(j, f)) and all(jj < ff for jj, ff in zip(j, f))
            rep.ob("R5", "%s joins each unit before freeing it [%s]" % (fn, show(toks)), ok, "", loc=F.file,
                   site="%s/join-before-free/%d" % (fn, len(f)))
        rep.need(n >= 1, "%s: no freeing path" % fn)
        # out-handle nulled
        nulls = [i for b, i, lh, rh in F.stores() if rh is not None and F.nodes[F.strip(rh)].get("cv") is not None and
                 F.render(lh) in ("*thread", "thread_list[i]")]
        rep.ob("R5", "%s writes the NULL handle into the caller's handle" % fn, len(nulls) >= 1, "", loc=F.file,
               site="%s/null-handle" % fn)
    F = P.fn("ABT_task_free", "src/task.c")
    c = F.calls("ABT_thread_free")
    rep.ob("R5", "ABT_task_free forwards to ABT_thread_free(task)", len(c) == 1 and F.render(F.nodes[c[0][1]]["a"][0]) == "task",
           "", loc=F.file, site="ABT_task_free/forward")
    F = P.fn("thread_free", T)
    sel = seq.Sel(calls={"ABTI_thread_unset_associated_pool", "ABTI_ktable_free", "ABTI_mem_free_thread"})
    for toks, kind, rv, rtxt in seq.sequences(F, sel):
        if kind != "ret":
            continue
        u = idx(toks, is_call("ABTI_thread_unset_associated_pool"))
        k = idx(toks, is_call("ABTI_ktable_free"))
        m = idx(toks, is_call("ABTI_mem_free_thread"))
        ok = len(u) <= 1 and len(k) <= 1 and len(m) == 1 and all(i < m[0] for i in u + k)
        rep.ob("R5", "thread_free path [%s]" % show(toks), ok, "unset<=1, ktable_free<=1, mem_free_thread==1 and last",
               loc=F.file, site="thread_free/%s" % show(toks))
    rep.min_instances("R5", 8)


def rule_R6(P, rep):
    F = P.fn("ABTI_thread_terminate", "src/include/abti_thread.h")
    TERM = P.enum_consts["ABT_THREAD_STATE_TERMINATED"]
    sel = seq.Sel(calls={"ABTI_thread_free", "ABTI_mem_free_ythread_mempool_stack"}, fields={"state"},
                  conds=lambda t: "thread_type" in t)
    kinds = set()
    for toks, kind, rv, rtxt in seq.sequences(F, sel):
        if kind != "ret":
            continue
        st = [i for i, t in enumerate(toks) if t[0] == "ast" and t[2] == "ABTI_thread::state"]
        fr = idx(toks, is_call("ABTI_thread_free"))
        named = any(t[0] == "if" and "<< 6" in t[1] or (t[0] == "if" and "NAMED" in t[1]) for t in toks)
        why = []
        if len(st) != 1 or toks[st[0]][3] != TERM or "release" not in toks[st[0]][1]:
            why.append("must release-store TERMINATED exactly once")
        else:
            after = [t for t in toks[st[0] + 1:] if t[0] in ("call", "st", "ast")]
            if fr:
                kinds.add("unnamed")
                if len(fr) != 1 or fr[0] < st[0]:
                    why.append("unnamed unit must be freed once, after TERMINATED")
            else:
                kinds.add("named")
                if after:
                    why.append("named unit touched after TERMINATED was published (the joiner may free it)")
        rep.ob("R6", "thread_terminate path [%s]" % show(toks)[:200], not why, "; ".join(why), loc=F.file,
               site="thread_terminate/%s" % ("free" if fr else "named"))
    rep.ob("R6", "thread_terminate has named and unnamed arms", kinds == {"named", "unnamed"}, str(kinds), loc=F.file,
           site="thread_terminate/kinds")
    # freed iff not NAMED: the branch guarding the free tests the NAMED bit
    NAMED = None
    conds = [F.render(b.tc) for b in F.blocks.values() if b.tc is not None]
    rep.ob("R6", "the free is guarded by a test of ABTI_THREAD_TYPE_NAMED", any("thread_type & " in c for c in conds),
           str(conds), loc=F.file, site="thread_terminate/named-test")


def run(P, rep, tier):
    common.run_shared(P, rep, which=("X1",))
    rule_R1(P, rep)
    rule_R2(P, rep)
    rule_R3_R4(P, rep)
    rule_R5(P, rep)
    rule_R6(P, rep)
