"""C07 -- built-in pools are linearizable queues (structural part)."""
import re

from abtverif import canon, cfg, locks, paths, seq, tables
from abtverif.build import AnalysisBroken
from . import common

EXPLANATION = (
    "Decides the structural necessary conditions of C07 on every CFG path of the three built-in pool "
    "implementations and of thread_queue.h: R1 every queue mutator runs under the pool's lock unless the "
    "function is installed only for ABT_POOL_ACCESS_PRIV, and every exit leaves the lock released; R2 the "
    "emptiness flag trusted by lock-free pops is coherent with the element count on every path; R3 the "
    "conditional acquire returns 0 only with the lock held and non-zero only after observing 'empty'; R4 FIFO "
    "pools push at the tail and pop at the head, RANDWS picks the end by the context flag and all sibling "
    "variants agree; R5 each pool definition function fills every required slot for each access mode; R6 "
    "FIFO_WAIT signals its condition variable after a push inside the critical section and waits only under "
    "the mutex after testing emptiness.  It does not decide linearizability or FIFO order of histories.")
DECLINED = ["linearizability and FIFO order of concurrent histories as such",
            "exactness of get_size under concurrency"]
ASSUMPTIONS = ["user-defined pools are out of scope (C14)",
               "pthread_mutex/pthread_cond behave as specified by POSIX"]
RULES_DOC = dict(common.SHARED_DOC)
RULES_DOC["X7"] = common.X7_DOC
RULES_DOC["X4"] = common.X4_DOC
RULES_DOC["X5"] = common.X5_DOC
RULES_DOC["R7"] = "batch push (ABT_pool_push_threads[_ex]): handles are compacted into the unit buffer with one counter -- every store into the buffer is indexed by the counter that is incremented with it, and ABTI_pool_push_many receives that buffer and that counter (NULL handles are skipped without leaving holes or pushing unwritten slots)"
RULES_DOC["R10"] = "size queries: ABT_pool_get_size / ABT_sched_get_size count queued units (ABTI_pool_get_size), ABT_pool_get_total_size / ABT_sched_get_total_size add the blocked units (ABTI_pool_get_total_size); each public getter reaches exactly the internal helper of its own name (a user scheduler that stops at total size 0 must still see its blocked units; a quiescent pool with only blocked units has size 0)"
RULES_DOC["R9"] = "inserting a unit links it with BOTH neighbours in BOTH directions (tail->next, head->prev, unit->prev, unit->next) and moves exactly the queue end it is pushed to; the first unit of an empty queue points at itself and becomes head and tail: a tail pop or a remove follows the backward links"
RULES_DOC["R8"] = "unlinking a unit from a queue that keeps other units rewires BOTH neighbours (prev->next and next->prev): the list is circular, so the tail's forward link is part of the structure a later tail pop or remove reads"
RULES_DOC.update({
    "R1": "queue mutators run under data::mutex (or in a PRIV-only function); every exit has the lock released",
    "R2": "thread_queue.h: is_empty / is_in_pool release-stores are coherent with num_threads on every path",
    "R3": "thread_queue_acquire_spinlock_if_not_empty returns non-zero only right after an acquire-load of is_empty that was true",
    "R4": "FIFO/FIFO_WAIT push tail & pop head; RANDWS chooses the end by the context flag, siblings agree",
    "R5": "ABTI_pool_get_*_def assigns every ABTI_pool_required_def slot for each of the five access modes",
    "R6": "FIFO_WAIT: push signals/broadcasts after pushing and before unlocking; timed waits happen only under the mutex after an emptiness test and pop in the same critical section",
})
VARIANTS = []

POOL_FILES = ["src/pool/fifo.c", "src/pool/fifo_wait.c", "src/pool/randws.c"]
DEF_FN = {"src/pool/fifo.c": "ABTI_pool_get_fifo_def", "src/pool/fifo_wait.c": "ABTI_pool_get_fifo_wait_def",
          "src/pool/randws.c": "ABTI_pool_get_randws_def"}
MUTATORS = {"thread_queue_push_head", "thread_queue_push_tail", "thread_queue_pop_head",
            "thread_queue_pop_tail", "thread_queue_remove"}
PUSHERS = {"thread_queue_push_head", "thread_queue_push_tail"}
POPPERS = {"thread_queue_pop_head", "thread_queue_pop_tail"}
TQ = "src/pool/thread_queue.h"


def access_values(P):
    names = ["ABT_POOL_ACCESS_PRIV", "ABT_POOL_ACCESS_SPSC", "ABT_POOL_ACCESS_MPSC",
             "ABT_POOL_ACCESS_SPMC", "ABT_POOL_ACCESS_MPMC"]
    out = {}
    for n in names:
        if n not in P.enum_consts:
            raise AnalysisBroken("enumerator %s not found" % n)
        out[n] = P.enum_consts[n]
    return out


def _slot_assignments(P, F, param_values):
    """common.slot_assignments, but a slot may also be filled from a local function pointer: the function
    such a local holds on the current path is part of the state (no dependence on how the local is called,
    or on whether there is one)."""
    out = {}

    class TS(cfg.Typestate):
        def __init__(self):
            self.init = frozenset()
            self.results = []

        def event(self, F, nid, st, ctx):
            nd = F.nodes[nid]
            if nd.get("k") == "decl":
                for v in nd["vars"]:
                    if "init" in v:
                        st = self._assign(F, st, ("local", v["n"]), v["init"], False)
                return st
            if nd.get("k") == "bin" and nd.get("asg") and nd["op"] == "=":
                ln = F.nodes[F.strip(nd["lh"])]
                if ln.get("k") == "ref" and ln.get("dk") == "var":
                    return self._assign(F, st, ("local", ln["n"]), nd["rh"], False)
                fo = F.field_of(nd["lh"])
                if fo:
                    return self._assign(F, st, fo, nd["rh"], "(*)" in (ln.get("t") or ""))
            return st

        def _assign(self, F, st, key, rh, null_ok):
            rn = F.nodes[F.strip(rh)]
            val = False
            if rn.get("k") == "ref" and rn.get("dk") == "func":
                val = rn["n"]
            elif rn.get("k") == "ref" and rn.get("dk") == "var" and any(x[0] == ("local", rn["n"]) for x in st):
                val = [x[1] for x in st if x[0] == ("local", rn["n"])][0]
            elif null_ok and rn.get("cv") == 0:
                val = None
            if val is False:
                if key[0] == "local":       # the local now holds something that is not a known function
                    return frozenset(x for x in st if x[0] != key)
                return st
            return frozenset(x for x in st if x[0] != key) | {(key, val)}

        def exit(self, F, kind, nid, st, ctx):
            rv = ctx.value(F.nodes[nid]["e"]) if nid is not None and "e" in F.nodes[nid] else None
            self.results.append((kind, rv, frozenset(x for x in st if x[0][0] != "local")))

    for pname, values in param_values.items():
        for vname, v in values.items():
            ts = TS()
            cfg.simulate(F, ts, entry_consts={pname: v})
            out[vname] = ts.results
    return out


def installed_slots(P, file):
    """{access name: {slot: fn}} on success paths of the file's definition function."""
    D = P.fn(DEF_FN[file], file)
    res = _slot_assignments(P, D, {D.params[0]["n"]: access_values(P)})
    out = {}
    for acc, results in res.items():
        succ = [st for kind, rv, st in results if kind == "ret" and rv == 0]
        out[acc] = [dict(st) for st in succ]
        out[acc + "#all"] = results
    return D, out


def _infeasible(F, nid):
    """No feasible path executes node nid (constant propagation prunes the branch it sits in)."""
    class _Seen(cfg.Typestate):
        init = 0
        hit = False

        def event(self, F2, n, st, ctx):
            if n == nid:
                self.hit = True
            return st
    ts = _Seen()
    cfg.simulate(F, ts)
    return not ts.hit


def rule_R1_R5(P, rep):
    accv = access_values(P)
    for file in POOL_FILES:
        D, slots = installed_slots(P, file)
        req = [f["n"] for f in P.record("ABTI_pool_required_def")["fields"]]
        shared_fns, priv_fns = set(), set()
        for acc in accv:
            succ = slots[acc]
            allres = slots[acc + "#all"]
            ok = len(succ) >= 1 and len(succ) == sum(1 for k, rv, st in allres if k == "ret")
            missing = []
            for st in succ:
                for f in req:
                    if st.get(("ABTI_pool_required_def", f)) is None:
                        missing.append(f)
                for slot, fn in st.items():
                    if fn:
                        (priv_fns if acc == "ABT_POOL_ACCESS_PRIV" else shared_fns).add(fn)
            rep.ob("R5", "%s(access=%s) succeeds and fills all %d required slots" % (D.name, acc, len(req)),
                   ok and not missing,
                   "success paths %d / returning paths %d; unassigned required slots: %s" %
                   (len(succ), sum(1 for k, rv, st in allres if k == "ret"), sorted(set(missing))),
                   loc="%s:%d" % (D.file, D.line), site="%s/%s" % (D.name, acc))
        priv_only = priv_fns - shared_fns
        # R1: per function containing mutator calls
        n_sites = 0
        for F in sorted(P.functions.values(), key=lambda f: (f.file, f.line)):
            if F.file != file:
                continue
            muts = F.calls(MUTATORS)
            ts = _run_locks(P, F)
            # balance on every exit
            unbalanced = [(k, nid, held) for k, nid, held, rv in ts.exits if k == "ret" and held]
            if muts or any(F.nodes[i].get("fn") in ("ABTD_spinlock_acquire", "pthread_mutex_lock") for _b, i in F.calls()):
                rep.ob("R1", "%s:%s leaves every lock released on every exit" % (file, F.name),
                       not unbalanced and not ts.errors,
                       "; ".join(["exit at %s holds %s" % (F.loc(nid) if nid is not None else F.file, sorted(h))
                                  for k, nid, h in unbalanced] + ["%s: %s" % (F.loc(n), m) for n, m in ts.errors]),
                       loc="%s:%d" % (F.file, F.line), site="%s:%s/balance" % (file, F.name))
            for bid, nid in muts:
                n_sites += 1
                nd = F.nodes[nid]
                helds = ts.at.get(nid, set())
                if not helds and nid not in ts.at and nd.get("inl") is None and _infeasible(F, nid):
                    continue            # a call no feasible path reaches (e.g. a helper specialised by a constant argument)
                locked = bool(helds) and all(any(_is_pool_mutex(F, k) for k in h) for h in helds)
                if F.name in priv_only:
                    rep.ob("R1", "%s:%s calls %s (PRIV-only function, no lock required)" % (file, F.name, nd["fn"]),
                           True, "installed only in the ABT_POOL_ACCESS_PRIV arm of %s" % D.name,
                           loc=F.loc(nid), site="%s:%s/%s" % (file, F.name, nd["fn"]))
                else:
                    rep.ob("R1", "%s:%s calls %s with data::mutex held on every path" % (file, F.name, nd["fn"]),
                           locked,
                           "lock sets observed at the call: %s; function is installed for shared access modes or "
                           "not installed only for PRIV" % sorted(sorted(h) for h in helds),
                           loc=F.loc(nid), site="%s:%s/%s" % (file, F.name, nd["fn"]))
        rep.need(n_sites >= 7, "%s: only %d queue-mutator call sites found" % (file, n_sites))
    rep.min_instances("R1", 40)
    rep.min_instances("R5", 15)


def _is_pool_mutex(F, key):
    # keys are rooted access paths (see _LockTS): the lock is the `mutex` member of the pool's data
    return key.endswith("->mutex") or key.endswith(".mutex")


class _LockTS(locks.LockTS):
    """locks.LockTS whose lock identities do not depend on local names: a lock argument is keyed by its
    rooted access path (canon.rooted: locals replaced by what they were assigned from), so
    `&p_data->mutex`, `&p_d->mutex` and a pointer temporary that holds it are one and the same lock."""

    @staticmethod
    def _key(F, arg):
        return canon.rooted(F, arg, 6)

    def event(self, F, nid, st, ctx):
        held, asm = st
        nd = F.nodes[nid]
        fn = nd.get("fn") if nd.get("k") == "call" else None
        if fn in tables.LOCK_ACQUIRE:
            self.at.setdefault(nid, set()).add(held)
            key = self._key(F, nd["a"][tables.LOCK_ACQUIRE[fn]])
            if key in held:
                self.errors.append((nid, "lock %s acquired while already held" % key))
            return (held | {key}, asm)
        if fn in tables.LOCK_RELEASE:
            self.at.setdefault(nid, set()).add(held)
            key = self._key(F, nd["a"][tables.LOCK_RELEASE[fn]])
            if key not in held:
                self.errors.append((nid, "lock %s released while not held" % key))
            return (held - {key}, asm)
        if fn in tables.LOCK_RELEASE_TRANSFER:
            self.at.setdefault(nid, set()).add(held)
            key = self._key(F, nd["a"][tables.LOCK_RELEASE_TRANSFER[fn]])
            if key not in held:
                self.errors.append((nid, "%s called without holding %s" % (fn, key)))
            return (held - {key}, asm)
        if fn in tables.LOCK_COND_ACQUIRE:
            self.at.setdefault(nid, set()).add(held)
            key = self._key(F, nd["a"][tables.LOCK_COND_ACQUIRE[fn]])
            var = self._result_var(F, nid)
            asm2 = frozenset(a for a in asm if a[0] != nid)
            return {(held | {key}, asm2 | {(nid, True, var)}),
                    (held - {key}, asm2 | {(nid, False, var)})}
        return locks.LockTS.event(self, F, nid, st, ctx)


def _run_locks(P, F):
    ts = _LockTS(P)
    cfg.simulate(F, ts)
    return ts


# --------------------------------------------------------------------------- R2

NUM = "thread_queue_t::num_threads"


class _Canon:
    """Marks a token selector as canonical for the path engine: the text of the returned expression is then
    rendered by canon.expr (no local names) instead of the raw C text."""
    canon = True
    want_loads = False

    def __init__(self, fn):
        self.fn = fn

    def select(self, F, nid, ctx):
        return self.fn(F, nid, ctx)


def _count_filter(label, truth, feasible):
    """Narrow the set of possible values of num_threads ({0, 1, 2} with 2 standing for 'two or more') by a
    canonical test on it (`N`, `N == c`, `N < c`, `c < N` with c <= 2); other labels leave it unchanged."""
    if label == NUM:
        pred = lambda v: v != 0
    else:
        m = re.match(r"^%s (==|<) (\d+)$" % re.escape(NUM), label)
        m2 = re.match(r"^(\d+) < %s$" % re.escape(NUM), label)
        if m and int(m.group(2)) <= 2:
            c = int(m.group(2))
            if m.group(1) == "==" and c == 2:
                return feasible
            pred = (lambda v: v == c) if m.group(1) == "==" else (lambda v: v < c)
        elif m2 and int(m2.group(1)) <= 1:
            c = int(m2.group(1))
            pred = lambda v: v > c
        else:
            return feasible
    return set(v for v in feasible if pred(v) == truth)


def rule_R2(P, rep):
    def select(F, nid, ctx):
        nd = F.nodes[nid]
        k = nd.get("k")
        if k == "bin" and nd.get("asg"):
            fo = F.field_of(nd["lh"])
            if fo and fo[1] == "num_threads":
                v = ctx.value(nd["rh"])
                op = nd["op"]
                # `n += 1`, `n = n + 1` are spellings of `n++` (likewise for --)
                if op in ("+=", "-=") and v == 1:
                    return ("num", "++" if op == "+=" else "--", None)
                if op == "=" and v is None:
                    t = canon.expr(F, nd["rh"], 4)
                    if t in (NUM + " + 1", "1 + " + NUM):
                        return ("num", "++", None)
                    if t == NUM + " - 1":
                        return ("num", "--", None)
                return ("num", op, v)
        if k == "un" and nd["op"] in ("post++", "post--", "pre++", "pre--"):
            fo = F.field_of(nd["e"])
            if fo and fo[1] == "num_threads":
                return ("num", nd["op"][-2:], None)
        if k == "call" and nd.get("fn", "").startswith("ABTD_atomic_") and "store" in nd["fn"]:
            fo = F.field_of(nd["a"][0])
            if fo and fo[1] in ("is_empty", "is_in_pool"):
                return ("store", fo[1], nd["fn"], ctx.value(nd["a"][1]))
        return None

    def edge_select(F, bid, key, truth, ctx):
        if ctx.cond_node is None:
            return None
        # canonical label of the test: independent of local names, temporaries and polarity
        label, flip = canon.cond(F, ctx.cond_node)
        val = bool(ctx.cond_val) != flip
        if NUM in label:
            return ("if", label, val)
        m = re.match(r"^ABTD_atomic_(\w+?)_load_\w+\(&ABTI_thread::is_in_pool\) == (\d+)$", label)
        if m:
            return ("inpool?", (m.group(1), "==", int(m.group(2))), val)
        return None

    expect = {"thread_queue_push_head": "push", "thread_queue_push_tail": "push",
              "thread_queue_pop_head": "pop", "thread_queue_pop_tail": "pop",
              "thread_queue_remove": "remove"}
    for name, kind in sorted(expect.items()):
        F = P.fn(name, TQ)
        ps = paths.enumerate_paths(F, _Canon(select).select, edge_select)
        rets = [p for p in ps if p[1] == "ret"]
        rep.need(rets, "%s has no returning path" % name)
        for toks, k, rv, rtxt in rets:
            nums = [t for t in toks if t[0] == "num"]
            st_empty = [t for t in toks if t[0] == "store" and t[1] == "is_empty"]
            st_inpool = [t for t in toks if t[0] == "store" and t[1] == "is_in_pool"]
            # what the tests made before the update say about the count
            feasible = {0, 1, 2}
            for t in (toks[:toks.index(nums[0])] if nums else toks):
                if t[0] == "if":
                    feasible = _count_filter(t[1], t[2], feasible)
            why = []
            failing = (kind == "pop" and rv == 0 and not nums) or (kind == "remove" and rv not in (0, None) and not nums)
            if failing:
                if st_empty or st_inpool:
                    why.append("a path that removes nothing writes is_empty/is_in_pool")
            else:
                if len(nums) != 1:
                    why.append("num_threads updated %d times" % len(nums))
                else:
                    _n, op, v = nums[0]
                    if kind == "push":
                        if op == "=" and v == 1:
                            if not (len(st_empty) == 1 and st_empty[0][3] == 0 and "release" in st_empty[0][2]):
                                why.append("count 0 -> 1 without release-store is_empty = 0")
                            if feasible != {0}:
                                why.append("count set to 1 without having tested num_threads == 0")
                        elif op == "++":
                            if st_empty:
                                why.append("is_empty written although the count stays non-zero")
                            if 0 in feasible:
                                why.append("count incremented on a path where num_threads may be 0")
                        else:
                            why.append("unexpected count update %s %s" % (op, v))
                    else:
                        if op == "=" and v == 0:
                            if not (len(st_empty) == 1 and st_empty[0][3] == 1 and "release" in st_empty[0][2]):
                                why.append("count 1 -> 0 without release-store is_empty = 1")
                            if feasible != {1}:
                                why.append("count set to 0 without having tested num_threads == 1")
                        elif op == "--":
                            if st_empty:
                                why.append("is_empty written although the count stays non-zero")
                            if 1 in feasible:
                                why.append("count decremented on a path where num_threads may be 1")
                        else:
                            why.append("unexpected count update %s %s" % (op, v))
                if kind == "remove":
                    # the unit must be verified to be queued *inside* the mutator (callers' own tests are unlocked)
                    chk = [t for t in toks if t[0] == "inpool?"]
                    if not chk or not (chk[-1][1] == ("acquire", "==", 1) and chk[-1][2] is True):
                        why.append("unlinks the unit without having verified is_in_pool == 1 (a unit popped by another "
                                   "stream in the meantime would corrupt the queue)")
                want = 1 if kind == "push" else 0
                if not (len(st_inpool) == 1 and st_inpool[0][3] == want and "release" in st_inpool[0][2]):
                    why.append("is_in_pool must be release-stored to %d exactly once (saw %s)" % (want, st_inpool))
            desc = " ; ".join("%s%s" % (t[0], list(t[1:])) for t in toks) or "(no queue state change)"
            rep.ob("R2", "%s path [%s] -> %s" % (name, desc, rtxt), not why, "; ".join(why),
                   loc="%s:%d" % (F.file, F.line), site="%s/%s" % (name, desc))
    # init
    F = P.fn("thread_queue_init", TQ)
    ps = paths.enumerate_paths(F, select, None)
    ok = all(any(t[0] == "num" and t[2] == 0 for t in toks) and
             any(t[0] == "store" and t[1] == "is_empty" and t[3] == 1 for t in toks) for toks, k, rv, r in ps)
    rep.ob("R2", "thread_queue_init sets num_threads = 0 and is_empty = 1", ok and bool(ps), str(ps),
           loc="%s:%d" % (F.file, F.line), site="thread_queue_init")
    # readers of the flag use acquire loads
    for name in ("thread_queue_is_empty", "thread_queue_acquire_spinlock_if_not_empty"):
        F = P.fn(name, TQ)
        loads = [F.nodes[i] for _b, i in F.calls() if F.field_of(F.nodes[i]["a"][0] if F.nodes[i]["a"] else -1) ==
                 ("thread_queue_t", "is_empty")]
        ok = bool(loads) and all(nd["fn"] == "ABTD_atomic_acquire_load_int" for nd in loads)
        rep.ob("R2", "%s reads is_empty with acquire loads only" % name, ok, str([nd["fn"] for nd in loads]),
               loc="%s:%d" % (F.file, F.line), site=name + "/acquire")
    rep.min_instances("R2", 14)


# --------------------------------------------------------------------------- R3

def rule_R3(P, rep):
    F = P.fn("thread_queue_acquire_spinlock_if_not_empty", TQ)

    class TS(cfg.Typestate):
        init = "start"

        def __init__(self):
            self.exits = []

        def edge(self, F, bid, key, truth, st, ctx):
            if ctx.cond_node is None:
                return st
            # canonical label: the same whether the load sits in the condition or in a temporary,
            # and whether the test is written `x`, `x != 0` or `!(x == 0)`
            label, flip = canon.cond(F, ctx.cond_node)
            if label == "ABTD_atomic_acquire_load_int(&thread_queue_t::is_empty)" and (bool(ctx.cond_val) != flip):
                return "empty-seen"
            return "other"

        def exit(self, F, kind, nid, st, ctx):
            rv = ctx.value(F.nodes[nid]["e"]) if nid is not None and "e" in F.nodes[nid] else None
            self.exits.append((kind, nid, st, rv))

    ts = TS()
    cfg.simulate(F, ts)
    n = 0
    for kind, nid, st, rv in ts.exits:
        if kind != "ret":
            continue
        n += 1
        if rv != 0:
            rep.ob("R3", "return %s at line %s follows an acquire-load of is_empty that was true" % (rv, F.nodes[nid]["l"]),
                   st == "empty-seen", "last branch before the return: %s" % st, loc=F.loc(nid),
                   site="acquire_if_not_empty/nonzero-return")
    rep.need(n >= 2, "conditional acquire has %d returning exits" % n)
    rep.min_instances("R3", 2)


# --------------------------------------------------------------------------- R4

def _controlling_context_facts(P, F, names):
    """{call node: set of frozenset((label, truth)) of the tests of the pool-context argument decided on the
    paths reaching it}.  Labels are canonical (`ctx & <mask>`, true = flag set): they do not depend on the
    name of a temporary that holds the flag, on the polarity of the test, or on the name of the parameter."""
    ctxs = [p["n"] for p in F.params if p["t"] == "ABT_pool_context"]

    def conds(t):
        m = re.match(r"^(\w+) & (\d+)$", t)
        if m and m.group(1) in ctxs:
            return "ctx & %s" % m.group(2)
        return None

    sel = seq.Sel(calls=set(names), conds=conds if ctxs else None, locks=False, canon=True)
    seen = {}
    for toks, kind, rv, rtxt in seq.sequences(F, sel, max_len=120):
        facts = {}
        for t in toks:
            if t[0] == "if":
                facts[t[1]] = t[2]
            elif t[0] == "call":
                seen.setdefault(t[-1], set()).add(frozenset(facts.items()))
    return seen


def rule_R4(P, rep):
    ends = {"thread_queue_push_head": ("push", "head"), "thread_queue_push_tail": ("push", "tail"),
            "thread_queue_pop_head": ("pop", "head"), "thread_queue_pop_tail": ("pop", "tail")}
    for file in ("src/pool/fifo.c", "src/pool/fifo_wait.c"):
        n = 0
        for F in P.functions.values():
            if F.file != file:
                continue
            for bid, nid in F.calls(set(ends)):
                n += 1
                op, end = ends[F.nodes[nid]["fn"]]
                ok = (op == "push" and end == "tail") or (op == "pop" and end == "head")
                rep.ob("R4", "%s:%s uses %s" % (file, F.name, F.nodes[nid]["fn"]), ok,
                       "a FIFO pool must push at the tail and pop at the head", loc=F.loc(nid),
                       site="%s:%s/%s" % (file, F.name, F.nodes[nid]["fn"]))
        rep.need(n >= 6, "%s: %d push/pop sites" % (file, n))
    file = "src/pool/randws.c"
    sigs = {"push": {}, "pop": {}}
    for F in sorted(P.functions.values(), key=lambda f: f.line):
        if F.file != file:
            continue
        seen = _controlling_context_facts(P, F, set(ends))
        if not seen:
            continue
        if not any(p["t"] == "ABT_pool_context" for p in F.params):
            # deprecated entry points without a context argument: must use the default end
            # (the one the other variants use when the flag is clear: push tail / pop head)
            for nid in seen:
                op, end = ends[F.nodes[nid]["fn"]]
                rep.ob("R4", "randws %s (no context argument) uses the default end" % F.name,
                       (op, end) in (("push", "tail"), ("pop", "head")), "uses %s" % F.nodes[nid]["fn"],
                       loc=F.loc(nid), site="randws/%s/default-end" % F.name)
            continue
        sig = set()
        kinds = set()
        for nid, factsets in seen.items():
            op, end = ends[F.nodes[nid]["fn"]]
            kinds.add(op)
            for fs in factsets:
                sig.add((end, fs))
        for op in kinds:
            sigs[op][F.name] = frozenset(s for s in sig)
    for op in ("push", "pop"):
        rep.need(len(sigs[op]) >= 4, "randws: only %d %s variants" % (len(sigs[op]), op))
        ref_name = sorted(sigs[op])[0]
        for name, sig in sorted(sigs[op].items()):
            # each variant: exactly two sites, head and tail, guarded by complementary facts on `ctx & MASK`
            ends_seen = sorted(e for e, fs in sig)
            guards = {e: fs for e, fs in sig}
            ok = ends_seen == ["head", "tail"] and all(len(fs) == 1 for fs in guards.values())
            if ok:
                (k1, t1), = guards["head"]
                (k2, t2), = guards["tail"]
                ok = k1 == k2 and t1 != t2
            same = sig == sigs[op][ref_name]
            rep.ob("R4", "randws %s variant %s selects the end by one context test; agrees with %s" % (op, name, ref_name),
                   ok and same, "guards: %s ; reference: %s" % (sorted((e, sorted(fs)) for e, fs in sig),
                                                               sorted((e, sorted(fs)) for e, fs in sigs[op][ref_name])),
                   loc=file, site="randws/%s/%s" % (op, name))
    # the push test must use a different mask polarity from nothing else: head on mask set
    for op, want_true_end in (("push", "head"), ("pop", "tail")):
        name = sorted(sigs[op])[0]
        guards = {e: fs for e, fs in sigs[op][name]}
        (k, t), = guards[want_true_end] if len(guards.get(want_true_end, ())) == 1 else ((None, None),)
        rep.ob("R4", "randws %s: the flagged context selects the %s" % (op, want_true_end), t is True,
               "guard of %s: %s" % (want_true_end, sorted(guards.get(want_true_end, ()))), loc=file,
               site="randws/%s/polarity" % op)
    rep.min_instances("R4", 26)


# --------------------------------------------------------------------------- R6

def rule_R6(P, rep):
    file = "src/pool/fifo_wait.c"

    def select(F, nid, ctx):
        nd = F.nodes[nid]
        if nd.get("k") == "call":
            fn = nd.get("fn")
            if fn in PUSHERS:
                return "push"
            if fn in POPPERS:
                return "pop"
            if fn in ("pthread_cond_signal", "pthread_cond_broadcast"):
                return "signal"
            if fn == "pthread_mutex_lock":
                return "lock"
            if fn == "pthread_mutex_unlock":
                return "unlock"
            if fn == "pthread_cond_timedwait":
                return "timedwait"
            if fn == "thread_queue_is_empty":
                return "is_empty?"
        return None

    def edge_select(F, bid, key, truth, ctx):
        if ctx.cond_node is not None:
            # canonical label of the test (a temporary holding the answer, `== ABT_TRUE`, `!x` ... are the same)
            label, flip = canon.cond(F, ctx.cond_node)
            m = re.match(r"^thread_queue_is_empty\(&\w+::queue\)( == 1)?$", label)
            if m:
                return "empty" if (bool(ctx.cond_val) != flip) else "nonempty"
        return None

    for name in ("pool_push", "pool_push_many"):
        F = P.fn(name, file)
        ps = paths.enumerate_paths(F, select, edge_select, max_repeat=2)
        rep.need(ps, "%s: no paths" % name)
        for toks, kind, rv, r in ps:
            if kind != "ret" or "push" not in toks:
                continue
            last_push = max(i for i, t in enumerate(toks) if t == "push")
            unlocks = [i for i, t in enumerate(toks) if t == "unlock" and i > last_push]
            sig = [i for i, t in enumerate(toks) if t == "signal" and i > last_push]
            ok = bool(unlocks) and bool(sig) and sig[0] < unlocks[0] and "lock" in toks[:toks.index("push")]
            rep.ob("R6", "%s path %s" % (name, list(toks)), ok,
                   "a push must be followed by pthread_cond_signal/broadcast before the mutex is released",
                   loc="%s:%d" % (F.file, F.line), site="%s/%s" % (name, ",".join(toks)))
    for name in ("pool_pop_wait", "pool_pop_timedwait"):
        F = P.fn(name, file)
        ps = paths.enumerate_paths(F, select, edge_select, max_repeat=2)
        rep.need(any("timedwait" in p[0] for p in ps), "%s: no path with a timed wait" % name)
        for toks, kind, rv, r in ps:
            if kind != "ret":
                continue
            why = []
            if toks.count("lock") != 1 or toks.count("unlock") != 1 or toks.index("lock") > toks.index("unlock"):
                why.append("not exactly one critical section")
            if "pop" not in toks or not (toks.index("lock") < toks.index("pop") < toks.index("unlock")):
                why.append("pop_head outside the critical section")
            if "timedwait" in toks:
                i = toks.index("timedwait")
                if not (toks.index("lock") < i < toks.index("unlock")):
                    why.append("timed wait outside the mutex")
                if "empty" not in toks[:i] or toks.index("empty") < toks.index("lock"):
                    why.append("timed wait without an emptiness test under the mutex")
                else:
                    # the answer that was tested must itself have been obtained under the mutex
                    asked = [j for j, t in enumerate(toks[:toks.index("empty")]) if t == "is_empty?"]
                    if not asked or asked[-1] < toks.index("lock"):
                        why.append("the emptiness answer tested under the mutex was obtained before locking")
                if toks.count("timedwait") > 1:
                    why.append("more than one timed wait (unbounded)")
                if toks.index("pop") < i:
                    why.append("pop before the wait")
            rep.ob("R6", "%s path %s" % (name, list(toks)), not why, "; ".join(why),
                   loc="%s:%d" % (F.file, F.line), site="%s/%s" % (name, ",".join(toks)))
    rep.min_instances("R6", 6)


def rule_R7(P, rep):
    F = P.fn("pool_push_threads_ex", "src/pool/pool.c")
    # stores into a buffer of units: `buf[idx] = unit`
    st = []
    for _b, i, lh, rh in F.stores():
        ln = F.nodes[F.strip(lh)]
        if rh is None or ln.get("k") != "idx":
            continue
        if canon.expr(F, rh).endswith("::unit"):
            st.append((i, ln))
    rep.need(len(st) >= 1, "pool_push_threads_ex: no store of a unit into a buffer")
    pm = [i for _b, i in F.calls("ABTI_pool_push_many")]
    rep.need(len(pm) == 1, "pool_push_threads_ex calls ABTI_pool_push_many %d times" % len(pm))
    call = F.nodes[pm[0]]
    cnt = F.nodes[F.strip(call["a"][2])]
    cntname = cnt.get("n") if cnt.get("k") == "ref" else None
    bufarg = F.base_var(call["a"][1])
    for i, ln in st:
        why = []
        ix = F.nodes[F.strip(ln["i"])]
        ivar = None
        if ix.get("k") == "un" and ix["op"] == "post++":
            ivar = F.nodes[F.strip(ix["e"])].get("n")
        elif ix.get("k") == "ref":
            ivar = ix["n"]
            # `buf[c] = u; c++` : the counter must be advanced right after the store, in the same block
            b = F.block_of(i)
            ev = F.block_events(b)
            nxt = ev[ev.index(i) + 1:ev.index(i) + 2] if i in ev else []
            adv = [j for j in nxt if F.nodes[j].get("k") in ("un", "bin") and F.base_var(F.nodes[j].get("e", F.nodes[j].get("lh"))) == ivar]
            if not adv:
                why.append("the index %s is not advanced together with the store" % ivar)
        else:
            why.append("index %s is not a counter" % F.render(ln["i"]))
        # the unit stored is the one the work unit has after it was associated with this pool
        assoc = [c for _b, c in F.calls("ABTI_thread_set_associated_pool")]
        if assoc and not any(cfg.dominates(F, c, i) for c in assoc):
            why.append("the unit is read before ABTI_thread_set_associated_pool (which may replace it)")
        if ivar != cntname:
            why.append("the buffer is filled with index `%s` but `%s` entries are pushed" % (ivar, F.render(call["a"][2])))
        if F.base_var(ln["b"]) != bufarg:
            why.append("fills %s but pushes %s" % (F.base_var(ln["b"]), bufarg))
        rep.ob("R7", "pool_push_threads_ex compacts the handles with the counter it hands to push_many", not why, "; ".join(why),
               loc=F.loc(i), site="push_threads/compaction")


def rule_R8(P, rep):
    n = 0
    for fn in ("thread_queue_pop_head", "thread_queue_pop_tail", "thread_queue_remove"):
        F = P.fn(fn, "src/pool/thread_queue.h")
        # the unit being unlinked: the value returned (pops) or the ABTI_thread * parameter (remove)
        sel = seq.Sel(fields={"ABTI_thread::p_next", "ABTI_thread::p_prev", "thread_queue_t::num_threads"}, canon=True, locks=False)
        for toks, kind, rv, rtxt in seq.sequences(F, sel, max_len=40):
            if kind != "ret":
                continue
            dec = [t for t in toks if t[0] == "st" and t[1].endswith("::num_threads") and (t[2] in ("--", "-=") or str(t[3]).endswith("- 1"))]
            if not dec:
                continue            # empty queue / last unit (handled by R2) / error return
            links = set()
            for t in toks:
                if t[0] != "st" or not t[1].startswith("ABTI_thread::"):
                    continue
                nd = F.nodes[t[-1]]
                path = canon.rooted(F, nd["lh"])
                if path.endswith("->p_prev->p_next"):
                    links.add("prev->next")
                if path.endswith("->p_next->p_prev"):
                    links.add("next->prev")
            n += 1
            rep.ob("R8", "%s: a unit leaving a queue of several units is unlinked from both neighbours" % fn,
                   links == {"prev->next", "next->prev"}, "only %s rewired (the other neighbour keeps pointing at the unit that left)" %
                   sorted(links), loc="%s:%d" % (F.file, F.line), site="%s/unlink" % fn)
    rep.need(n >= 3, "only %d unlinking paths found" % n)


def rule_R9(P, rep):
    n = 0
    for fn, end in (("thread_queue_push_head", "p_head"), ("thread_queue_push_tail", "p_tail")):
        F = P.fn(fn, "src/pool/thread_queue.h")
        q = [p["n"] for p in F.params if p["t"].replace(" ", "") == "thread_queue_t*"]
        u = [p["n"] for p in F.params if p["t"].replace(" ", "") == "ABTI_thread*"]
        rep.need(len(q) == 1 and len(u) == 1, "%s: parameters %s" % (fn, F.params))
        Q, U = q[0], u[0]
        H, T = "%s->p_head" % Q, "%s->p_tail" % Q
        sel = seq.Sel(fields={"ABTI_thread::p_next", "ABTI_thread::p_prev", "thread_queue_t::num_threads", "thread_queue_t::p_head",
                              "thread_queue_t::p_tail"}, canon=True, locks=False)
        for toks, kind, rv, rtxt in seq.sequences(F, sel, max_len=40):
            if kind != "ret":
                continue
            sts = [t for t in toks if t[0] == "st"]
            cnt = [t for t in sts if t[1].endswith("::num_threads")]
            if not cnt:
                continue
            grow = any(t[2] in ("++", "+=") or str(t[3]).endswith("+ 1") for t in cnt)
            pairs = {}
            order_bad = []
            moved = set()
            for t in sts:
                nd = F.nodes[t[-1]]
                if "lh" not in nd or nd.get("rh") is None:
                    continue
                lhs, rhs = canon.rooted(F, nd["lh"]), canon.rooted(F, nd["rh"])
                if t[1].startswith("thread_queue_t::p_"):
                    pairs[lhs] = rhs
                    moved.add(t[1].split("::")[1])
                    continue
                if not t[1].startswith("ABTI_thread::"):
                    continue
                pairs[lhs] = rhs
                # a link store that re-reads a queue end after that end was already moved to the new unit
                for j in F.descendants(t[-1]):
                    jn = F.nodes[j]
                    if jn.get("k") == "mem" and jn.get("r") == "thread_queue_t" and jn.get("f") in moved:
                        order_bad.append("%s re-read after it was moved" % jn["f"])
            if grow:
                want = {T + "->p_next": U, H + "->p_prev": U, U + "->p_prev": T, U + "->p_next": H, "%s->%s" % (Q, end): U}
            else:
                want = {U + "->p_prev": U, U + "->p_next": U, H: U, T: U}
            other = "p_tail" if end == "p_head" else "p_head"
            extra = grow and ("%s->%s" % (Q, other)) in pairs
            ok = all(pairs.get(k) == v for k, v in want.items()) and not order_bad and not extra
            n += 1
            rep.ob("R9", "%s (%s queue): the new unit is linked with both neighbours in both directions and becomes the %s" %
                   (fn, "non-empty" if grow else "empty", end[2:]), ok,
                   "links written %s, expected %s%s" % (sorted(pairs.items()), sorted(want.items()), "; " + "; ".join(order_bad) if order_bad else ""),
                   loc="%s:%d" % (F.file, F.line), site="%s/link/%s" % (fn, "grow" if grow else "first"))
    rep.need(n >= 4, "only %d insertion paths found" % n)


def rule_R10(P, rep):
    """The public size queries report what their name says: *_get_size counts the queued units, *_get_total_size adds the
    units that are blocked and will come back (num_blocked).  Each public getter reaches the internal helper of the same
    name."""
    n = 0
    for api, file, want in (("ABT_pool_get_size", "src/pool/pool.c", "ABTI_pool_get_size"),
                            ("ABT_pool_get_total_size", "src/pool/pool.c", "ABTI_pool_get_total_size"),
                            ("ABT_sched_get_size", "src/sched/sched.c", "ABTI_pool_get_size"),
                            ("ABT_sched_get_total_size", "src/sched/sched.c", "ABTI_pool_get_total_size")):
        F = P.fn(api, file, flat=True)
        used = sorted(set(F.nodes[i]["fn"] for _b, i in F.calls() if re.match(r"^ABTI_pool_get_(total_)?size$", F.nodes[i].get("fn") or "")))
        n += 1
        rep.ob("R10", "%s is computed with %s" % (api, want), used == [want], "uses %s" % used, loc="%s:%d" % (F.file, F.line),
               site="size-query/%s" % api)
    rep.need(n == 4, "size queries")


def run(P, rep, tier):
    common.rule_X7(P, rep, records=('data',))
    common.rule_widths(P, rep, [('thread_queue_t', 'num_threads')])
    common.rule_X4(P, rep)
    common.run_shared(P, rep)
    rule_R1_R5(P, rep)
    rule_R2(P, rep)
    rule_R3(P, rep)
    rule_R4(P, rep)
    rule_R6(P, rep)
    rule_R7(P, rep)
    rule_R8(P, rep)
    rule_R9(P, rep)
    rule_R10(P, rep)
