"""C17 -- execution-stream ranks and stream lifecycle (structural part)."""
from abtverif import cfg, locks, seq
from abtverif.seq import idx, is_call, show, has_if, held_at
from . import common, C02, C06

EXPLANATION = (
    "Decides that the global stream list (the only source of truth for ranks) is mutated and scanned under "
    "xstream_list_lock (R1); that the duplicate-rank scan and the insertion happen in one critical section, the "
    "duplicate arm releasing the lock, returning FALSE and leaving the list untouched (R2); that the stream count "
    "changes exactly with insertions and removals and a rank change removes and inserts once each (R3); that the "
    "native-thread state machine writes its state only under state_lock (named exception: initialisation before the "
    "thread exists), signals the condition variable in every critical section that makes a state change a peer waits "
    "for, and re-tests the state in a loop around every pthread_cond_wait (R4); that scheduler replacement requests "
    "REPLACE after BLOCKED, and the main scheduler loop installs the new scheduler, frees the old one and resumes the "
    "waiter exactly once before testing the finish condition (R5); and that every loop bounded by an object's "
    "num_pools indexes the pools array of that same object (R6, repository-wide; a scheduler replaced by one with "
    "fewer pools must still find the caller's pool).  'Smallest unused rank' arithmetic and repeated revive "
    "histories are not decided.")
DECLINED = ["'smallest unused rank' (loop arithmetic over the sorted list)", "repeated revive histories"]
ASSUMPTIONS = ["pthread mutex/cond semantics"]
RULES_DOC = dict(common.SHARED_DOC)
RULES_DOC.update({
    "R1": "stream list mutations, rank stores, num_xstreams updates and list scans hold xstream_list_lock",
    "R2": "duplicate scan and insertion in one critical section; duplicate arm: release, return FALSE, list untouched",
    "R3": "num_xstreams++ only with an insertion, -- only with a removal; change_rank removes and inserts once each",
    "R4": "native thread state: stores under state_lock (+ named init exception), cond_signal in each state-changing section, cond_wait inside a state re-test loop",
    "R5": "scheduler replacement: REPLACE after BLOCKED; main loop installs, frees, resumes the waiter once before the finish test",
    "R6": "loops bounded by X->num_pools index X->pools (same object), repository-wide",
})
VARIANTS = ["no_ext_thread", "tool_interface"]
S = "src/stream.c"


def rule_R1_R2_R3(P, rep):
    LOCK = "&p_global->xstream_list_lock"
    listops = {"xstream_add_xstream_list", "xstream_remove_xstream_list"}
    n = 0
    for F in sorted(P.functions.values(), key=lambda f: (f.file, f.line)):
        ops = F.calls(listops)
        cnt = [(b, i) for b, i, lh, rh in F.stores() if F.fieldpath(lh) in ("ABTI_global::num_xstreams",)]
        rk = [(b, i) for b, i, lh, rh in F.stores() if F.fieldpath(lh) == "ABTI_xstream::rank"]
        scans = []
        for i, nd in enumerate(F.nodes):
            if nd and nd.get("k") == "mem" and nd["f"] == "p_xstream_head" and nd.get("r") == "ABTI_global":
                scans.append(i)
        if F.name in listops or not (ops or cnt or rk or scans):
            continue
        ts = locks.run_locks(P, F)
        pm = F.parent_map()
        for kind, sites in (("list mutation", [i for b, i in ops]), ("num_xstreams update", [i for b, i in cnt]),
                            ("rank store", [i for b, i in rk]), ("list scan", scans)):
            for i in sites:
                j = i
                while j is not None and j not in ts.at:
                    j = pm.get(j)
                if j is None:
                    continue
                helds = ts.at[j]
                ok = bool(helds) and all(any("xstream_list_lock" in k for k in h) for h in helds)
                exc = None
                if not ok and kind == "rank store" and F.name in ("xstream_create",):
                    exc = "field initialisation before the stream is inserted"
                if not ok and F.name == "init_library":
                    exc = "library initialisation: no other thread can exist yet"
                if not ok and F.name == "print_all_thread_stacks" and kind == "list scan":
                    exc = "read-only diagnostic dump that runs while every stream is parked at the dump barrier"
                n += 1
                rep.ob("R1", "%s: %s under xstream_list_lock%s" % (F.name, kind, " (exception: %s)" % exc if exc else ""),
                       ok or exc is not None, "lock sets %s" % sorted(sorted(h) for h in helds), loc=F.loc(i),
                       site="%s/%s" % (F.name, kind))
        unb = [(k, nid, h) for k, nid, h, rv in ts.exits if k == "ret" and any("xstream_list_lock" in x for x in h)]
        rep.ob("R1", "%s releases xstream_list_lock on every exit" % F.name, not unb and not ts.errors,
               str([(F.loc(nn) if nn is not None else "", sorted(h)) for k, nn, h in unb]) + str(ts.errors), loc=F.file,
               site="%s/balance" % F.name)
    rep.need(n >= 8, "only %d stream-list accesses found" % n)
    # the list helpers themselves are only called from the locked sites above (static functions)
    L = "ABTI_global::xstream_list_lock"
    for fn in ("xstream_set_new_rank", "xstream_change_rank", "xstream_return_rank"):
        F = P.fn(fn, S)
        sel = seq.Sel(calls=listops | {"xstream_update_max_xstreams"}, fields={"num_xstreams", "rank"},
                      conds=lambda t: "rank" in t, rets=True)
        kinds = set()
        for toks, kind, rv, rtxt in seq.sequences(F, sel, max_repeat=2, max_len=60):
            if kind != "ret":
                continue
            adds = idx(toks, is_call("xstream_add_xstream_list"))
            rems = idx(toks, is_call("xstream_remove_xstream_list"))
            incs = [t for t in toks if t[0] == "st" and t[1] == "ABTI_global::num_xstreams" and t[2] == "++"]
            decs = [t for t in toks if t[0] == "st" and t[1] == "ABTI_global::num_xstreams" and t[2] == "--"]
            why2, why3 = [], []
            if rv == 0 and fn != "xstream_return_rank":
                kinds.add("refused")
                if adds or rems or incs or decs or [t for t in toks if t[0] == "st"]:
                    why2.append("a refused request mutates the list, the count or the rank")
            else:
                kinds.add("granted")
                acq = [i for i, t in enumerate(toks) if t[0] == "acq" and t[1] == L]
                if adds and acq:
                    # the last duplicate test and the insertion lie in the same critical section
                    if any(t[0] == "rel" and t[1] == L for t in toks[acq[-1]:adds[0]]):
                        why2.append("lock released between the duplicate scan and the insertion")
                    if len(acq) != 1:
                        why2.append("more than one critical section")
            if fn == "xstream_set_new_rank" and rv != 0:
                if len(adds) != 1 or rems or len(incs) != 1 or decs:
                    why3.append("a new stream must be inserted once and counted once (add %d rem %d ++%d --%d)" %
                                (len(adds), len(rems), len(incs), len(decs)))
            if fn == "xstream_change_rank" and rv != 0 and (adds or rems):
                if len(adds) != 1 or len(rems) != 1 or incs or decs or not rems[0] < adds[0]:
                    why3.append("a rank change must remove and re-insert exactly once without touching the count")
                st = [i for i, t in enumerate(toks) if t[0] == "st" and t[1] == "ABTI_xstream::rank"]
                if len(st) != 1 or not (rems[0] < st[0] < adds[0]):
                    why3.append("the rank must be changed between removal and re-insertion")
            if fn == "xstream_return_rank":
                if len(rems) != 1 or adds or len(decs) != 1 or incs:
                    why3.append("returning a rank must remove once and un-count once")
            rep.ob("R2", "%s %s path [%s]" % (fn, "refused" if (rv == 0 and fn != "xstream_return_rank") else "granted", show(toks)[-200:]),
                   not why2, "; ".join(why2), loc="%s:%d" % (F.file, F.line), site="%s/R2/%s/%d%d" % (fn, rv, len(adds), len(rems)))
            rep.ob("R3", "%s path: insertions %d removals %d count ++%d --%d" % (fn, len(adds), len(rems), len(incs), len(decs)),
                   not why3, "; ".join(why3), loc="%s:%d" % (F.file, F.line), site="%s/R3/%s/%d%d" % (fn, rv, len(adds), len(rems)))
        if fn != "xstream_return_rank":
            rep.ob("R2", "%s can refuse and can grant" % fn, kinds == {"refused", "granted"}, str(kinds), loc=F.file, site="%s/kinds" % fn)
    G = P.fn("ABT_xstream_get_num", S)
    st = [G.render(rh) for b, i, lh, rh in G.stores() if rh is not None and G.render(lh) == "*num_xstreams"]
    rep.ob("R3", "ABT_xstream_get_num reports the maintained count", st == ["p_global->num_xstreams"], str(st), loc=G.file, site="get_num")


def rule_R4(P, rep):
    A = "src/arch/abtd_stream.c"
    for F in sorted(P.functions.values(), key=lambda f: f.line):
        if F.file != A:
            continue
        stores = [(b, i) for b, i, lh, rh in F.stores() if F.fieldpath(lh) == "ABTD_xstream_context::state"]
        waits = F.calls("pthread_cond_wait")
        if not stores and not waits:
            continue
        ts = locks.run_locks(P, F)
        for b, i in stores:
            helds = ts.at.get(i, set())
            ok = bool(helds) and all(any("state_lock" in k for k in h) for h in helds)
            exc = F.name == "ABTD_xstream_context_create"
            rep.ob("R4", "%s stores the native-thread state under state_lock%s" % (F.name, " (exception: no thread exists yet / creation failed)" if exc else ""),
                   ok or exc, "lock sets %s" % sorted(sorted(h) for h in helds), loc=F.loc(i), site="%s/store/%s" % (F.name, F.render(i)[:50]))
        for b, i in waits:
            helds = ts.at.get(i, set())
            ok = bool(helds) and all(any("state_lock" in k for k in h) for h in helds)
            # the wait lies on a cycle whose exit condition re-reads the state
            loop = cfg.can_reach(F, i, i)
            conds = [F.render(bb.tc) for bb in F.blocks.values() if bb.tc is not None and "->state" in F.render(bb.tc) and
                     bb.elems and cfg.can_reach(F, i, bb.elems[-1]) and cfg.can_reach(F, bb.elems[-1], i)]
            rep.ob("R4", "%s: pthread_cond_wait under state_lock inside a loop that re-tests the state" % F.name,
                   ok and loop and bool(conds), "under lock=%s in loop=%s re-test=%s" % (ok, loop, conds), loc=F.loc(i),
                   site="%s/wait/%d" % (F.name, len(conds)))
        # each critical section that stores a state a peer waits for signals the condition
        sel = seq.Sel(calls={"pthread_cond_signal", "pthread_cond_broadcast", "pthread_cond_wait"}, fields={"state"},
                      conds=lambda t: "->state" in t)
        if F.name in ("ABTD_xstream_context_free", "ABTD_xstream_context_revive", "xstream_context_thread_func"):
            done = set()
            for toks, kind, rv, rtxt in seq.sequences(F, sel, max_repeat=1, max_len=60):
                sec = []
                for t in toks:
                    if t[0] == "acq":
                        sec = []
                    sec.append(t)
                    if t[0] == "rel":
                        st = [u for u in sec if u[0] == "st" and u[1] == "ABTD_xstream_context::state"]
                        sig = [u for u in sec if u[0] == "call" and u[1] in ("pthread_cond_signal", "pthread_cond_broadcast")]
                        for u in st:
                            key = (F.name, u[3])
                            if key in done:
                                continue
                            done.add(key)
                            need = True
                            if F.name == "xstream_context_thread_func":
                                # WAITING is awaited only by a joiner that announced itself (REQ_JOIN)
                                need = any(v[0] == "if" and "== ABTD_XSTREAM_CONTEXT_STATE_REQ_JOIN" in v[1] and v[2] for v in sec)
                                if not need:
                                    continue
                            rep.ob("R4", "%s: the section storing state=%s signals the condition variable" % (F.name, u[3]), bool(sig),
                                   "no pthread_cond_signal in the critical section [%s]" % show(sec), loc=F.file,
                                   site="%s/signal/%s" % (F.name, u[3]))
                        sec = []
        unb = [(k, nid, h) for k, nid, h, rv in ts.exits if k == "ret" and h]
        rep.ob("R4", "%s releases state_lock on every exit" % F.name, not unb and not ts.errors, str(unb) + str(ts.errors), loc=F.file,
               site="%s/balance" % F.name)
    rep.min_instances("R4", 10)


def rule_R5(P, rep):
    sub = type(rep)(rep.prop, rep.tier, rep.variant)
    C02.rule_R3(P, sub)
    for o in sub.obligations:
        if "replace_sched" in o["instance"]:
            rep.ob("R5", o["instance"], o["ok"], o["detail"], o["loc"], site="R5/" + o["instance"][:120])
    F = P.fn("thread_main_sched_func", "src/thread.c")

    def conds(text, F, node):
        ms = seq.macros_in(F, node)
        if "ABTI_SCHED_REQ_REPLACE" in ms:
            return "REPLACE"
        if "ABTI_THREAD_REQ_CANCEL" in ms:
            return "CANCEL"
        if "ABTI_SCHED_REQ_FINISH" in ms:
            return "FINISH"
        return False
    sel = seq.Sel(calls={"ABTI_sched_discard_and_free", "ABTI_ythread_resume_and_push", "ABTI_sched_has_unit"}, fields={"p_main_sched", "used", "p_ythread"},
                  conds=conds, indirect=True)
    n = 0
    for toks, kind, rv, rtxt in seq.sequences(F, sel, max_repeat=1, max_len=60):
        rp = [i for i, t in enumerate(toks) if t[0] == "if" and t[1] == "REPLACE"]
        if not rp or not toks[rp[0]][2]:
            continue
        n += 1
        why = []
        inst = [i for i, t in enumerate(toks) if t[0] == "st" and t[1] == "ABTI_xstream::p_main_sched"]
        fr = idx(toks, is_call("ABTI_sched_discard_and_free"))
        rs = idx(toks, is_call("ABTI_ythread_resume_and_push"))
        fin = [i for i, t in enumerate(toks) if t[0] == "if" and t[1] in ("CANCEL", "FINISH") and i > rp[0]]
        if len(inst) != 1 or toks[inst[0]][3] != "p_new_sched":
            why.append("new scheduler not installed exactly once")
        if len(fr) != 1 or len(rs) != 1:
            why.append("old scheduler must be freed once and the waiter resumed once (freed %d, resumed %d)" % (len(fr), len(rs)))
        elif not (inst and inst[0] < fr[0] < rs[0]):
            why.append("order must be install < free old < resume waiter")
        if fin and rs and fin[0] < rs[0]:
            why.append("finish condition tested before the waiter was resumed")
        yt = [t for t in toks if t[0] == "st" and t[1] == "ABTI_sched::p_ythread"]
        if not any(t[3] == "p_sched->p_ythread" for t in yt) or not any(t[3] == 0 for t in yt):
            why.append("the scheduler ULT must be handed to the new scheduler and detached from the old one before it is freed")
        rep.ob("R5", "main scheduler loop handles REQ_REPLACE [%s]" % show(toks)[:200], not why, "; ".join(why),
               loc="%s:%d" % (F.file, F.line), site="main_sched/replace")
    rep.need(n >= 1, "thread_main_sched_func never handles REQ_REPLACE")


def rule_R6(P, rep):
    n = 0
    for F in sorted(P.functions.values(), key=lambda f: (f.file, f.line)):
        dom = None
        for bid, B in F.blocks.items():
            if B.tc is None or len(B.succs) != 2 or B.succs[0] is None:
                continue
            c = F.nodes[cfg.cond_atom(F, B.tc)[0]]
            if c.get("k") != "bin" or c["op"] not in ("<", "!="):
                continue
            rh = F.nodes[F.strip(c["rh"])]
            lh = F.nodes[F.strip(c["lh"])]
            if rh.get("k") != "mem" or rh["f"] != "num_pools" or lh.get("k") != "ref":
                continue
            ivar = lh["n"]
            owner = F.render(rh["b"])
            if dom is None:
                dom = cfg.dominators(F)
            body = {b for b in cfg.reachable_blocks(F, B.succs[0]) if B.succs[0] in dom.get(b, ()) and bid in cfg.reachable_blocks(F, b)}
            for b in body:
                for i in F.blocks[b].elems:
                    nd = F.nodes[i]
                    if nd.get("k") == "idx" and F.render(nd["i"]) == ivar:
                        bn = F.nodes[F.strip(nd["b"])]
                        if bn.get("k") == "mem" and bn["f"] == "pools":
                            n += 1
                            arr_owner = F.render(bn["b"])
                            rep.ob("R6", "%s: loop over %s->num_pools indexes %s->pools" % (F.name, owner, arr_owner),
                                   arr_owner == owner, "the bound belongs to %s but the array to %s: the scan is truncated or runs "
                                   "out of bounds when the two objects have different pool counts" % (owner, arr_owner),
                                   loc=F.loc(i), site="%s/pools-loop/%s" % (F.name, arr_owner))
    rep.need(n >= 8, "only %d num_pools-bounded array accesses found" % n)


def run(P, rep, tier):
    common.run_shared(P, rep, which=("X2",))
    rule_R1_R2_R3(P, rep)
    rule_R4(P, rep)
    rule_R5(P, rep)
    rule_R6(P, rep)
