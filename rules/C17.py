"""C17 -- execution-stream ranks and stream lifecycle (structural part)."""
import re

from abtverif import canon, cfg, locks, seq, tables
from abtverif.seq import idx, is_call, show
from . import common, C02, C06

EXPLANATION = (
    "Decides that the global stream list (the only source of truth for ranks) is mutated and scanned under "
    "xstream_list_lock (R1); that the duplicate-rank scan and the insertion happen in one critical section, the "
    "duplicate arm releasing the lock, returning FALSE and leaving the list untouched (R2); that the stream count "
    "changes exactly with insertions and removals and a rank change removes and inserts once each (R3); that the "
    "native-thread state machine writes its state only under state_lock (named exception: initialisation before the "
    "thread exists), signals the condition variable in every critical section that makes a state change a peer waits "
    "for, and re-tests the state in a loop around every pthread_cond_wait (R4); that scheduler replacement requests "
    "REPLACE after BLOCKED, and the main scheduler loop installs the new scheduler, frees the old one and resumes the "
    "waiter exactly once before testing the finish condition (R5); and that every loop bounded by an object's "
    "num_pools indexes the pools array of that same object (R6, repository-wide; a scheduler replaced by one with "
    "fewer pools must still find the caller's pool).  'Smallest unused rank' arithmetic and repeated revive "
    "histories are not decided.")
DECLINED = ["'smallest unused rank' (loop arithmetic over the sorted list)", "repeated revive histories"]
ASSUMPTIONS = ["pthread mutex/cond semantics"]
RULES_DOC = dict(common.SHARED_DOC)
RULES_DOC["X9"] = common.X9_DOC
RULES_DOC["X8"] = common.X8_DOC
RULES_DOC["X7"] = common.X7_DOC
RULES_DOC["X4"] = common.X4_DOC
RULES_DOC["R7"] = "a scheduler is marked used = ABTI_SCHED_MAIN before it is installed as a stream's main scheduler (every store of a scheduler into ABTI_xstream::p_main_sched is preceded on its path by that store on the same scheduler): a running main scheduler cannot be given to a second stream or freed"
RULES_DOC["X5"] = common.X5_DOC
RULES_DOC["R8"] = "rank list insertion: on every path of xstream_add_xstream_list the inserted stream's forward link is assigned, and its backward link is assigned unless it becomes the head (a stream re-inserted by ABT_xstream_set_rank carries no stale link: no cycle, no walk into freed memory)"
RULES_DOC["R9"] = "= C06.R1/R3/R4: the callback that suspends a ULT for a main-scheduler replacement counts it on the pool it belongs to after request handling (a stream whose pool count is off by one can never be joined, its rank is never returned)"
RULES_DOC["R12"] = "= C12.R4: reviving a stream (its main-scheduler ULT) clears the whole request word: a cancel / exit request left from the previous life does not terminate the revived stream at its first event check"
RULES_DOC["R13"] = "reviving a stream clears the whole request word of its main scheduler: on every path of ABT_xstream_revive that reaches ABTI_thread_revive, ABTI_sched::request was stored 0 (or and-ed with a mask that keeps neither FINISH nor EXIT nor REPLACE); a bit left from ABT_sched_exit / ABT_sched_finish in the previous life would stop the revived scheduler at its first stop test, and a second join never returns"
RULES_DOC["R11"] = "user-supplied ranks are non-negative: ABT_xstream_set_rank and ABT_xstream_create_with_rank reach the list update only when the governing argument tests admit 0, 1, ... and reject -1 (the internal any-rank value) and below"
RULES_DOC["R10"] = "the thread-local 'current stream' pointer is cleared wherever the stream it names is given up: after ABT_finalize freed the primary stream, and when a stream's OS thread leaves its root loop (an OS thread that once was a stream must be an external thread afterwards)"
RULES_DOC.update({
    "R1": "stream list mutations, rank stores, num_xstreams updates and list scans hold xstream_list_lock",
    "R2": "duplicate scan and insertion in one critical section; duplicate arm: release, return FALSE, list untouched",
    "R3": "num_xstreams++ only with an insertion, -- only with a removal; change_rank removes and inserts once each",
    "R4": "native thread state: stores under state_lock (+ named init exception), cond_signal in each state-changing section, cond_wait inside a state re-test loop",
    "R5": "scheduler replacement: REPLACE after BLOCKED; main loop installs, frees, resumes the waiter once before the finish test",
    "R6": "loops bounded by X->num_pools index X->pools (same object), repository-wide",
})
VARIANTS = ["no_ext_thread", "tool_interface"]
S = "src/stream.c"


# ---- local engine helpers (name-independent identities) -------------------------------------

class _RootedLockTS(locks.LockTS):
    """locks.LockTS whose lock identity does not depend on how the function names its locals: the key
    is the access path of the lock argument rooted at a parameter or at the expression a local pointer
    was loaded from (canon.rooted), so `ABTD_spinlock *p_lock = &p_global->xstream_list_lock;
    acquire(p_lock)` and `acquire(&p_global->xstream_list_lock)` denote the same lock.  The field name
    (the repository's vocabulary) is always the last component."""

    def event(self, F, nid, st, ctx):
        nd = F.nodes[nid]
        fn = nd.get("fn") if nd.get("k") == "call" else None
        tabs = (tables.LOCK_ACQUIRE, tables.LOCK_RELEASE, tables.LOCK_RELEASE_TRANSFER, tables.LOCK_COND_ACQUIRE)
        tab = next((t for t in tabs if fn in t), None)
        if tab is None:
            return locks.LockTS.event(self, F, nid, st, ctx)
        held, asm = st
        self.at.setdefault(nid, set()).add(held)
        key = canon.rooted(F, nd["a"][tab[fn]])
        if tab is tables.LOCK_ACQUIRE:
            if key in held:
                self.errors.append((nid, "lock %s acquired while already held" % key))
            return (held | {key}, asm)
        if tab is tables.LOCK_RELEASE:
            if key not in held:
                self.errors.append((nid, "lock %s released while not held" % key))
            return (held - {key}, asm)
        if tab is tables.LOCK_RELEASE_TRANSFER:
            if key not in held:
                self.errors.append((nid, "%s called without holding %s" % (fn, key)))
            return (held - {key}, asm)
        var = self._result_var(F, nid)
        asm2 = frozenset(a for a in asm if a[0] != nid)
        return {(held | {key}, asm2 | {(nid, True, var)}), (held - {key}, asm2 | {(nid, False, var)})}


def _run_locks(P, F):
    ts = _RootedLockTS(P)
    cfg.simulate(F, ts)
    return ts


def _is_lock(key, field):
    """Does the rooted lock key denote `<object>->field` / `<object>.field`?"""
    return re.search(r"(->|\.)%s$" % re.escape(field), key) is not None


def _look(F, i, depth=3):
    """(node, position) of expression i after looking through local temporaries that have exactly one
    reaching definition (`n = p->num_pools; ... i < n` gives the member access)."""
    at = i
    i = F.strip(i)
    while depth > 0:
        nd = F.nodes[i]
        if nd.get("k") != "ref" or nd.get("dk") != "var":
            break
        d = canon.reaching_def(F, nd["n"], at)
        if not isinstance(d, int) or F.nodes[F.strip(d)].get("k") in ("ilist", "zero"):
            break
        at = d
        i = F.strip(d)
        depth -= 1
    return i, at


def _word(name):
    return re.compile(r"(?<![A-Za-z0-9_:>.])%s(?![A-Za-z0-9_])" % re.escape(name))


def _macros_through(F, node, depth=2):
    """Macros whose expansion produced the condition `node`, also when part of the test was first
    stored in a local (`int replace = req & ABTI_SCHED_REQ_REPLACE; if (replace)`)."""
    ms = set(seq.macros_in(F, node))
    if depth > 0:
        for d in F.descendants(node):
            nd = F.nodes[d]
            if nd.get("k") == "ref" and nd.get("dk") == "var":
                r = canon.reaching_def(F, nd["n"], d)
                if isinstance(r, int):
                    ms |= _macros_through(F, r, depth - 1)
    return ms


def rule_R1_R2_R3(P, rep):
    listops = {"xstream_add_xstream_list", "xstream_remove_xstream_list"}
    n = 0
    for F in sorted(P.functions.values(), key=lambda f: (f.file, f.line)):
        ops = F.calls(listops)
        cnt = [(b, i) for b, i, lh, rh in F.stores() if F.fieldpath(lh) in ("ABTI_global::num_xstreams",)]
        rk = [(b, i) for b, i, lh, rh in F.stores() if F.fieldpath(lh) == "ABTI_xstream::rank"]
        scans = []
        for i, nd in enumerate(F.nodes):
            if nd and nd.get("k") == "mem" and nd["f"] == "p_xstream_head" and nd.get("r") == "ABTI_global":
                scans.append(i)
        if F.name in listops or not (ops or cnt or rk or scans):
            continue
        ts = _run_locks(P, F)
        pm = F.parent_map()
        for kind, sites in (("list mutation", [i for b, i in ops]), ("num_xstreams update", [i for b, i in cnt]),
                            ("rank store", [i for b, i in rk]), ("list scan", scans)):
            for i in sites:
                j = i
                while j is not None and j not in ts.at:
                    j = pm.get(j)
                if j is None:
                    continue
                helds = ts.at[j]
                ok = bool(helds) and all(any(_is_lock(k, "xstream_list_lock") for k in h) for h in helds)
                exc = None
                if not ok and kind == "rank store" and F.name in ("xstream_create",):
                    exc = "field initialisation before the stream is inserted"
                if not ok and F.name == "init_library":
                    exc = "library initialisation: no other thread can exist yet"
                if not ok and F.name == "print_all_thread_stacks" and kind == "list scan":
                    exc = "read-only diagnostic dump that runs while every stream is parked at the dump barrier"
                n += 1
                rep.ob("R1", "%s: %s under xstream_list_lock%s" % (F.name, kind, " (exception: %s)" % exc if exc else ""),
                       ok or exc is not None, "lock sets %s" % sorted(sorted(h) for h in helds), loc=F.loc(i),
                       site="%s/%s" % (F.name, kind))
        unb = [(k, nid, h) for k, nid, h, rv in ts.exits if k == "ret" and any(_is_lock(x, "xstream_list_lock") for x in h)]
        rep.ob("R1", "%s releases xstream_list_lock on every exit" % F.name, not unb and not ts.errors,
               str([(F.loc(nn) if nn is not None else "", sorted(h)) for k, nn, h in unb]) + str(ts.errors), loc=F.file,
               site="%s/balance" % F.name)
    rep.need(n >= 8, "only %d stream-list accesses found" % n)
    # the list helpers themselves are only called from the locked sites above (static functions)
    L = "ABTI_global::xstream_list_lock"
    for fn in ("xstream_set_new_rank", "xstream_change_rank", "xstream_return_rank"):
        F = P.fn(fn, S)
        # tests of a stream's rank or of the requested rank (third parameter, whatever it is called); the
        # tokens only tell the paths apart, the obligations below do not read them
        want = _word(F.params[2]["n"]) if len(F.params) > 2 else None
        sel = seq.Sel(calls=listops | {"xstream_update_max_xstreams"}, fields={"num_xstreams", "rank"},
                      conds=lambda t, want=want: "ABTI_xstream::rank" in t or (want is not None and want.search(t) is not None),
                      rets=True, canon=True)
        kinds = set()
        for toks, kind, rv, rtxt in seq.sequences(F, sel, max_repeat=2, max_len=60):
            if kind != "ret":
                continue
            adds = idx(toks, is_call("xstream_add_xstream_list"))
            rems = idx(toks, is_call("xstream_remove_xstream_list"))
            incs = [t for t in toks if t[0] == "st" and t[1] == "ABTI_global::num_xstreams" and t[2] == "++"]
            decs = [t for t in toks if t[0] == "st" and t[1] == "ABTI_global::num_xstreams" and t[2] == "--"]
            why2, why3 = [], []
            if rv == 0 and fn != "xstream_return_rank":
                kinds.add("refused")
                if adds or rems or incs or decs or [t for t in toks if t[0] == "st"]:
                    why2.append("a refused request mutates the list, the count or the rank")
            else:
                kinds.add("granted")
                acq = [i for i, t in enumerate(toks) if t[0] == "acq" and t[1] == L]
                if adds and acq:
                    # the last duplicate test and the insertion lie in the same critical section
                    if any(t[0] == "rel" and t[1] == L for t in toks[acq[-1]:adds[0]]):
                        why2.append("lock released between the duplicate scan and the insertion")
                    if len(acq) != 1:
                        why2.append("more than one critical section")
            if fn == "xstream_set_new_rank" and rv != 0:
                if len(adds) != 1 or rems or len(incs) != 1 or decs:
                    why3.append("a new stream must be inserted once and counted once (add %d rem %d ++%d --%d)" %
                                (len(adds), len(rems), len(incs), len(decs)))
            if fn == "xstream_change_rank" and rv != 0 and (adds or rems):
                if len(adds) != 1 or len(rems) != 1 or incs or decs or not rems[0] < adds[0]:
                    why3.append("a rank change must remove and re-insert exactly once without touching the count")
                st = [i for i, t in enumerate(toks) if t[0] == "st" and t[1] == "ABTI_xstream::rank"]
                if len(st) != 1 or not (rems[0] < st[0] < adds[0]):
                    why3.append("the rank must be changed between removal and re-insertion")
            if fn == "xstream_return_rank":
                if len(rems) != 1 or adds or len(decs) != 1 or incs:
                    why3.append("returning a rank must remove once and un-count once")
            rep.ob("R2", "%s %s path [%s]" % (fn, "refused" if (rv == 0 and fn != "xstream_return_rank") else "granted", show(toks)[-200:]),
                   not why2, "; ".join(why2), loc="%s:%d" % (F.file, F.line), site="%s/R2/%s/%d%d" % (fn, rv, len(adds), len(rems)))
            rep.ob("R3", "%s path: insertions %d removals %d count ++%d --%d" % (fn, len(adds), len(rems), len(incs), len(decs)),
                   not why3, "; ".join(why3), loc="%s:%d" % (F.file, F.line), site="%s/R3/%s/%d%d" % (fn, rv, len(adds), len(rems)))
        if fn != "xstream_return_rank":
            rep.ob("R2", "%s can refuse and can grant" % fn, kinds == {"refused", "granted"}, str(kinds), loc=F.file, site="%s/kinds" % fn)
    G = P.fn("ABT_xstream_get_num", S)
    rep.need(len(G.params) == 1, "ABT_xstream_get_num no longer has exactly one (out) parameter")
    out = G.params[0]["n"]
    st = []
    for b, i, lh, rh in G.stores():
        ln = G.nodes[G.strip(lh)]
        if rh is not None and ln.get("k") == "un" and ln["op"] == "*" and G.nodes[_look(G, ln["e"])[0]].get("n") == out:
            st.append(canon.expr(G, rh))
    rep.ob("R3", "ABT_xstream_get_num reports the maintained count", st == ["ABTI_global::num_xstreams"], str(st), loc=G.file, site="get_num")


STATE = "ABTD_xstream_context::state"


def rule_R4(P, rep):
    A = "src/arch/abtd_stream.c"
    for F in sorted(P.functions.values(), key=lambda f: f.line):
        if F.file != A:
            continue
        stores = [(b, i) for b, i, lh, rh in F.stores() if F.fieldpath(lh) == STATE]
        waits = F.calls("pthread_cond_wait")
        if not stores and not waits:
            continue
        ts = _run_locks(P, F)
        for b, i in stores:
            helds = ts.at.get(i, set())
            ok = bool(helds) and all(any(_is_lock(k, "state_lock") for k in h) for h in helds)
            exc = F.name == "ABTD_xstream_context_create"
            nd = F.nodes[i]
            what = "%s %s %s" % (STATE, nd.get("op", ""), canon.expr(F, nd["rh"]) if nd.get("k") == "bin" else "")
            rep.ob("R4", "%s stores the native-thread state under state_lock%s" % (F.name, " (exception: no thread exists yet / creation failed)" if exc else ""),
                   ok or exc, "lock sets %s" % sorted(sorted(h) for h in helds), loc=F.loc(i), site="%s/store/%s" % (F.name, what[:80]))
        for b, i in waits:
            helds = ts.at.get(i, set())
            ok = bool(helds) and all(any(_is_lock(k, "state_lock") for k in h) for h in helds)
            # the wait lies on a cycle whose exit condition re-reads the state (canonical label: the test may be
            # written either way round, negated, or on a temporary that was loaded from the field inside the loop)
            loop = cfg.can_reach(F, i, i)
            conds = []
            for bb in F.blocks.values():
                if bb.tc is None or not bb.elems:
                    continue
                lab = canon.cond(F, cfg.cond_atom(F, bb.tc)[0])[0]
                if STATE in lab and cfg.can_reach(F, i, bb.elems[-1]) and cfg.can_reach(F, bb.elems[-1], i):
                    conds.append(lab)
            rep.ob("R4", "%s: pthread_cond_wait under state_lock inside a loop that re-tests the state" % F.name,
                   ok and loop and bool(conds), "under lock=%s in loop=%s re-test=%s" % (ok, loop, conds), loc=F.loc(i),
                   site="%s/wait/%d" % (F.name, len(conds)))
        # each critical section that stores a state a peer waits for signals the condition
        sel = seq.Sel(calls={"pthread_cond_signal", "pthread_cond_broadcast", "pthread_cond_wait"}, fields={"state"},
                      conds=lambda t: STATE in t, canon=True)
        if F.name in ("ABTD_xstream_context_free", "ABTD_xstream_context_revive", "xstream_context_thread_func"):
            done = set()
            for toks, kind, rv, rtxt in seq.sequences(F, sel, max_repeat=1, max_len=60):
                sec = []
                for t in toks:
                    if t[0] == "acq":
                        sec = []
                    sec.append(t)
                    if t[0] == "rel":
                        st = [u for u in sec if u[0] == "st" and u[1] == STATE]
                        sig = [u for u in sec if u[0] == "call" and u[1] in ("pthread_cond_signal", "pthread_cond_broadcast")]
                        for u in st:
                            key = (F.name, u[3])
                            if key in done:
                                continue
                            if F.name == "xstream_context_thread_func":
                                # WAITING is awaited only by a joiner that announced itself (REQ_JOIN): the obligation
                                # is evaluated on the paths of the section on which that request was seen
                                if not any(v[0] == "if" and v[1] == STATE + " == ABTD_XSTREAM_CONTEXT_STATE_REQ_JOIN" and v[2]
                                           for v in sec[:sec.index(u)]):
                                    continue
                            done.add(key)
                            rep.ob("R4", "%s: the section storing state=%s signals the condition variable" % (F.name, u[3]), bool(sig),
                                   "no pthread_cond_signal in the critical section [%s]" % show(sec), loc=F.file,
                                   site="%s/signal/%s" % (F.name, u[3]))
                        sec = []
        unb = [(k, nid, h) for k, nid, h, rv in ts.exits if k == "ret" and h]
        rep.ob("R4", "%s releases state_lock on every exit" % F.name, not unb and not ts.errors, str(unb) + str(ts.errors), loc=F.file,
               site="%s/balance" % F.name)
    rep.min_instances("R4", 10)


def rule_R5(P, rep):
    sub = type(rep)(rep.prop, rep.tier, rep.variant)
    C02.rule_R3(P, sub)
    for o in sub.obligations:
        if "replace_sched" in o["instance"]:
            rep.ob("R5", o["instance"], o["ok"], o["detail"], o["loc"], site="R5/" + o["instance"][:120])
    F = P.fn("thread_main_sched_func", "src/thread.c")

    def conds(text, F, node):
        ms = _macros_through(F, node)
        if "ABTI_SCHED_REQ_REPLACE" in ms:
            return "REPLACE"
        if "ABTI_THREAD_REQ_CANCEL" in ms:
            return "CANCEL"
        if "ABTI_SCHED_REQ_FINISH" in ms:
            return "FINISH"
        return False
    # canon: the REPLACE/CANCEL/FINISH labels carry the truth of "the request bit is set" however the test is
    # written; stored values are rendered without local names (`p_new_sched` is ABTI_sched::p_replace_sched)
    sel = seq.Sel(calls={"ABTI_sched_discard_and_free", "ABTI_ythread_resume_and_push", "ABTI_sched_has_unit"}, fields={"p_main_sched", "used", "p_ythread"},
                  conds=conds, indirect=True, canon=True)

    def obj(tok, side):
        """Object-preserving access path of the target / the value of a recorded store."""
        return canon.rooted(F, F.nodes[tok[4]][side])
    n = 0
    for toks, kind, rv, rtxt in seq.sequences(F, sel, max_repeat=1, max_len=60):
        rp = [i for i, t in enumerate(toks) if t[0] == "if" and t[1] == "REPLACE"]
        if not rp or not toks[rp[0]][2]:
            continue
        n += 1
        why = []
        inst = [i for i, t in enumerate(toks) if t[0] == "st" and t[1] == "ABTI_xstream::p_main_sched"]
        fr = idx(toks, is_call("ABTI_sched_discard_and_free"))
        rs = idx(toks, is_call("ABTI_ythread_resume_and_push"))
        fin = [i for i, t in enumerate(toks) if t[0] == "if" and t[1] in ("CANCEL", "FINISH") and i > rp[0]]
        if len(inst) != 1 or toks[inst[0]][3] != "ABTI_sched::p_replace_sched":
            why.append("new scheduler not installed exactly once")
        if len(fr) != 1 or len(rs) != 1:
            why.append("old scheduler must be freed once and the waiter resumed once (freed %d, resumed %d)" % (len(fr), len(rs)))
        elif not (inst and inst[0] < fr[0] < rs[0]):
            why.append("order must be install < free old < resume waiter")
        if fin and rs and fin[0] < rs[0]:
            why.append("finish condition tested before the waiter was resumed")
        yt = [t for t in toks if t[0] == "st" and t[1] == "ABTI_sched::p_ythread"]
        # hand-over: <replacement scheduler>->p_ythread = <other scheduler>->p_ythread; detach: <that other one>->p_ythread = NULL
        handed = [t for t in yt if t[3] == "ABTI_sched::p_ythread" and "p_replace_sched" in obj(t, "lh") and
                  "p_replace_sched" not in obj(t, "rh")]
        detached = [t for t in yt if t[3] == 0 and "p_replace_sched" not in obj(t, "lh")]
        if not handed or not detached:
            why.append("the scheduler ULT must be handed to the new scheduler and detached from the old one before it is freed")
        rep.ob("R5", "main scheduler loop handles REQ_REPLACE [%s]" % show(toks)[:200], not why, "; ".join(why),
               loc="%s:%d" % (F.file, F.line), site="main_sched/replace")
    rep.need(n >= 1, "thread_main_sched_func never handles REQ_REPLACE")


def _pools_bound(F, B):
    """If block B branches on `<counter> < X->num_pools` (written in any equivalent way: `>`, negated
    `>=`/`<=`, `!=`/`==`, the bound first copied into a local), return (counter variable, owner of the
    bound as an object path, successor on which the counter is in range, record type of the bound,
    whether a local temporary was looked through)."""
    if B.tc is None or len(B.succs) != 2:
        return None
    aj, at = cfg.cond_atom(F, B.tc)
    c = F.nodes[aj]
    if c.get("k") != "bin" or c["op"] not in ("<", ">", "<=", ">=", "!=", "=="):
        return None
    for cnt, bnd, op in ((c["lh"], c["rh"], c["op"]), (c["rh"], c["lh"], {"<": ">", ">": "<", "<=": ">=", ">=": "<="}.get(c["op"], c["op"]))):
        # op is now read as `counter op bound`
        if op not in ("<", ">=", "!=", "=="):
            continue
        bi, bat = _look(F, bnd)
        bn = F.nodes[bi]
        cn = F.nodes[_look(F, cnt)[0]]
        if bn.get("k") != "mem" or bn["f"] != "num_pools" or cn.get("k") != "ref" or cn.get("dk") not in ("var", "param"):
            continue
        in_range_when_atom = op in ("<", "!=")          # truth of the atom on which counter < bound
        succ = B.succs[0] if (at == in_range_when_atom) else B.succs[1]
        if succ is None:
            return None
        return cn["n"], canon.rooted(F, bn["b"], at=bat), succ, bn.get("r"), bat != bnd
    return None


def rule_R6(P, rep):
    n = 0
    for F in sorted(P.functions.values(), key=lambda f: (f.file, f.line)):
        dom = None
        for bid, B in F.blocks.items():
            r = _pools_bound(F, B)
            if r is None:
                continue
            ivar, owner, first, rec, via_tmp = r
            if dom is None:
                dom = cfg.dominators(F)
            body = {b for b in cfg.reachable_blocks(F, first) if first in dom.get(b, ()) and bid in cfg.reachable_blocks(F, b)}
            for b in body:
                for i in F.blocks[b].elems:
                    nd = F.nodes[i]
                    if nd.get("k") != "idx":
                        continue
                    xn = F.nodes[_look(F, nd["i"])[0]]
                    if xn.get("k") != "ref" or xn["n"] != ivar:
                        continue
                    bi, bat = _look(F, nd["b"])
                    bn = F.nodes[bi]
                    if bn.get("k") == "mem" and bn["f"] == "pools":
                        if bn.get("r") != rec and (via_tmp or bat != nd["b"]):
                            # a count and an array of two different record types met through local copies
                            # (the basic schedulers keep a private sorted copy of the pool array next to the
                            # scheduler's own count): not two objects of one kind, nothing to compare
                            continue
                        n += 1
                        arr_owner = canon.rooted(F, bn["b"], at=bat)
                        rep.ob("R6", "%s: loop over %s->num_pools indexes %s->pools" % (F.name, owner, arr_owner),
                               arr_owner == owner, "the bound belongs to %s but the array to %s: the scan is truncated or runs "
                               "out of bounds when the two objects have different pool counts" % (owner, arr_owner),
                               loc=F.loc(i), site="%s/pools-loop/%s" % (F.name, arr_owner))
    rep.need(n >= 8, "only %d num_pools-bounded array accesses found" % n)


def rule_R7(P, rep):
    from abtverif import canon as _canon
    MAIN = P.enum_consts.get("ABTI_SCHED_MAIN")
    rep.need(MAIN is not None, "enumerator ABTI_SCHED_MAIN not found")
    n = 0
    for F in sorted(P.functions.values(), key=lambda f: (f.file, f.line)):
        installs = [(i, lh, rh) for _b, i, lh, rh in F.stores()
                    if rh is not None and F.field_of(lh) == ("ABTI_xstream", "p_main_sched") and F.nodes[F.strip(rh)].get("cv") != 0]
        if not installs:
            continue
        sel = seq.Sel(fields={"ABTI_xstream::p_main_sched", "ABTI_sched::used"}, canon=True, locks=False)
        for toks, kind, rv, rtxt in seq.sequences(F, sel, max_len=60):
            for j, t in enumerate(toks):
                if t[0] != "st" or t[1] != "ABTI_xstream::p_main_sched":
                    continue
                nd = F.nodes[t[-1]]
                if F.nodes[F.strip(nd["rh"])].get("cv") == 0:
                    continue                       # cleared, not installed
                who = _canon.rooted(F, nd["rh"])
                marked = False
                for u in toks[:j]:
                    if u[0] == "st" and u[1] == "ABTI_sched::used" and u[3] == MAIN:
                        tgt = F.nodes[u[-1]]["lh"]
                        base = F.nodes[F.strip(tgt)]["b"]
                        if _canon.rooted(F, base) == who:
                            marked = True
                n += 1
                rep.ob("R7", "%s installs %s as main scheduler only after marking it used = MAIN" % (F.name, who), marked,
                       "no `%s->used = ABTI_SCHED_MAIN` on the path before the store into p_main_sched" % who,
                       loc=F.loc(t[-1]), site="%s/install/%s" % (F.name, who))
    rep.need(n >= 4, "only %d installations of a main scheduler found" % n)


def rule_R8(P, rep):
    F = P.fn("xstream_add_xstream_list", "src/stream.c")
    newp = [p["n"] for p in F.params if p["t"].replace(" ", "") == "ABTI_xstream*"]
    rep.need(len(newp) == 1, "xstream_add_xstream_list: parameters %s" % F.params)
    new = newp[0]
    sel = seq.Sel(fields={"ABTI_xstream::p_next", "ABTI_xstream::p_prev", "ABTI_global::p_xstream_head"}, canon=True, locks=False)
    n = 0
    for toks, kind, rv, rtxt in seq.sequences(F, sel, max_repeat=2, max_len=60):
        if kind != "ret":
            continue
        n += 1
        mine = {}
        head = False
        succ = pred = False       # the inserted stream got a non-NULL successor / predecessor on this path
        back = fwd = False        # a neighbour's p_prev / p_next was pointed at the inserted stream
        for t in toks:
            if t[0] != "st":
                continue
            nd = F.nodes[t[-1]]
            if nd.get("rh") is None:
                continue
            root = canon.rooted(F, nd["lh"])
            val = canon.rooted(F, nd["rh"])
            isnull = F.nodes[F.strip(nd["rh"])].get("cv") == 0
            if root == "%s->p_next" % new:
                mine["p_next"] = True
                succ = not isnull
            elif root == "%s->p_prev" % new:
                mine["p_prev"] = True
                pred = not isnull
            elif t[1] == "ABTI_xstream::p_prev" and val == new:
                back = True
            elif t[1] == "ABTI_xstream::p_next" and val == new:
                fwd = True
            if t[1] == "ABTI_global::p_xstream_head" and val == new:
                head = True
        why = []
        if succ and not back:
            why.append("the successor's p_prev is not pointed at the inserted stream (the list can no longer be walked or unlinked backwards)")
        if pred and not fwd and not head:
            why.append("the predecessor's p_next is not pointed at the inserted stream")
        if not mine.get("p_next"):
            why.append("the forward link of the inserted stream is not assigned (a stale p_next survives a re-insertion)")
        if not mine.get("p_prev") and not head:
            why.append("the backward link of the inserted stream is not assigned")
        rep.ob("R8", "add_xstream_list path links the inserted stream completely (%s%s)" % (sorted(mine), ", head" if head else ""),
               not why, "; ".join(why), loc="%s:%d" % (F.file, F.line), site="add_xstream_list/%s/%s" % (sorted(mine), head))
    rep.need(n >= 3, "xstream_add_xstream_list: %d paths" % n)


def rule_R10(P, rep):
    n = 0
    for fn, file, after in (("finailze_library", "src/global.c", "ABTI_xstream_free"),
                            ("xstream_launch_root_ythread", "src/stream.c", None)):
        F = P.fn(fn, file)
        sets = [i for _b, i in F.calls("ABTI_local_set_xstream")]
        clears = [i for i in sets if F.nodes[F.strip(F.nodes[i]["a"][0])].get("cv") == 0]
        if after is not None:
            starts = [i for _b, i in F.calls(after)]
            rep.need(starts, "%s does not call %s" % (fn, after))
        else:
            starts = [i for i in sets if i not in clears]
            rep.need(starts, "%s never sets the thread-local stream" % fn)
        for c in starts:
            path = cfg.reach_exit_avoiding(F, c, avoid_nodes=clears) if clears else [F.block_of(c)]
            n += 1
            rep.ob("R10", "%s: the thread-local stream pointer is cleared on every path after %s" % (fn, F.nodes[c]["fn"]),
                   path is None, "a return is reachable without ABTI_local_set_xstream(NULL) (blocks %s): this OS thread keeps naming "
                   "a stream that no longer exists" % path, loc=F.loc(c), site="%s/clear-local" % fn)
    rep.need(n >= 2, "only %d stream hand-backs found" % n)


def rule_R11(P, rep):
    """Ranks given by the user are non-negative: -1 is the internal 'pick any free rank' value of
    xstream_set_new_rank, and the rank list is sorted with the primary (rank 0) at its head."""
    from abtverif import ctrldep
    OPS = {"<": lambda x, y: x < y, "<=": lambda x, y: x <= y, ">": lambda x, y: x > y, ">=": lambda x, y: x >= y,
           "==": lambda x, y: x == y, "!=": lambda x, y: x != y}
    n = 0
    for fn, callees in (("ABT_xstream_set_rank", {"xstream_change_rank"}), ("ABT_xstream_create_with_rank", {"xstream_create"})):
        F = P.fn(fn, "src/stream.c")
        rk = [p_["n"] for p_ in F.params if p_["t"].strip() == "int"]
        rep.need(len(rk) == 1, "%s: rank parameter not found" % fn)
        R = rk[0]
        sites = [i for _b, i in F.calls(callees)]
        rep.need(sites, "%s does not reach %s" % (fn, sorted(callees)))
        for i in sites:
            tests = []
            for lab, val, _a in ctrldep.conditions(F, i):
                m = re.match(r"^%s (<|<=|>|>=|==|!=) (-?\d+)$" % re.escape(R), lab)
                if m and val is not None:
                    tests.append((m.group(1), int(m.group(2)), val))
            admitted = [x for x in (-2, -1, 0, 1) if all(OPS[op](x, k) == val for op, k, val in tests)]
            n += 1
            rep.ob("R11", "%s accepts exactly the non-negative ranks" % fn, admitted == [0, 1],
                   "of the ranks -2, -1, 0, 1 the argument check lets %s through (governing tests %s): a negative rank sorts before "
                   "the primary stream and the next rank-less create picks a rank that is already taken" % (admitted, tests),
                   loc=F.loc(i), site="%s/rank-range" % fn)
    rep.need(n >= 2, "only %d user-rank entry points" % n)


def rule_R13(P, rep):
    F = P.fn("ABT_xstream_revive", "src/stream.c", flat=True)
    bits = 0
    for m in ("ABTI_SCHED_REQ_FINISH", "ABTI_SCHED_REQ_EXIT", "ABTI_SCHED_REQ_REPLACE"):
        from .C03 import _macro_value
        v = _macro_value(P, m)
        rep.need(v is not None, "macro %s not found" % m)
        bits |= v or 0
    sel = seq.Sel(calls={"ABTI_thread_revive"}, fields={"request"}, canon=True)
    n = 0
    for toks, kind, rv, rtxt in seq.sequences(F, sel, max_repeat=1, max_len=40):
        rv_i = idx(toks, is_call("ABTI_thread_revive"))
        if not rv_i:
            continue
        n += 1
        cleared = False
        why = []
        for t in toks[:rv_i[0]] + toks[rv_i[0]:]:
            if t[0] == "st" and t[1] == "ABTI_sched::request":
                cleared = cleared or (t[2] == "=" and t[3] == 0)
            if t[0] != "ast" or t[2] != "ABTI_sched::request":
                continue
            nd = F.nodes[t[4]]
            if "_store_" in t[1]:
                cleared = cleared or t[3] == 0
            elif "fetch_and" in t[1]:
                mask = common.const_eval(F, nd["a"][-1])
                if mask is None and isinstance(t[3], int):
                    mask = t[3]
                if mask is not None and (mask & bits) == 0:
                    cleared = True
                else:
                    why.append("%s keeps request bits 0x%x" % (t[1], (mask & bits) if mask is not None else bits))
        if not cleared:
            why.append("the main scheduler's request word is not reset to 0")
        rep.ob("R13", "ABT_xstream_revive resets the main scheduler's request word [%s]" % show(toks)[:200], not why,
               "; ".join(why), loc="%s:%d" % (F.file, F.line), site="revive/sched-request")
    rep.need(n >= 1, "ABT_xstream_revive never reaches ABTI_thread_revive")


def run(P, rep, tier):
    common.rule_X9(P, rep, fields=[('ABTI_sched', 'request')])
    common.rule_X8(P, rep)
    common.rule_X7(P, rep, records=('ABTI_xstream',))
    common.rule_widths(P, rep, [('ABTI_global', 'num_xstreams'), ('ABTI_xstream', 'rank')])
    common.rule_X4(P, rep)
    common.run_shared(P, rep, which=("X2",))
    rule_R1_R2_R3(P, rep)
    rule_R4(P, rep)
    rule_R5(P, rep)
    rule_R6(P, rep)
    rule_R7(P, rep)
    rule_R8(P, rep)
    common.borrow(rep, P, C06.rule_R1_R3_R4, "R9")
    rule_R10(P, rep)
    rule_R11(P, rep)
    from . import C12
    common.borrow(rep, P, C12.rule_R4, "R12")
    rule_R13(P, rep)
