"""C18.R6 -- descriptor state is committed only after the last step that can fail for lack of memory.

Separate module so that the typestate (abtverif/cleanfail.py) and its instance selection can be
read in one place; rules/C18.py calls `rule_R6`."""
import re

from abtverif import cleanfail

DOC = ("no field of a handle-backed descriptor (work unit, stream, scheduler, pool, sync object ...) reached from a "
       "parameter or global is left modified at an error return that follows a failed allocating step (undo stores accepted)")


def handle_records(P):
    """Records users hold handles to: the return types of the ABTI_<x>_get_ptr converters."""
    recs = set()
    for F in P.functions.values():
        if re.match(r"^ABTI_\w+_get_ptr$", F.name):
            recs.add(F.ret.replace("*", "").replace("const", "").strip())
    return recs


def _written_field(F, w):
    wn = F.nodes[w]
    if wn.get("k") == "bin":
        tgt = wn["lh"]
    elif wn.get("k") == "un":
        tgt = wn["e"]
    else:
        tgt = wn["a"][0]
    return F.field_of(tgt)


def rule_R6(P, rep):
    recs = handle_records(P)
    rep.need(len(recs) >= 12, "only %d handle-backed records found" % len(recs))
    mf = cleanfail.mem_fallible(P)
    rep.need(len(mf) >= 60, "only %d functions can fail for lack of memory" % len(mf))
    analysed = 0
    branches = 0
    for F in sorted(P.functions.values(), key=lambda f: (f.file, f.line)):
        if not F.blocks:
            continue
        if not any(F.nodes[i].get("fn") in mf for _b, i in F.calls()):
            continue
        ts = cleanfail.analyse(P, F)
        if not ts.sites:
            continue
        analysed += 1
        branches += ts.sites
        bad = []
        for (key, w), r in sorted(ts.findings.items()):
            fo = ts.via.get((key, w)) or _written_field(F, w)
            if fo and fo[0] in recs:
                bad.append("%s::%s written at %s is still modified at the error return at %s" %
                           (fo[0], fo[1], F.loc(w), F.loc(r) if r is not None else F.file))
        rep.ob("R6", "%s: %d failure branches; descriptors handed in are unchanged (or restored) at every error return" %
               (F.name, ts.sites), not bad, "; ".join(bad)[:600], loc="%s:%d" % (F.file, F.line), site="%s/commit" % F.name)
    rep.need(analysed >= 60 and branches >= 300, "only %d functions / %d failure branches analysed" % (analysed, branches))
