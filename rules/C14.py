"""C14 -- user-defined pools: unit <-> work-unit mapping (structural part)."""
import re

from abtverif import canon, cfg, locks, seq, tables
from abtverif.seq import idx, is_call, show, has_if, held_at
from . import common, C03

EXPLANATION = (
    "Decides the unit typestate on every path of the four functions that change a work unit's pool association "
    "(R1): a unit created by the new pool is registered in the unit->thread map and then stored in the work unit, or "
    "is given back with the NEW pool's free_unit when the registration fails, or creation failed and nothing "
    "changed; an old user unit is unregistered first and then released exactly once with the OLD pool's free_unit, "
    "whose handle is read before the association is overwritten; no unit is mentioned after it was released; error "
    "paths leave unit and pool untouched.  R2: the map publishes a new node only after its fields are written, with a "
    "release store, lookups start with an acquire load, every write to a bucket happens under the bucket lock, and "
    "the successor link of a new node is a list head read in the same critical section as the publication.  R3: the "
    "legacy ABT_pool_def adapter fills every required slot with a wrapper that forwards to the matching old slot.  "
    "R4 (= C03.R5) freeing a work unit ends its association exactly once before the descriptor is released.  "
    "Execution order under arbitrary user pop policies is not decided.")
DECLINED = ["translation correctness while other streams mutate colliding buckets beyond R2",
            "execution exactly once under arbitrary user pop policies"]
ASSUMPTIONS = ["user callbacks create_unit/free_unit are opaque"]
RULES_DOC = dict(common.SHARED_DOC)
RULES_DOC["X8"] = common.X8_DOC
RULES_DOC["X7"] = common.X7_DOC
RULES_DOC["R5"] = "unit_unmap_thread clears exactly one entry of the bucket on every path (the walk stops at the first match): two user pools may hand out equal unit values for one work unit while it moves, and the entry just registered must survive the removal of the old one"
RULES_DOC["X4"] = common.X4_DOC
RULES_DOC["R6"] = "= C11.R4: ABT_thread_yield_to removes the target's unit from the target's own pool (the pool that holds the unit), before switching to it"
RULES_DOC["R7"] = "the legacy batch-pop emulation writes handles only at indices below the caller's array length (the loop over the caller's array is bounded by `i < max`, never `<=`), and reports exactly the number it wrote"
RULES_DOC["R12"] = "who-may-write census of ABTI_thread::p_pool: only the association helpers of abti_unit.h (which create, map and free user units together with the pool change) and the work-unit constructors store it"
RULES_DOC["R11"] = "every ABTI_pool_push whose pool argument is a local copy of ABTI_thread::p_pool: no call that may write p_pool (request handling -> migration) lies between the copy and the push, so the unit handle and the pool it goes to belong together"
RULES_DOC["R10"] = "who may call ABTI_unit_get_thread_from_builtin_unit: the built-in pool implementations and code governed by a test of ABTI_unit_is_builtin(); every pool-generic routine (the ABTI_pool_* wrappers that also serve user-defined pools) converts through ABTI_unit_get_thread"
RULES_DOC["R9"] = "= C18.R6: a step that can fail because a user pool's create_unit fails (re-associating a unit on revive / migrate) runs before the descriptor is modified: on the error return the unit is still TERMINATED, mapped to its old unit and can be revived again"
RULES_DOC["R8"] = "= C07.R7: the batch push hands the pool the unit each work unit has after it was associated with that pool (compaction with one counter, the slot written after the association)"
RULES_DOC.update({
    "R1": "unit typestate on every path of set/init/unset associated pool: create -> map -> store | free(new) ; unmap(old) -> free(old pool) once; no use after free",
    "R2": "unit map: node initialised before the release-store publication, acquire-load lookups, all bucket writes under the bucket lock, head read and publication in one critical section",
    "R3": "legacy pool definition adapter: every required slot gets a wrapper forwarding to the matching old slot",
    "R4": "= C03.R5: thread_free ends the association at most once before releasing the descriptor",
})
VARIANTS = []
UH = "src/include/abti_unit.h"
FUNCS = ["ABTI_unit_set_associated_pool", "ABTI_thread_init_pool", "ABTI_thread_set_associated_pool",
         "ABTI_thread_unset_associated_pool"]

# Canonical (abtverif.canon) spellings: record/field names and callee names of the repository only.  Locals are never
# named: a value is identified by what it was computed from (single reaching definition), an object by its access
# path from a parameter / a call (canon.rooted).
CUR_POOL = "ABTI_thread::p_pool"
CUR_UNIT = "ABTI_thread::unit"
OLD_HANDLE = "ABTI_pool_get_handle(%s)" % CUR_POOL
_CREATED = re.compile(r"^\(\*[A-Za-z_0-9:.]*\bp_create_unit\)\(")


def _eq_sides(label):
    """(a, b) of a canonical equality label `a == b` (top level), else None."""
    depth = 0
    for k in range(len(label)):
        c = label[k]
        if c in "([{":
            depth += 1
        elif c in ")]}":
            depth -= 1
        elif depth == 0 and label.startswith(" == ", k):
            return label[:k], label[k + 4:]
    return None


class _ValueSel(seq.Sel):
    """Sel that also records every plain definition of a local (`T x = e;`, `x = e;`) as ('def', x, node of e, nid).
    Private emulation of a path-sensitive value environment: canon.expr resolves a local only when ONE definition
    reaches the use over the whole CFG, which fails for a result handed back through an out-parameter of a helper
    that has error exits (`T x; if (helper(.., &x) != OK) return ..; use(x)`).  On a single path the value is known."""

    def select(self, F, nid, ctx):
        tok = super().select(F, nid, ctx)
        nd = F.nodes[nid]
        extra = []
        if nd.get("k") == "decl":
            extra = [("def", v["n"], v["init"], nid) for v in nd["vars"] if "init" in v]
        elif nd.get("k") == "bin" and nd.get("asg") and nd["op"] == "=":
            ln = F.nodes[F.strip(nd["lh"])]
            if ln.get("k") == "ref" and ln.get("dk") == "var":
                extra = [("def", ln["n"], nd["rh"], nid)]
        if not extra:
            return tok
        return (tok if isinstance(tok, list) else [tok] if tok else []) + extra


def _annotate(F, toks):
    """(tokens without the `def` bookkeeping, info): info[i] holds the canonical rendering of the i-th token's
    operands (call arguments, indirect callee slot, stored value) with every local replaced by the value it holds
    on THIS path."""
    env, out, info = {}, [], []
    for t in toks:
        if t[0] == "def":
            env[t[1]] = canon.expr(F, t[2], env=env)
            continue
        d = {}
        nd = F.nodes[t[-1]] if t[0] in ("call", "icall", "st") else None
        if t[0] in ("call", "icall"):
            d["args"] = [canon.expr(F, x, env=env) for x in nd["a"]]
            if t[0] == "icall":
                d["slot"] = canon.expr(F, nd["fe"], env=env)
        elif t[0] == "st":
            d["val"] = canon.expr(F, nd["rh"], env=env) if isinstance(t[3], str) and "rh" in nd else t[3]
        out.append(t)
        info.append(d)
    return out, info


def _unit_kind(F, text):
    """Which unit a canonical value denotes: 'new' = the result of the new pool's create_unit, 'old' = the unit
    the work unit was associated with on entry (ABTI_thread::unit, or the ABT_unit parameter of the function)."""
    if _CREATED.match(text):
        return "new"
    if text == CUR_UNIT or text in [p["n"] for p in F.params if p["t"].replace(" ", "") == "ABT_unit"]:
        return "old"
    return None


def _r1_cond(label):
    s = _eq_sides(label)
    if s is not None and (_CREATED.match(s[0]) or _CREATED.match(s[1])):
        return "create-failed"       # created unit == ABT_UNIT_NULL
    if label.startswith("ABTI_unit_map_thread("):
        return "map-failed"          # result of the registration != ABT_SUCCESS
    return None


def _r1_summary(F, toks, info):
    """Short, name-independent description of a path (used as the instance label)."""
    out = []
    params = [p["n"] for p in F.params]
    for t, d in zip(toks, info):
        if t[0] == "icall":
            if d["slot"].endswith("p_create_unit"):
                out.append("create_unit")
            elif d["slot"].endswith("p_free_unit"):
                old = canon.rooted(F, F.nodes[t[-1]]["fe"]).endswith("->p_pool->required_def.p_free_unit")
                out.append("free_unit[%s pool](%s unit)" % ("old" if old else "new", _unit_kind(F, d["args"][1]) if len(d["args"]) > 1 else None))
            else:
                out.append("(*%s)" % d["slot"])
        elif t[0] == "call":
            out.append(t[1].replace("ABTI_unit_", "").replace("ABTI_pool_", "") +
                       ("(cur pool)" if t[1] == "ABTI_pool_get_handle" and d["args"] == [CUR_POOL] else ""))
        elif t[0] == "st":
            k = _unit_kind(F, str(d["val"]))
            out.append("%s %s %s" % (t[1].split("::")[1], t[2], k + " unit" if k else ("param" if str(d["val"]) in params else d["val"])))
        elif t[0] == "if":
            out.append("[%s%s]" % ("" if t[2] else "!", t[1]))
    return " ; ".join(out)


def rule_R1(P, rep):
    for fn in FUNCS:
        F = P.fn(fn, UH)
        sel = _ValueSel(calls={"ABTI_unit_map_thread", "ABTI_unit_unmap_thread", "ABTI_unit_init_builtin", "ABTI_pool_get_handle"},
                        fields={"unit", "p_pool"}, indirect=True, conds=_r1_cond, canon=True)
        ps = [p for p in seq.sequences(F, sel, max_len=120) if p[1] == "ret"]
        rep.need(len(ps) >= 2, "%s: %d paths" % (fn, len(ps)))
        for toks, kind, rv, rtxt in ps:
            why = []
            toks, info = _annotate(F, toks)
            args = lambda i: info[i]["args"]
            creates = [i for i, t in enumerate(toks) if t[0] == "icall" and info[i]["slot"].endswith("p_create_unit")]
            frees = [i for i, t in enumerate(toks) if t[0] == "icall" and info[i]["slot"].endswith("p_free_unit")]
            maps = idx(toks, is_call("ABTI_unit_map_thread"))
            unmaps = idx(toks, is_call("ABTI_unit_unmap_thread"))
            st_unit = [i for i, t in enumerate(toks) if t[0] == "st" and t[1] == CUR_UNIT]
            st_pool = [i for i, t in enumerate(toks) if t[0] == "st" and t[1] == CUR_POOL]
            success = (rv == 0) or (rv is None and rtxt is None)
            freed = {i: (args(i) + ["?", "?"])[:2] for i in frees}      # i -> [pool handle, unit] (canonical)
            if len(creates) > 1 or len(maps) > 1 or len(unmaps) > 1:
                why.append("create/map/unmap more than once")
            if creates:
                if success:
                    if len(maps) != 1 or maps[0] < creates[0] or _unit_kind(F, (args(maps[0]) + ["?", "?"])[1]) != "new":
                        why.append("created unit not registered in the unit->thread map")
                    st_new = [i for i in st_unit if _unit_kind(F, str(info[i]["val"])) == "new"]
                    if len(st_new) != 1 or (maps and st_new[0] < maps[0]):
                        why.append("created unit not stored into the work unit after the registration")
                else:
                    mapped_failed = bool(maps)
                    new_frees = [i for i in frees if _unit_kind(F, freed[i][1]) == "new"]
                    if mapped_failed:
                        if len(new_frees) != 1:
                            why.append("registration failed but the created unit is not given back exactly once")
                        else:
                            # handle and free_unit slot of the pool that created the unit: same handle value as passed
                            # to create_unit, same pool object (rooted access path) for the two slots
                            cr, fr = F.nodes[toks[creates[0]][-1]], F.nodes[toks[new_frees[0]][-1]]
                            if freed[new_frees[0]][0] != (args(creates[0]) + ["?"])[0] or \
                                    canon.rooted(F, fr["fe"]) != re.sub(r"p_create_unit$", "p_free_unit", canon.rooted(F, cr["fe"])):
                                why.append("created unit given back to %s (%s) instead of the pool that created it" %
                                           (freed[new_frees[0]][0], canon.rooted(F, fr["fe"])))
                    elif new_frees:
                        why.append("create_unit failed but free_unit is called")
            if not success and (st_unit or st_pool):
                why.append("error path modifies the work unit's unit/pool")
            if any(_unit_kind(F, freed[i][1]) is None for i in frees):
                why.append("free_unit called on a unit that is neither the created nor the old one (%s)" %
                           [freed[i][1] for i in frees if _unit_kind(F, freed[i][1]) is None])
            # old user unit: unmap then free with the old pool's handle read before p_pool is overwritten
            old_frees = [i for i in frees if _unit_kind(F, freed[i][1]) == "old"]
            if unmaps or old_frees:
                if len(unmaps) != 1 or len(old_frees) != 1:
                    why.append("old unit must be unregistered once and released once (unmap %d, free %d)" % (len(unmaps), len(old_frees)))
                else:
                    if not unmaps[0] < old_frees[0]:
                        why.append("old unit released before it is removed from the unit->thread map (a recycled handle "
                                   "would be unmapped instead)")
                    harg = freed[old_frees[0]][0]
                    if harg != OLD_HANDLE:
                        why.append("old unit released with %s instead of the old pool's handle" % harg)
                    # where the old pool's handle is computed on this path: ABTI_pool_get_handle(<unit>->p_pool)
                    od = [i for i, t in enumerate(toks) if t[0] == "call" and t[1] == "ABTI_pool_get_handle" and args(i) == [CUR_POOL]]
                    if not [i for i in od if i < old_frees[0]]:
                        why.append("old pool handle not derived from the unit's current pool")
                    elif st_pool and max(od) > st_pool[0]:
                        why.append("old pool handle read after the association was overwritten")
                    callee = canon.rooted(F, F.nodes[toks[old_frees[0]][-1]]["fe"])
                    if not callee.endswith("->p_pool->required_def.p_free_unit"):
                        why.append("free_unit of %s used for the old unit" % callee)
                    if st_pool and old_frees[0] > st_pool[0]:
                        why.append("old unit released through the pool pointer after it was overwritten")
                    if not success:
                        why.append("old association ended on an error path")
            # use after free
            for i in frees:
                x = freed[i][1]
                who = "%s unit" % _unit_kind(F, x) if _unit_kind(F, x) else x
                for j in range(i + 1, len(toks)):
                    if toks[j][0] in ("call", "icall") and x in args(j):
                        why.append("%s used after free_unit" % who)
                    if toks[j][0] == "st" and str(info[j]["val"]) == x:
                        why.append("%s stored after free_unit" % who)
            summ = _r1_summary(F, toks, info)
            rep.ob("R1", "%s path -> %s [%s]" % (fn, rv if rv is not None else ("void" if rtxt is None else "non-constant"), summ),
                   not why, "; ".join(sorted(set(why))), loc="%s:%d" % (F.file, F.line),
                   site="%s/%s/%s" % (fn, rv if rv is not None else ("void" if rtxt is None else "non-constant"), summ[:180]))
    rep.min_instances("R1", 18)


ENTRY_LOCK = ("ABTI_unit_to_thread_entry", "lock")
ENTRY_LIST = ("ABTI_unit_to_thread_entry", "list")


def _resolve(F, i, depth=3):
    """Node a local (pointer / value temporary) stands for: follow single reaching definitions."""
    i = F.strip(i)
    while depth > 0:
        nd = F.nodes[i]
        if nd.get("k") != "ref" or nd.get("dk") != "var":
            break
        d = canon.reaching_def(F, nd["n"], i)
        if not isinstance(d, int):
            break
        i = F.strip(d)
        depth -= 1
    return i


def _lock_fields(F):
    """lock key (as used by locks.run_locks) -> (record, field) of the lock object, through pointer temporaries."""
    out = {}
    for table in (tables.LOCK_ACQUIRE, tables.LOCK_COND_ACQUIRE):
        for b, i in F.calls():
            fn = F.nodes[i].get("fn")
            if fn in table and len(F.nodes[i]["a"]) > table[fn]:
                a = F.nodes[i]["a"][table[fn]]
                out[locks.lock_key(F, a)] = F.field_of(_resolve(F, a))
    return out


def rule_R2(P, rep):
    M = P.fn("unit_map_thread", "src/unit.c")
    U = P.fn("unit_unmap_thread", "src/unit.c")
    G = P.fn("unit_get_thread_from_user_defined_unit", "src/unit.c")
    for F in (M, U):
        ts = locks.run_locks(P, F)
        lf = _lock_fields(F)
        n = 0
        seen = {}
        for bid, i in F.all_events():
            nd = F.nodes[i]
            writes = None
            if nd.get("k") == "bin" and nd.get("asg") and F.field_of(nd["lh"]) and F.field_of(nd["lh"])[0] in ("unit_to_thread", "ABTI_unit_to_thread_entry"):
                writes = F.fieldpath(nd["lh"])
            if nd.get("k") == "call" and "store" in (nd.get("fn") or "") and nd["a"] and F.field_of(nd["a"][0]) and \
                    F.field_of(nd["a"][0])[0] in ("unit_to_thread", "ABTI_unit_to_thread_entry"):
                writes = F.fieldpath(nd["a"][0])
            if writes is None:
                continue
            n += 1
            seen[writes] = seen.get(writes, 0) + 1
            if seen[writes] > 1:
                writes = "%s (write #%d)" % (writes, seen[writes])
            helds = ts.at.get(i, set())
            ok = bool(helds) and all(any(lf.get(k) == ENTRY_LOCK for k in h) for h in helds)
            rep.ob("R2", "%s writes %s under the bucket lock" % (F.name, writes), ok, "lock sets %s" % sorted(sorted(h) for h in helds),
                   loc=F.loc(i), site="%s/locked/%s" % (F.name, writes))
        rep.need(n >= 1, "%s: no map writes" % F.name)
        unb = [(k, nid, h) for k, nid, h, rv in ts.exits if k == "ret" and h]
        rep.ob("R2", "%s releases the bucket lock on every exit" % F.name, not unb and not ts.errors,
               str([(F.loc(n) if n is not None else "", sorted(h)) for k, n, h in unb] + ts.errors), loc=F.file,
               site="%s/balance" % F.name)
    sel = seq.Sel(calls=lambda c: c.startswith("atomic_") or c == "ABTU_malloc", fields={"p_thread", "p_next"}, canon=True)
    n = 0
    for toks, kind, rv, rtxt in seq.sequences(M, sel, max_repeat=1, max_len=60):
        pub = [i for i, t in enumerate(toks) if t[0] == "call" and t[1] == "atomic_release_store_unit_to_thread"]
        if kind != "ret" or not pub:
            continue
        n += 1
        why = []
        inits = [i for i, t in enumerate(toks) if (t[0] == "st" and t[1] in ("unit_to_thread::p_thread", "unit_to_thread::p_next")) or
                 (t[0] == "call" and t[1] == "atomic_relaxed_store_unit")]
        if len([i for i in inits if i < pub[0]]) < 3:
            why.append("new node published before unit, p_thread and p_next are all written")
        nxt = [i for i, t in enumerate(toks) if t[0] == "st" and t[1] == "unit_to_thread::p_next"]
        # the successor stored into the new node: the value (through any temporary) must be a load of the bucket
        # head, and that very load must be on this path, in the critical section of the publication
        head = None
        if nxt:
            src = _resolve(M, M.nodes[toks[nxt[-1]][-1]]["rh"])
            sn = M.nodes[src]
            if sn.get("k") == "call" and "load_unit_to_thread" in (sn.get("fn") or "") and sn["a"] and M.field_of(sn["a"][0]) == ENTRY_LIST:
                hs = [i for i, t in enumerate(toks) if t[0] == "call" and t[-1] == src and i < nxt[-1]]
                head = hs[-1] if hs else None
        if head is None:
            why.append("successor of the new node is not the list head")
        else:
            if any(t[0] in ("rel", "acq") for t in toks[head:pub[0]]):
                why.append("the bucket lock is released between reading the list head and publishing the new node (a "
                           "concurrent insertion in between is lost)")
        rep.ob("R2", "unit_map_thread publishes a fully initialised node whose successor was read in the same critical section",
               not why, "; ".join(why), loc="%s:%d" % (M.file, M.line), site="unit_map_thread/publish")
    rep.need(n >= 1, "unit_map_thread: no publishing path")
    first = [G.nodes[i] for b, i in G.calls() if "load_unit_to_thread" in (G.nodes[i].get("fn") or "")]
    rep.ob("R2", "lookup starts with an acquire load of the bucket head", bool(first) and all("acquire" in nd["fn"] for nd in first),
           str([nd["fn"] for nd in first]), loc=G.file, site="unit_get/acquire")


def rule_R3(P, rep):
    F = P.fn("pool_create_def_from_old_def", "src/pool/pool.c")
    want = {"p_create_unit": ("pool_create_unit_wrapper", "u_create_from_thread"),
            "p_free_unit": ("pool_free_unit_wrapper", "u_free"),
            "p_is_empty": ("pool_is_empty_wrapper", "p_get_size"),
            "p_pop": ("pool_pop_wrapper", "p_pop"),
            "p_push": ("pool_push_wrapper", "p_push")}
    got = {}
    for b, i, lh, rh in F.stores():
        fo = F.field_of(lh)
        if fo and fo[0] == "ABTI_pool_required_def" and rh is not None:
            # the functions the stored value may denote (designator, or a local only ever assigned designators)
            fv = F.func_values(rh)
            got[fo[1]] = sorted(fv) if fv else [canon.expr(F, rh)]
    req = [f["n"] for f in P.record("ABTI_pool_required_def")["fields"]]
    for slot in req:
        w = want.get(slot)
        rep.ob("R3", "legacy adapter fills required slot %s with %s" % (slot, w[0] if w else "?"), w is not None and got.get(slot) == [w[0]],
               "assigned %s" % got.get(slot), loc=F.file, site="old_def/slot/%s" % slot)
        if w and P.fns(w[0]):
            W = P.fn(w[0], "src/pool/pool.c")
            # the slot called: the old definition's field, reached directly (pool->old_def.f) or through a pointer
            # to the old definition
            ic = []
            for b, i in W.calls():
                if "fe" in W.nodes[i]:
                    fe = _resolve(W, W.nodes[i]["fe"])
                    ic.append((W.fieldpath(fe), W.field_of(fe)))
            rep.ob("R3", "%s forwards to old_def.%s" % (w[0], w[1]),
                   any(x.endswith("old_def." + w[1]) or fo == ("ABTI_pool_old_def", w[1]) for x, fo in ic), str([x for x, fo in ic]),
                   loc="%s:%d" % (W.file, W.line), site="old_def/wrapper/%s" % w[0])
    # the copied old definition preserves each slot
    old = {}
    for b, i, lh, rh in F.stores():
        fo = F.field_of(lh)
        if fo and fo[0] == "ABTI_pool_old_def" and rh is not None:
            src = F.field_of(_resolve(F, rh))
            cv = F.nodes[F.strip(rh)].get("cv")
            old[fo[1]] = src[1] if src else (cv if cv is not None else canon.expr(F, rh))
    bad = [(k, v) for k, v in old.items() if not (v == k or v == 0)]
    rep.ob("R3", "old definition slots are copied one to one", not bad and len(old) >= 6, "mismatches %s" % bad, loc=F.file,
           site="old_def/copy")


def rule_R5(P, rep):
    F = P.fn("unit_unmap_thread", "src/unit.c")
    sel = seq.Sel(calls=lambda fn: fn.startswith("atomic_") and "store_unit" in fn and "unit_to_thread" not in fn, locks=True, canon=True)
    n = 0
    worst = 0
    for toks, kind, rv, rtxt in seq.sequences(F, sel, max_repeat=3, max_len=60):
        if kind != "ret":
            continue
        clears = [t for t in toks if t[0] == "call"]
        n += 1
        worst = max(worst, len(clears))
        rep.ob("R5", "unit_unmap_thread path clears exactly one entry (%d)" % len(clears), len(clears) == 1,
               "a returning path clears %d entries" % len(clears), loc="%s:%d" % (F.file, F.line), site="unit_unmap/clears/%d" % len(clears))
    rep.need(n >= 1, "unit_unmap_thread: no returning path")


def rule_R7(P, rep):
    F = P.fn("pool_pop_many_wrapper", "src/pool/pool.c")
    arr = [p["n"] for p in F.params if p["t"].replace(" ", "") == "ABT_thread*"]
    cnt = [p["n"] for p in F.params if p["t"].replace(" ", "") == "size_t"]
    rep.need(len(arr) == 1 and cnt, "pool_pop_many_wrapper: parameters %s" % F.params)
    st = [(i, F.nodes[F.strip(lh)]) for _b, i, lh, rh in F.stores() if F.nodes[F.strip(lh)].get("k") == "idx" and F.base_var(lh) == arr[0]]
    rep.need(st, "pool_pop_many_wrapper does not store into the caller's array")
    for i, ln in st:
        ixn = F.nodes[F.strip(ln["i"])]
        if ixn.get("k") == "un" and ixn["op"] in ("post++",):
            # threads[n++]: the slot written is the value the loop condition tested
            ixn = F.nodes[F.strip(ixn["e"])]
        ix = ixn.get("n")
        heads = [a for a, k in ctrldep_closure(F, F.block_of(i)) if F.blocks[a].tk in ("ForStmt", "WhileStmt", "DoStmt") and F.blocks[a].tc is not None]
        labs = [canon.cond(F, cfg.cond_atom(F, F.blocks[a].tc, True)[0]) for a in heads]
        ok = any(lab == "%s < %s" % (ix, cnt[0]) and not flip for lab, flip in labs)
        rep.ob("R7", "pool_pop_many_wrapper stores threads[%s] only while %s < %s" % (ix, ix, cnt[0]), ok,
               "the loop over the caller's array is bounded by %s" % [("!" if fl else "") + "(" + l + ")" for l, fl in labs],
               loc=F.loc(i), site="pop_many_wrapper/bound")


def ctrldep_closure(F, bid):
    from abtverif import ctrldep
    return ctrldep.closure(F, bid)


def rule_R10(P, rep):
    """Who may take a unit for a work-unit pointer without looking at its kind: the built-in pool implementations
    (every unit they are handed is their own) and code that has just tested ABTI_unit_is_builtin()."""
    from abtverif import ctrldep
    BUILTIN = ("src/pool/fifo.c", "src/pool/fifo_wait.c", "src/pool/randws.c", "src/pool/thread_queue.h")
    n = 0
    for F in sorted(P.functions.values(), key=lambda f: (f.file, f.line)):
        for _b, i in F.calls("ABTI_unit_get_thread_from_builtin_unit"):
            n += 1
            ok = F.file in BUILTIN
            if not ok:
                ok = any("ABTI_unit_is_builtin(" in lab and val is not False for lab, val, _a in ctrldep.conditions(F, i))
            rep.ob("R10", "%s converts a unit with the built-in shortcut only where the unit is known to be built-in" % F.name, ok,
                   "%s may be handed a unit of a user-defined pool (an opaque user value, not a tagged descriptor pointer): it "
                   "must go through ABTI_unit_get_thread" % F.name, loc=F.loc(i), site="builtin-unit/%s" % F.name)
    rep.need(n >= 10, "only %d uses of the built-in unit conversion" % n)


def rule_R11(P, rep):
    """A unit and the pool it is pushed to belong together: a pool pointer copied from ABTI_thread::p_pool into a local is
    not used for a push after a call that may re-associate the unit (request handling can migrate it: the unit handle then
    belongs to the new pool, and a user-defined pool is handed a unit it never created)."""
    n = 0
    writers = P.may_write("ABTI_thread", "p_pool")
    for F in sorted(P.functions.values(), key=lambda f: (f.file, f.line)):
        for _b, i in F.calls({"ABTI_pool_push", "ABTI_pool_push_many"}):
            n += 1
            a0 = F.nodes[i]["a"][0]
            an = F.nodes[F.strip(a0)]
            stale = []
            if an.get("k") == "ref" and an.get("dk") == "var":
                d = canon.reaching_def(F, an["n"], i)
                if isinstance(d, int) and F.field_of(d) == ("ABTI_thread", "p_pool"):
                    for _b2, c in F.calls():
                        G = P.resolve_call(F, F.nodes[c]) if F.nodes[c].get("fn") else None
                        if G is not None and G.key in writers and c != i and cfg.can_reach(F, d, c) and cfg.can_reach(F, c, i):
                            stale.append("%s at %s" % (F.nodes[c]["fn"], F.loc(c)))
            rep.ob("R11", "%s pushes to the pool the unit is associated with at the time of the push" % F.name, not stale,
                   "the pool was copied from ABTI_thread::p_pool before %s, which may re-associate the unit; the push then hands "
                   "the new pool's unit to the old pool" % ", ".join(stale), loc=F.loc(i), site="push-pool/%s" % F.name)
    rep.need(n >= 5, "only %d pool pushes found" % n)


def rule_R12(P, rep):
    """Who may store ABTI_thread::p_pool: the association helpers (they create / map / free the user unit together with the
    pool change) and the constructors.  A direct store anywhere else re-associates the unit without telling the pools."""
    ALLOWED = {"ABTI_thread_init_pool", "ABTI_thread_set_associated_pool", "ABTI_thread_unset_associated_pool",
               "ABTI_unit_set_associated_pool", "ythread_create", "task_create", "ABTI_unit_init_builtin"}
    ws = sorted(P.direct_writers("ABTI_thread", "p_pool"))
    rep.need(len(ws) >= 4, "only %d functions store ABTI_thread::p_pool" % len(ws))
    for k in ws:
        name = k.split(":")[-1]
        rep.ob("R12", "%s may store ABTI_thread::p_pool (association helper or constructor)" % name, name in ALLOWED,
               "%s writes the pool of a unit directly: the unit handle, the unit map and the create_unit / free_unit calls "
               "of user-defined pools are bypassed" % name, loc=k.rsplit(":", 1)[0], site="p_pool-writer/%s" % name)


def run(P, rep, tier):
    common.rule_X8(P, rep)
    common.rule_X7(P, rep, records=('unit_to_thread',))
    common.rule_X4(P, rep)
    common.run_shared(P, rep, which=("X2",))
    rule_R1(P, rep)
    rule_R2(P, rep)
    rule_R3(P, rep)
    rule_R5(P, rep)
    from . import C11
    common.borrow(rep, P, C11.rule_R4, "R6")
    rule_R7(P, rep)
    from . import C07
    common.borrow(rep, P, C07.rule_R7, "R8")
    from . import c18_commit
    common.borrow(rep, P, c18_commit.rule_R6, "R9")
    rule_R10(P, rep)
    rule_R11(P, rep)
    rule_R12(P, rep)
    sub = type(rep)(rep.prop, rep.tier, rep.variant)
    C03.rule_R5(P, sub)
    for o in sub.obligations:
        if "thread_free" in o["instance"]:
            rep.ob("R4", o["instance"], o["ok"], o["detail"], o["loc"], site="R4/" + o["instance"][:120])
