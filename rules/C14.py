"""C14 -- user-defined pools: unit <-> work-unit mapping (structural part)."""
from abtverif import cfg, locks, seq
from abtverif.seq import idx, is_call, show, has_if, held_at
from . import common, C03

EXPLANATION = (
    "Decides the unit typestate on every path of the four functions that change a work unit's pool association "
    "(R1): a unit created by the new pool is registered in the unit->thread map and then stored in the work unit, or "
    "is given back with the NEW pool's free_unit when the registration fails, or creation failed and nothing "
    "changed; an old user unit is unregistered first and then released exactly once with the OLD pool's free_unit, "
    "whose handle is read before the association is overwritten; no unit is mentioned after it was released; error "
    "paths leave unit and pool untouched.  R2: the map publishes a new node only after its fields are written, with a "
    "release store, lookups start with an acquire load, every write to a bucket happens under the bucket lock, and "
    "the successor link of a new node is a list head read in the same critical section as the publication.  R3: the "
    "legacy ABT_pool_def adapter fills every required slot with a wrapper that forwards to the matching old slot.  "
    "R4 (= C03.R5) freeing a work unit ends its association exactly once before the descriptor is released.  "
    "Execution order under arbitrary user pop policies is not decided.")
DECLINED = ["translation correctness while other streams mutate colliding buckets beyond R2",
            "execution exactly once under arbitrary user pop policies"]
ASSUMPTIONS = ["user callbacks create_unit/free_unit are opaque"]
RULES_DOC = dict(common.SHARED_DOC)
RULES_DOC.update({
    "R1": "unit typestate on every path of set/init/unset associated pool: create -> map -> store | free(new) ; unmap(old) -> free(old pool) once; no use after free",
    "R2": "unit map: node initialised before the release-store publication, acquire-load lookups, all bucket writes under the bucket lock, head read and publication in one critical section",
    "R3": "legacy pool definition adapter: every required slot gets a wrapper forwarding to the matching old slot",
    "R4": "= C03.R5: thread_free ends the association at most once before releasing the descriptor",
})
VARIANTS = []
UH = "src/include/abti_unit.h"
FUNCS = ["ABTI_unit_set_associated_pool", "ABTI_thread_init_pool", "ABTI_thread_set_associated_pool",
         "ABTI_thread_unset_associated_pool"]


def rule_R1(P, rep):
    for fn in FUNCS:
        F = P.fn(fn, UH)
        sel = seq.Sel(calls={"ABTI_unit_map_thread", "ABTI_unit_unmap_thread", "ABTI_unit_init_builtin", "ABTI_pool_get_handle"},
                      fields={"unit", "p_pool"}, indirect=True, decls={"old_pool", "pool", "new_unit", "unit"},
                      conds=lambda t: "new_unit" in t or t.startswith("ret ") or "ret !=" in t)
        ps = [p for p in seq.sequences(F, sel, max_len=60) if p[1] == "ret"]
        rep.need(len(ps) >= 2, "%s: %d paths" % (fn, len(ps)))
        for toks, kind, rv, rtxt in ps:
            why = []
            creates = [i for i, t in enumerate(toks) if t[0] == "icall" and t[1].endswith("p_create_unit")]
            frees = [i for i, t in enumerate(toks) if t[0] == "icall" and t[1].endswith("p_free_unit")]
            maps = idx(toks, is_call("ABTI_unit_map_thread"))
            unmaps = idx(toks, is_call("ABTI_unit_unmap_thread"))
            st_unit = [i for i, t in enumerate(toks) if t[0] == "st" and t[1] == "ABTI_thread::unit"]
            st_pool = [i for i, t in enumerate(toks) if t[0] == "st" and t[1] == "ABTI_thread::p_pool"]
            success = (rv == 0) or (rv is None and rtxt is None)
            if len(creates) > 1 or len(maps) > 1 or len(unmaps) > 1:
                why.append("create/map/unmap more than once")
            if creates:
                if success:
                    if len(maps) != 1 or maps[0] < creates[0] or "var:new_unit" not in toks[maps[0]][2]:
                        why.append("created unit not registered in the unit->thread map")
                    st_new = [i for i in st_unit if toks[i][3] == "new_unit"]
                    if len(st_new) != 1 or (maps and st_new[0] < maps[0]):
                        why.append("created unit not stored into the work unit after the registration")
                else:
                    mapped_failed = bool(maps)
                    new_frees = [i for i in frees if F.render(F.nodes[toks[i][-1]]["a"][1]) == "new_unit"]
                    if mapped_failed:
                        if len(new_frees) != 1:
                            why.append("registration failed but the created unit is not given back exactly once")
                        elif F.render(F.nodes[toks[new_frees[0]][-1]]["a"][0]) != "pool":
                            why.append("created unit given back to %s instead of the pool that created it" %
                                       F.render(F.nodes[toks[new_frees[0]][-1]]["a"][0]))
                    elif new_frees:
                        why.append("create_unit failed but free_unit is called")
            if not success and (st_unit or st_pool):
                why.append("error path modifies the work unit's unit/pool")
            # old user unit: unmap then free with the old pool's handle read before p_pool is overwritten
            old_frees = [i for i in frees if F.render(F.nodes[toks[i][-1]]["a"][1]) == "unit"]
            if unmaps or old_frees:
                if len(unmaps) != 1 or len(old_frees) != 1:
                    why.append("old unit must be unregistered once and released once (unmap %d, free %d)" % (len(unmaps), len(old_frees)))
                else:
                    if not unmaps[0] < old_frees[0]:
                        why.append("old unit released before it is removed from the unit->thread map (a recycled handle "
                                   "would be unmapped instead)")
                    harg = F.render(F.nodes[toks[old_frees[0]][-1]]["a"][0])
                    if harg != "old_pool":
                        why.append("old unit released with %s instead of the old pool's handle" % harg)
                    od = [i for i, t in enumerate(toks) if t[0] == "decl" and t[1] == "old_pool"]
                    if not od or "p_thread->p_pool" not in toks[od[0]][2]:
                        why.append("old pool handle not derived from the unit's current pool")
                    elif st_pool and od[0] > st_pool[0]:
                        why.append("old pool handle read after the association was overwritten")
                    callee = F.render(F.nodes[toks[old_frees[0]][-1]]["fe"])
                    if "p_thread->p_pool->" not in callee:
                        why.append("free_unit of %s used for the old unit" % callee)
                    if st_pool and old_frees[0] > st_pool[0]:
                        why.append("old unit released through the pool pointer after it was overwritten")
                    if not success:
                        why.append("old association ended on an error path")
            # use after free
            for i in frees:
                x = F.render(F.nodes[toks[i][-1]]["a"][1])
                for t in toks[i + 1:]:
                    if t[0] in ("call", "icall") and any(x == F.render(a) for a in F.nodes[t[-1]]["a"]):
                        why.append("%s used after free_unit" % x)
                    if t[0] == "st" and t[3] == x:
                        why.append("%s stored after free_unit" % x)
            rep.ob("R1", "%s path -> %s [%s]" % (fn, rtxt, show(toks)[:300]), not why, "; ".join(sorted(set(why))),
                   loc="%s:%d" % (F.file, F.line), site="%s/%s/%s" % (fn, rtxt, show(toks)[:180]))
    rep.min_instances("R1", 18)


def rule_R2(P, rep):
    M = P.fn("unit_map_thread", "src/unit.c")
    U = P.fn("unit_unmap_thread", "src/unit.c")
    G = P.fn("unit_get_thread_from_user_defined_unit", "src/unit.c")
    LOCK = "ABTI_unit_to_thread_entry::lock"
    for F in (M, U):
        ts = locks.run_locks(P, F)
        n = 0
        for bid, i in F.all_events():
            nd = F.nodes[i]
            writes = None
            if nd.get("k") == "bin" and nd.get("asg") and F.field_of(nd["lh"]) and F.field_of(nd["lh"])[0] in ("unit_to_thread", "ABTI_unit_to_thread_entry"):
                writes = F.render(nd["lh"])
            if nd.get("k") == "call" and "store" in (nd.get("fn") or "") and nd["a"] and F.field_of(nd["a"][0]) and \
                    F.field_of(nd["a"][0])[0] in ("unit_to_thread", "ABTI_unit_to_thread_entry"):
                writes = F.render(nd["a"][0])
            if writes is None:
                continue
            n += 1
            helds = ts.at.get(i, set())
            ok = bool(helds) and all(any(k.endswith("->lock") for k in h) for h in helds)
            rep.ob("R2", "%s writes %s under the bucket lock" % (F.name, writes), ok, "lock sets %s" % sorted(sorted(h) for h in helds),
                   loc=F.loc(i), site="%s/locked/%s" % (F.name, writes))
        rep.need(n >= 1, "%s: no map writes" % F.name)
        unb = [(k, nid, h) for k, nid, h, rv in ts.exits if k == "ret" and h]
        rep.ob("R2", "%s releases the bucket lock on every exit" % F.name, not unb and not ts.errors,
               str([(F.loc(n) if n is not None else "", sorted(h)) for k, n, h in unb] + ts.errors), loc=F.file,
               site="%s/balance" % F.name)
    sel = seq.Sel(calls=lambda c: c.startswith("atomic_") or c == "ABTU_malloc", fields={"p_thread", "p_next"},
                  assigns={"p_cur"}, decls={"p_cur"})
    n = 0
    for toks, kind, rv, rtxt in seq.sequences(M, sel, max_repeat=1, max_len=60):
        pub = [i for i, t in enumerate(toks) if t[0] == "call" and t[1] == "atomic_release_store_unit_to_thread"]
        if kind != "ret" or not pub:
            continue
        n += 1
        why = []
        inits = [i for i, t in enumerate(toks) if (t[0] == "st" and t[1] in ("unit_to_thread::p_thread", "unit_to_thread::p_next")) or
                 (t[0] == "call" and t[1] == "atomic_relaxed_store_unit")]
        if len([i for i in inits if i < pub[0]]) < 3:
            why.append("new node published before unit, p_thread and p_next are all written")
        nxt = [i for i, t in enumerate(toks) if t[0] == "st" and t[1] == "unit_to_thread::p_next"]
        heads = [i for i, t in enumerate(toks) if t[0] == "decl" and t[1] == "p_cur" and "load_unit_to_thread(&p_entry->list)" in (t[2] or "")]
        if not nxt or not heads or toks[nxt[-1]][3] != "p_cur":
            why.append("successor of the new node is not the list head")
        else:
            h = [i for i in heads if i < nxt[-1]][-1]
            if any(t[0] in ("rel", "acq") for t in toks[h:pub[0]]):
                why.append("the bucket lock is released between reading the list head and publishing the new node (a "
                           "concurrent insertion in between is lost)")
        rep.ob("R2", "unit_map_thread publishes a fully initialised node whose successor was read in the same critical section",
               not why, "; ".join(why), loc="%s:%d" % (M.file, M.line), site="unit_map_thread/publish")
    rep.need(n >= 1, "unit_map_thread: no publishing path")
    first = [G.nodes[i] for b, i in G.calls() if "load_unit_to_thread" in (G.nodes[i].get("fn") or "")]
    rep.ob("R2", "lookup starts with an acquire load of the bucket head", bool(first) and all("acquire" in nd["fn"] for nd in first),
           str([nd["fn"] for nd in first]), loc=G.file, site="unit_get/acquire")


def rule_R3(P, rep):
    F = P.fn("pool_create_def_from_old_def", "src/pool/pool.c")
    want = {"p_create_unit": ("pool_create_unit_wrapper", "u_create_from_thread"),
            "p_free_unit": ("pool_free_unit_wrapper", "u_free"),
            "p_is_empty": ("pool_is_empty_wrapper", "p_get_size"),
            "p_pop": ("pool_pop_wrapper", "p_pop"),
            "p_push": ("pool_push_wrapper", "p_push")}
    got = {}
    for b, i, lh, rh in F.stores():
        fo = F.field_of(lh)
        if fo and fo[0] == "ABTI_pool_required_def" and rh is not None:
            got[fo[1]] = F.render(rh)
    req = [f["n"] for f in P.record("ABTI_pool_required_def")["fields"]]
    for slot in req:
        w = want.get(slot)
        rep.ob("R3", "legacy adapter fills required slot %s with %s" % (slot, w[0] if w else "?"), w is not None and got.get(slot) == w[0],
               "assigned %s" % got.get(slot), loc=F.file, site="old_def/slot/%s" % slot)
        if w and P.fns(w[0]):
            W = P.fn(w[0], "src/pool/pool.c")
            ic = [W.fieldpath(W.nodes[i]["fe"]) for b, i in W.calls() if "fe" in W.nodes[i]]
            rep.ob("R3", "%s forwards to old_def.%s" % (w[0], w[1]), any(x.endswith("old_def." + w[1]) for x in ic), str(ic),
                   loc="%s:%d" % (W.file, W.line), site="old_def/wrapper/%s" % w[0])
    # the copied old definition preserves each slot
    old = {}
    for b, i, lh, rh in F.stores():
        fo = F.field_of(lh)
        if fo and fo[0] == "ABTI_pool_old_def" and rh is not None:
            old[fo[1]] = F.render(rh)
    bad = [(k, v) for k, v in old.items() if not (v.endswith("->" + k) or v in ("(void *)0", "0") or "0" == v)]
    rep.ob("R3", "old definition slots are copied one to one", not bad and len(old) >= 6, "mismatches %s" % bad, loc=F.file,
           site="old_def/copy")


def run(P, rep, tier):
    common.run_shared(P, rep, which=("X2",))
    rule_R1(P, rep)
    rule_R2(P, rep)
    rule_R3(P, rep)
    sub = type(rep)(rep.prop, rep.tier, rep.variant)
    C03.rule_R5(P, sub)
    for o in sub.obligations:
        if "thread_free" in o["instance"]:
            rep.ob("R4", o["instance"], o["ok"], o["detail"], o["loc"], site="R4/" + o["instance"][:120])
