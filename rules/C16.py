"""C16 -- work-unit-local storage (structural part)."""
import re
from abtverif import canon, cfg, seq
from abtverif.seq import idx, is_call, show, held_at
from . import common, C03
from .C15 import ntype, cond_root, term, tshow, mk_bin, subterms, addr_var, param_of_type

EXPLANATION = (
    "Decides for the per-unit key table: R1 a new element's fields are written before the release-store that links "
    "it and readers traverse with acquire loads; the table pointer is published with a release store after creation "
    "and reset on failure; R2 (unique key per table) an element is appended only after the chain was scanned again "
    "from the remembered position under the table lock when the operation must be thread safe, so that two "
    "concurrent first sets of keys in the same slot cannot unlink each other or duplicate a key; R3 set and get "
    "compute the slot with the same function of (key id, table size) and compare the key id; the table is allocated "
    "for exactly the number of slots it records and clears; R4 on free each element's destructor is called at most "
    "once, only for a registered destructor and a non-NULL value, before the table's memory blocks are returned by "
    "their recorded provenance, and a unit's table is freed at most once.  Map semantics over arbitrary histories "
    "are not decided.")
DECLINED = ["map semantics (last value wins, independence of keys/units) over arbitrary histories"]
ASSUMPTIONS = ["X1 memory orders", "keys are never freed while values exist (documented API restriction)"]
RULES_DOC = dict(common.SHARED_DOC)
RULES_DOC["X7"] = common.X7_DOC
RULES_DOC["X4"] = common.X4_DOC
RULES_DOC["R5"] = "key identities are disjoint: statically initialised (internal) keys have distinct ids below the first dynamic id, and ABT_key_create hands out ids from a counter that starts above them (a user key never aliases the migration / stackable-scheduler key)"
RULES_DOC["R6"] = "the key-table size cannot be configured to 0: the lower bound of the KEY_TABLE_SIZE loader is at least 1 (a table of zero slots is indexed with id & (0 - 1))"
RULES_DOC["R10"] = "a key-table pointer loaded from its slot is dereferenced only under ABTI_ktable_is_valid(): the slot holds the LOCKED marker (0x1) while another stream performs the first set on the unit, and a reader that only tests for NULL dereferences it"
RULES_DOC["R9"] = "= C01.R2: a new work unit's descriptor -- including p_keytable = NULL -- is completely written before the unit is pushed to a pool: a store after the push races with the unit already running on another stream and wipes the key table it just created"
RULES_DOC["R8"] = "key-table memory carved from a descriptor block (table, then elements) stays within the bytes ABTI_mem_alloc_desc hands out: block size constant + header <= offset of the malloc'ed/pool flag word (constants folded from the facts, both size tests and both extra_mem_size computations)"
RULES_DOC["R7"] = "who-may-write census of ABTI_thread::p_keytable: only the constructors (NULL / initial table), the key-table setters (publication through the slot pointer) and the free path touch it -- a revive keeps the table and its values"
RULES_DOC.update({
    "R1": "element initialised before its release-store link; acquire-load traversal; table pointer published by release store / reset on failure",
    "R2": "append only after a second scan of the chain under the table lock (thread-safe variant); lock released on every exit",
    "R3": "set and get use the same slot function and compare key ids; slots allocated = slots recorded = slots cleared",
    "R4": "free: destructor(value) iff destructor && value, once per element; blocks returned by recorded provenance; thread_free frees the table <= 1 time",
})
VARIANTS = ["no_ext_thread"]
KH = "src/include/abti_key.h"


ELEM_T, LINK_T, HDR_T = "ABTI_ktelem*", "ABTD_atomic_ptr*", "ABTI_ktable_mem_header*"
KEYCMP = "ABTI_key::id == ABTI_ktelem::key_id"      # canonical label of `elem->key_id == <id of the key>` (either way round)


def _tested_var_type(F, node):
    """Type of the variable whose NULL-ness a condition atom tests (None if it tests something else)."""
    r = F.nodes[F.strip(cond_root(F, node))]
    if r.get("k") == "ref" and r.get("dk") in ("var", "param"):
        return ntype(r.get("t"))
    return None


def _is_var_of_type(F, i, typ):
    n = F.nodes[F.strip(i)]
    return n.get("k") == "ref" and n.get("dk") in ("var", "param") and ntype(n.get("t")) == typ


def rule_R1_R2(P, rep):
    F = P.fn("ABTI_ktable_set_impl", KH)
    L = "ABTI_ktable::lock"
    SAFE = param_of_type(F, "ABT_bool")
    rep.need(SAFE, "ABTI_ktable_set_impl: no ABT_bool (thread-safe) parameter in %s" % F.params)

    def conds(label, F, node):
        # the rule's own labels: independent of the names of the cursor variables and of the polarity of the tests
        if label == SAFE:
            return "safe"
        if _tested_var_type(F, node) == ELEM_T:
            return "elem"                # true = the element pointer is not NULL
        if "ABTI_ktelem::key_id" in label:
            return "keycmp" if label == KEYCMP else "keycmp?" + label
        if label.startswith("ABTI_ktable_alloc_elem("):
            return "alloc-failed"        # true = error code non-zero
        return None
    sel = seq.Sel(calls={"ABTI_ktable_alloc_elem", "ABTD_atomic_acquire_load_ptr", "ABTD_atomic_release_store_ptr",
                         "ABTD_atomic_relaxed_store_ptr"},
                  fields={"f_destructor", "key_id", "value", "p_next"}, conds=conds, canon=True)
    for safe in (1, 0):
        ps = seq.sequences(F, sel, max_repeat=2, max_len=80, entry_consts={SAFE: safe})
        n_app = 0
        for toks, kind, rv, rtxt in ps:
            if kind != "ret":
                continue
            why = []
            # the linking store: an atomic pointer store through a link *variable* (the remembered tail link); the
            # stores into fields of the new element are 'ast' tokens
            pub = [i for i, t in enumerate(toks) if t[0] == "call" and t[1] in ("ABTD_atomic_release_store_ptr", "ABTD_atomic_relaxed_store_ptr")
                   and _is_var_of_type(F, F.nodes[t[-1]]["a"][0], LINK_T)]
            if pub and toks[pub[0]][1] != "ABTD_atomic_release_store_ptr":
                why.append("new element linked with a relaxed store (readers may see uninitialised fields)")
            al = idx(toks, is_call("ABTI_ktable_alloc_elem"))
            if held_at(toks, L, len(toks)):
                why.append("returns holding the table lock")
            if pub:
                n_app += 1
                new = addr_var(F, F.nodes[toks[al[-1]][-1]]["a"][-1]) if al and al[-1] < pub[0] else None
                linked = F.nodes[toks[pub[0]][-1]]["a"][1]
                if new is None or not (term(F, linked) == ("var", new) or F.nodes[F.strip(linked)].get("n") == new):
                    why.append("the element linked (%s) is not the element just obtained from ABTI_ktable_alloc_elem" % canon.expr(F, linked))
                inits = {t[1].split("::")[-1] for t in toks[:pub[0]] if t[0] == "st"} | \
                        {t[2].split("::")[-1] for t in toks[:pub[0]] if t[0] == "ast"}
                missing = {"f_destructor", "key_id", "value", "p_next"} - inits
                if missing:
                    why.append("element linked before %s were written" % sorted(missing))
                if safe:
                    if not held_at(toks, L, pub[0]):
                        why.append("element appended without the table lock")
                    acq = [i for i, t in enumerate(toks) if t[0] == "acq" and t[1] == L]
                    if acq:
                        # the chain is read again through a remembered link (not from the table head) under the lock ...
                        rescan = [i for i, t in enumerate(toks) if t[0] == "call" and t[1] == "ABTD_atomic_acquire_load_ptr" and
                                  acq[-1] < i < pub[0] and _is_var_of_type(F, F.nodes[t[-1]]["a"][0], LINK_T)]
                        # ... and the last element pointer tested before the append was NULL (the end of the chain)
                        tested = [i for i, t in enumerate(toks) if t[0] == "if" and t[1] == "elem" and acq[-1] < i < pub[0]]
                        if not rescan or not tested or toks[tested[-1]][2] is not False:
                            why.append("the chain is not re-read under the lock before appending (two concurrent first sets "
                                       "in one slot would unlink each other or duplicate the key)")
                if rv != 0:
                    why.append("error return after linking")
            elif rv == 0:
                # updated an existing element
                if not [t for t in toks if t[0] == "st" and t[1].endswith("::value")]:
                    why.append("success without storing the value")
            else:
                if [t for t in toks if t[0] == "st"]:
                    why.append("error path writes an element")
            bad_cmp = [t[1] for t in toks if t[0] == "if" and t[1].startswith("keycmp?")]
            if bad_cmp:
                why.append("element key compared with something other than the key's id: %s" % bad_cmp[0][7:])
            rt = rtxt if rtxt is None or len(rtxt) <= 24 else rtxt.split("(")[0] + "(..)"
            rep.ob("R2" if safe else "R1", "ktable_set_impl(is_safe=%d) -> %s [%s]" % (safe, rt, show(toks)[-220:]), not why,
                   "; ".join(why), loc="%s:%d" % (F.file, F.line), site="set_impl/%d/%s/%d" % (safe, rt, len(toks)))
        rep.need(n_app >= 1, "ktable_set_impl(is_safe=%d): no appending path" % safe)
    # readers
    for fn in ("ABTI_ktable_get", "ABTI_ktable_set_impl"):
        G = P.fn(fn, KH)
        loads = [G.nodes[i]["fn"] for b, i in G.calls() if (G.nodes[i].get("fn") or "").startswith("ABTD_atomic_") and "_load_ptr" in G.nodes[i]["fn"]]
        rep.ob("R1", "%s traverses the table with acquire loads" % fn, bool(loads) and all("acquire" in x for x in loads), str(loads),
               loc=G.file, site="%s/acquire" % fn)
    S = P.fn("ABTI_ktable_set", KH)
    slot = param_of_type(S, LINK_T)
    rep.need(slot, "ABTI_ktable_set: no `ABTD_atomic_ptr *` table-slot parameter in %s" % S.params)
    # the local that receives the new table from ABTI_ktable_create (its out-parameter)
    created = set(addr_var(S, S.nodes[i]["a"][-1]) for b, i in S.calls("ABTI_ktable_create")) - {None}
    pubs = []
    for b, i in S.calls():
        nd = S.nodes[i]
        if "store_ptr" in (nd.get("fn") or "") and term(S, nd["a"][0]) == ("var", slot):
            v = term(S, nd["a"][1])
            pubs.append((nd["fn"], "NULL" if v == ("int", 0) else "new-table" if v[0] == "var" and v[1] in created else tshow(v)))
    ok = ("ABTD_atomic_release_store_ptr", "new-table") in pubs and ("ABTD_atomic_release_store_ptr", "NULL") in pubs
    rep.ob("R1", "ABTI_ktable_set publishes the new table with a release store and resets the slot to NULL on failure", ok, str(pubs),
           loc=S.file, site="ktable_set/publish")
    cr = S.calls("ABTI_ktable_create")
    cas = S.calls("ABTD_atomic_bool_cas_weak_ptr")
    ok = len(cr) == 1 and len(cas) == 1 and cfg.dominates(S, cas[0][1], cr[0][1])
    rep.ob("R1", "the table is created only by the thread that won the NULL -> LOCKED CAS", ok, "", loc=S.file, site="ktable_set/cas")
    rep.min_instances("R2", 3)


def _key_tests(F):
    """[(canonical label, atom node)] of the branch conditions that look at an element's key id."""
    out = []
    for b in F.blocks.values():
        if b.tc is None:
            continue
        aj, _t = cfg.cond_atom(F, b.tc, True)
        lab, _flip = canon.cond(F, aj)
        if "ABTI_ktelem::key_id" in lab:
            out.append((lab, aj))
    return out


def _affine(t, n):
    """(c1, c2) if term t is c1 + c2 * n for integer constants c1, c2; else None."""
    if not (isinstance(t, tuple) and t[0] == "bin" and t[1] == "+"):
        return None
    for c, m in ((t[2], t[3]), (t[3], t[2])):
        if c[0] == "int" and m[0] == "bin" and m[1] == "*":
            for k, x in ((m[2], m[3]), (m[3], m[2])):
                if k[0] == "int" and x == n:
                    return c[1], k[1]
    return None


def rule_R3(P, rep):
    Sf = P.fn("ABTI_ktable_set_impl", KH)
    Gf = P.fn("ABTI_ktable_get", KH)

    def slot(F):
        # arguments by canonical value: the key parameter and the size field of the table (whatever the table pointer is called)
        key = param_of_type(F, "ABTI_key*")
        return [["key" if canon.expr(F, a) == key else canon.expr(F, a) for a in F.nodes[i]["a"]] for b, i in F.calls("ABTI_ktable_get_idx")]
    s, g = slot(Sf), slot(Gf)
    rep.ob("R3", "set and get compute the slot as ABTI_ktable_get_idx(p_key, p_ktable->size)", s == g == [["key", "ABTI_ktable::size"]],
           "set %s get %s" % (s, g), loc=KH, site="slot-function")
    I = P.fn("ABTI_ktable_get_idx", KH)
    r = [term(I, I.nodes[i]["e"]) for b, i in I.all_events() if I.nodes[i].get("k") == "ret"]
    want = mk_bin("&", ("fld", ("var", I.params[0]["n"]), "ABTI_key::id"), mk_bin("-", ("var", I.params[1]["n"]), ("int", 1)))
    rep.ob("R3", "slot = key id masked by size-1", r == [want], str([tshow(x) for x in r]), loc=I.file, site="slot-mask")
    for F in (Sf, Gf):
        key = param_of_type(F, "ABTI_key*")
        tests = _key_tests(F)
        cmps = [lab for lab, aj in tests]
        rep.ob("R3", "%s compares the element's key id with the key's id" % F.name, bool(cmps) and all(c == KEYCMP for c in cmps),
               str(cmps), loc=F.file, site="%s/keycmp" % F.name)
        # the id compared is the id of the key passed in: the operand that is not the element's field, rooted at the parameter
        kid = []
        for lab, aj in tests:
            nd = F.nodes[F.strip(aj)]
            if nd.get("k") == "bin":
                kid += [canon.rooted(F, x) for x in (nd["lh"], nd["rh"]) if F.field_of(x) != ("ABTI_ktelem", "key_id")]
        rep.ob("R3", "%s takes key_id from the key" % F.name, bool(kid) and all(k == "%s->id" % key for k in kid), str(kid), loc=F.file,
               site="%s/keyid" % F.name)
    # allocation covers exactly `size` slots
    C = P.fn("ABTI_ktable_create", KH)
    recorded = sorted(set(term(C, rh) for b, i, lh, rh in C.stores() if rh is not None and C.fieldpath(lh) == "ABTI_ktable::size"))
    sizes = [term(C, C.nodes[i]["a"][0]) for b, i in C.calls("ABTU_malloc")]
    rec = P.records.get("ABTI_ktable")
    off = next((f["off"] for f in rec["fields"] if f["n"] == "p_elems"), None) if rec else None
    esz = (P.records.get("ABTD_atomic_ptr") or {}).get("size")
    ok = len(recorded) == 1 and bool(sizes)
    detail = "allocation size %s ; recorded size %s" % ([tshow(x) for x in sizes], [tshow(x) for x in recorded])
    slotsz = None
    if ok:
        for sz in sizes:
            # the heap block is  roundup(offsetof(p_elems) + sizeof(slot) * <recorded size>, alignment) [+ header]
            aff = [_affine(x[2], recorded[0]) for x in subterms(sz) if x[0] == "call" and x[1] == "ABTU_roundup_size" and len(x) == 4]
            aff = [a for a in aff if a is not None]
            if len(aff) != 1 or (off is not None and aff[0][0] != off) or (esz is not None and aff[0][1] != esz) or aff[0][1] <= 0:
                ok = False
            else:
                slotsz = aff[0][1]
    rep.ob("R3", "the table is allocated for exactly the number of slots it records (p_elems[size])", bool(ok), detail, loc=C.file,
           site="ktable_create/slots")
    ms = [[term(C, a) for a in C.nodes[i]["a"]] for b, i in C.calls() if "memset" in (C.nodes[i].get("fn") or "")]
    ok = bool(ms) and len(recorded) == 1 and all(m[1] == ("int", 0) and m[2][0] == "bin" and m[2][1] == "*" and recorded[0] in m[2][2:] and
                                                 [x for x in m[2][2:] if x != recorded[0]] == [("int", slotsz if slotsz else esz)] for m in ms)
    rep.ob("R3", "all recorded slots are cleared at creation", ok, str([[tshow(x) for x in m] for m in ms]), loc=C.file,
           site="ktable_create/memset")


def rule_R4(P, rep):
    F = P.fn("ABTI_ktable_free", "src/key.c")
    DTOR, VALUE, PROV = "ABTI_ktelem::f_destructor", "ABTI_ktelem::value", "ABTI_ktable_mem_header::is_from_mempool"

    def conds(label, F, node):
        if label == DTOR:
            return "dtor"                # true = a destructor is registered
        if label == VALUE:
            return "value"               # true = the value is not NULL
        if label == PROV:
            return "from-mempool"
        ty = _tested_var_type(F, node)
        if ty == ELEM_T:
            return "elem"
        if ty == HDR_T:
            return "block"
        if "ABTI_ktelem::f_destructor" in label or "ABTI_ktelem::value" in label or "is_from_mempool" in label:
            return "?" + label           # an unrecognised test of these fields: never taken for a guard
        return None
    sel = seq.Sel(calls={"ABTI_mem_free_desc", "ABTU_free"}, indirect=True, conds=conds, canon=True)
    n = 0
    for toks, kind, rv, rtxt in seq.sequences(F, sel, max_repeat=2, max_len=80):
        if kind != "ret":
            continue
        why = []
        for i, t in enumerate(toks):
            if t[0] == "icall":
                n += 1
                call = F.nodes[t[-1]]
                fe, args = canon.expr(F, call["fe"]), [canon.expr(F, a) for a in call["a"]]
                # same element on both sides, when both are direct member accesses
                roots = set(F.base_var(x) for x in [call["fe"]] + list(call["a"]) if F.field_of(x)) - {None}
                if fe.lstrip("*") != DTOR or args != [VALUE] or len(roots) > 1:
                    why.append("destructor invoked as %s(%s)" % (F.render(call["fe"]), [F.render(a) for a in call["a"]]))
                pre = [u for u in toks[:i] if u[0] == "if"][-2:]
                if sorted((u[1], u[2]) for u in pre) != [("dtor", True), ("value", True)]:
                    why.append("destructor call not guarded by `f_destructor && value`")
            if t[0] == "call" and t[1] in ("ABTI_mem_free_desc", "ABTU_free"):
                g = [u for u in toks[:i] if u[0] == "if" and u[1] == "from-mempool"]
                if not g or (t[1] == "ABTI_mem_free_desc") != g[-1][2]:
                    why.append("%s used for a block whose recorded provenance says otherwise" % t[1])
        # destructors before any block is returned
        fr = [i for i, t in enumerate(toks) if t[0] == "call"]
        ds = [i for i, t in enumerate(toks) if t[0] == "icall"]
        if fr and ds and max(ds) > min(fr):
            why.append("a destructor runs after table memory was released")
        shape = "%d destructor call(s), %d block release(s)" % (len(ds), len(fr))
        rep.ob("R4", "ktable_free paths with %s" % shape, not why, "; ".join(why), loc="%s:%d" % (F.file, F.line),
               site="ktable_free/%s" % shape)
    rep.need(n >= 1, "ktable_free never calls a destructor")
    # each element visited once: the traversal advances with p_next of the same element
    adv = [canon.expr(F, rh) for b, i, lh, rh in F.stores() if rh is not None and _is_var_of_type(F, lh, ELEM_T)]
    rep.ob("R4", "element traversal advances through p_elem->p_next", any("ABTI_ktelem::p_next" in a for a in adv), str(adv), loc=F.file,
           site="ktable_free/advance")
    # ... for every element of every chain: the advance is reached on every iteration (its only governing
    # conditions are the loops) and nothing leaves a loop early (a `break` would skip the rest of the chain
    # and their destructors)
    from abtverif import ctrldep
    advs = [i for _b, i in F.calls() if (F.nodes[i].get("fn") or "").startswith("ABTD_atomic_") and "_load_" in F.nodes[i]["fn"] and
            F.nodes[i]["a"] and F.field_of(F.nodes[i]["a"][0]) == ("ABTI_ktelem", "p_next")]
    rep.need(len(advs) >= 1, "ktable_free: no load of ABTI_ktelem::p_next")
    for i in advs:
        bad, head = ctrldep.per_element(F, i, advs)
        rep.ob("R4", "ktable_free visits every element of a chain (no early exit from the walk)", not bad and head is not None,
               "; ".join(bad) if bad else "the advance is not inside a loop", loc=F.loc(i), site="ktable_free/every-element")
    sub = type(rep)(rep.prop, rep.tier, rep.variant)
    C03.rule_R5(P, sub)
    for o in sub.obligations:
        if o["instance"].startswith("thread_free"):
            rep.ob("R4", o["instance"], o["ok"], o["detail"], o["loc"], site="R4/" + o["instance"][:120])


def rule_R5(P, rep):
    static_ids = {}
    for (file, name), g in sorted(P.globals.items()):
        if g.get("t") != "ABTI_key" or not g.get("nodes"):
            continue
        nodes = g["nodes"]
        il = nodes[g["init"]] if isinstance(g.get("init"), int) and g["init"] < len(nodes) else None
        if not il or il.get("k") != "ilist" or len(il["e"]) < 2:
            continue
        idn = nodes[il["e"][1]]
        static_ids["%s:%s" % (file, name)] = idn.get("cv")
    rep.need(len(static_ids) >= 2, "only %d statically initialised keys found" % len(static_ids))
    vals = list(static_ids.values())
    rep.ob("R5", "internal keys %s have distinct constant ids" % sorted(static_ids), None not in vals and len(set(vals)) == len(vals),
           str(static_ids), loc="src/thread.c", site="key-ids/static-distinct")
    # the dynamic counter: the global passed to the fetch-add whose result becomes ABTI_key::id in ABT_key_create
    F = P.fn("ABT_key_create", "src/key.c")
    ctr = None
    for _b, i, lh, rh in F.stores():
        if rh is None or F.field_of(lh) != ("ABTI_key", "id"):
            continue
        rn = F.nodes[F.strip(rh)]
        if rn.get("k") == "ref" and rn.get("dk") == "var":
            d = canon.reaching_def(F, rn["n"], rh)      # the id may pass through a temporary
            if isinstance(d, int):
                rn = F.nodes[F.strip(d)]
        if rn.get("k") == "call" and "fetch_add" in (rn.get("fn") or ""):
            an = F.nodes[F.strip(rn["a"][0])]
            inner = F.nodes[F.strip(an["e"])] if an.get("k") == "un" and an["op"] == "&" else None
            step = F.nodes[F.strip(rn["a"][1])].get("cv")
            if inner is not None and inner.get("k") == "ref" and inner.get("dk") == "global":
                ctr = (inner["n"], step, rn["fn"])
    if ctr is None:
        rep.ob("R5", "ABT_key_create takes the new id from one atomic fetch-add of a global counter", False,
               "the id is not the result of an atomic fetch-add (two concurrent creations can obtain the same id)",
               loc="%s:%d" % (F.file, F.line), site="key-ids/atomic")
        return
    g = [g for (file, name), g in P.globals.items() if name == ctr[0] and file == "src/key.c" and g.get("nodes")]
    rep.need(g, "initialiser of %s not found" % ctr[0])
    start = [n.get("cv") for n in g[0]["nodes"] if n and n.get("k") == "int"]
    first = start[-1] if start else None
    ok = first is not None and None not in vals and first > max(vals) and ctr[1] == 1
    rep.ob("R5", "dynamic key ids start at %s (fetch-add returns the old value, step %s): above every internal id" % (first, ctr[1]), ok,
           "first dynamic id %s, internal ids %s" % (first, sorted(vals)), loc="src/key.c", site="key-ids/dynamic-start")


def rule_R6(P, rep):
    E = "src/arch/abtd_env.c"
    F = P.fn("ABTD_env_key_table_size", E)
    calls = [i for _b, i in F.calls() if (F.nodes[i].get("fn") or "").startswith("load_env_")]
    rep.need(len(calls) == 1, "ABTD_env_key_table_size: %d loader calls" % len(calls))
    nd = F.nodes[calls[0]]
    lo = F.nodes[F.strip(nd["a"][2])].get("cv")
    rep.ob("R6", "KEY_TABLE_SIZE is loaded with a lower bound of at least 1", lo is not None and lo >= 1, "lower bound %s" % lo,
           loc=F.loc(calls[0]), site="key_table_size/lower-bound")


def rule_R7(P, rep):
    writers = set()
    for F in P.functions.values():
        for _b, i, lh, rh in F.stores():
            if F.field_of(lh) == ("ABTI_thread", "p_keytable"):
                writers.add(F.name)
        for _b, i in F.calls():
            nd = F.nodes[i]
            if (nd.get("fn") or "").startswith("ABTD_atomic_") and ("store" in nd["fn"] or "cas" in nd["fn"]) and nd["a"] and \
                    F.field_of(nd["a"][0]) == ("ABTI_thread", "p_keytable"):
                writers.add(F.name)
    rep.need(len(writers) >= 2, "writers of ABTI_thread::p_keytable: %s" % sorted(writers))
    for w in sorted(writers):
        ok = bool(re.search(r"create|_free$|thread_free|init", w)) and "revive" not in w
        rep.ob("R7", "%s (a constructor or the free path) writes ABTI_thread::p_keytable" % w, ok,
               "%s overwrites the key table of a live or revived unit (its values and their destructors are lost)" % w,
               loc="src", site="keytable-writer/" + w)


def rule_R8(P, rep):
    """Key-table memory carved out of a descriptor block stays inside the part of the block that
    ABTI_mem_alloc_desc hands out: the word behind it records whether the block was malloc'ed."""
    from abtverif import ctrldep
    A = P.fn("ABTI_mem_alloc_desc", "src/include/abti_mem.h")
    offs = []
    for _b, _i, lh, rh in A.stores():
        ln = A.nodes[A.strip(lh)]
        if ln.get("k") == "un" and ln["op"] == "*":
            bn = A.nodes[A.strip(ln["e"])]
            if bn.get("k") == "bin" and bn["op"] == "+":
                v = common.const_eval(A, bn["rh"])
                if v is not None:
                    offs.append(v)
    for _b, i in A.calls("ABTU_malloc"):
        v = common.const_eval(A, A.nodes[i]["a"][0])
        if v is not None:
            offs.append(v)
    rep.need(offs, "ABTI_mem_alloc_desc: usable size of a descriptor block not found")
    usable = min(offs)
    H = P.record("ABTI_ktable_mem_header")["size"]
    n = 0
    for fn in ("ABTI_ktable_create", "ABTI_ktable_alloc_elem"):
        F = P.fn(fn, "src/include/abti_key.h")
        ks = []
        for _b, i in F.calls("ABTI_mem_alloc_desc"):
            for a, _k in ctrldep.closure(F, F.block_of(i)):
                tc = F.blocks[a].tc
                if tc is None:
                    continue
                for leaf in ctrldep._operands(F, tc):
                    ln = F.nodes[F.strip(leaf)]
                    if ln.get("k") == "bin" and ln["op"] in ("<", "<=", ">", ">="):
                        for side in (ln["lh"], ln["rh"]):
                            v = common.const_eval(F, side)
                            if v is not None and v > H:
                                ks.append((v, F.loc(leaf)))
        for _b, i, lh, rh in F.stores():
            if rh is not None and F.field_of(lh) == ("ABTI_ktable", "extra_mem_size"):
                rn = F.nodes[F.strip(rh)]
                if rn.get("k") == "bin" and rn["op"] == "-":
                    v = common.const_eval(F, rn["lh"])
                    if v is not None:
                        ks.append((v, F.loc(i)))
        rep.need(ks, "%s: no constant block size governs ABTI_mem_alloc_desc" % fn)
        for v, loc in ks:
            n += 1
            rep.ob("R8", "%s: %d bytes of table memory + %d-byte header fit the %d usable bytes of a descriptor block" % (fn, v, H, usable),
                   v + H <= usable, "%d + %d > %d: the last element carved from the block overlaps the malloc'ed/pool flag that "
                   "ABTI_mem_free_desc reads" % (v, H, usable), loc=loc, site="%s/desc-size" % fn)
    rep.need(n >= 3, "only %d block-size constants found" % n)


def rule_R10(P, rep):
    """A key-table pointer read from a slot has three states: NULL, the LOCKED marker (0x1) while another thread creates
    the table, and a real table.  Every access through a pointer that was loaded from the slot is governed by
    ABTI_ktable_is_valid(), not by a mere non-NULL test."""
    from abtverif import ctrldep
    n = 0
    for F in sorted(P.functions.values(), key=lambda f: (f.file, f.line)):
        if not F.blocks:
            continue
        seen = set()
        for i, nd in enumerate(F.nodes):
            if not nd or nd.get("k") != "mem" or nd.get("r") != "ABTI_ktable" or F.block_of(i) is None:
                continue
            base = canon.expr(F, nd["b"])
            if not re.match(r"^ABTD_atomic_\w*load_ptr\(", base) or base in seen:
                continue
            seen.add(base)
            n += 1
            conds = ctrldep.conditions(F, i)
            ok = any(lab.startswith("ABTI_ktable_is_valid(") and val is not False for lab, val, _a in conds)
            rep.ob("R10", "%s dereferences the loaded key-table pointer only under ABTI_ktable_is_valid()" % F.name, ok,
                   "governing tests: %s -- while another thread creates the table the slot holds the LOCKED marker (0x1), "
                   "which is not NULL" % [lab[:60] for lab, _v, _a in conds][:4], loc=F.loc(i), site="ktable-valid/%s" % F.name)
    rep.need(n >= 1, "no access through a loaded key-table pointer found")


def run(P, rep, tier):
    common.rule_X7(P, rep, records=('ABTI_key',))
    common.rule_X4(P, rep)
    common.run_shared(P, rep, which=("X1", "X2"))
    rule_R1_R2(P, rep)
    rule_R3(P, rep)
    rule_R4(P, rep)
    rule_R5(P, rep)
    rule_R6(P, rep)
    rule_R7(P, rep)
    rule_R8(P, rep)
    rule_R10(P, rep)
    from . import C01
    common.borrow(rep, P, C01.rule_R1_R2, "R9", only=("R2",))
