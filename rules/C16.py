"""C16 -- work-unit-local storage (structural part)."""
import re

from abtverif import cfg, locks, seq, terms
from abtverif.seq import idx, is_call, show, has_if, held_at
from . import common, C03

EXPLANATION = (
    "Decides for the per-unit key table: R1 a new element's fields are written before the release-store that links "
    "it and readers traverse with acquire loads; the table pointer is published with a release store after creation "
    "and reset on failure; R2 (unique key per table) an element is appended only after the chain was scanned again "
    "from the remembered position under the table lock when the operation must be thread safe, so that two "
    "concurrent first sets of keys in the same slot cannot unlink each other or duplicate a key; R3 set and get "
    "compute the slot with the same function of (key id, table size) and compare the key id; the table is allocated "
    "for exactly the number of slots it records and clears; R4 on free each element's destructor is called at most "
    "once, only for a registered destructor and a non-NULL value, before the table's memory blocks are returned by "
    "their recorded provenance, and a unit's table is freed at most once.  Map semantics over arbitrary histories "
    "are not decided.")
DECLINED = ["map semantics (last value wins, independence of keys/units) over arbitrary histories"]
ASSUMPTIONS = ["X1 memory orders", "keys are never freed while values exist (documented API restriction)"]
RULES_DOC = dict(common.SHARED_DOC)
RULES_DOC.update({
    "R1": "element initialised before its release-store link; acquire-load traversal; table pointer published by release store / reset on failure",
    "R2": "append only after a second scan of the chain under the table lock (thread-safe variant); lock released on every exit",
    "R3": "set and get use the same slot function and compare key ids; slots allocated = slots recorded = slots cleared",
    "R4": "free: destructor(value) iff destructor && value, once per element; blocks returned by recorded provenance; thread_free frees the table <= 1 time",
})
VARIANTS = ["no_ext_thread"]
KH = "src/include/abti_key.h"


def rule_R1_R2(P, rep):
    F = P.fn("ABTI_ktable_set_impl", KH)
    L = "ABTI_ktable::lock"
    sel = seq.Sel(calls={"ABTI_ktable_alloc_elem", "ABTD_atomic_acquire_load_ptr", "ABTD_atomic_release_store_ptr",
                         "ABTD_atomic_relaxed_store_ptr"},
                  fields={"f_destructor", "key_id", "value", "p_next"},
                  conds=lambda t: t in ("is_safe", "p_elem") or "key_id" in t or "abt_errno" in t,
                  assigns={"p_elem", "pp_elem"}, decls={"p_elem", "pp_elem"})
    for safe in (1, 0):
        ps = seq.sequences(F, sel, max_repeat=2, max_len=80, entry_consts={"is_safe": safe})
        n_app = 0
        for toks, kind, rv, rtxt in ps:
            if kind != "ret":
                continue
            why = []
            pub = []
            pub = [i for i, t in enumerate(toks) if (t[0] == "call" and t[1] == "ABTD_atomic_release_store_ptr" and
                                                      t[2] == ("var:pp_elem", "var:p_elem")) or
                   (t[0] == "call" and t[1] == "ABTD_atomic_relaxed_store_ptr" and t[2][0] == "var:pp_elem")]
            if pub and toks[pub[0]][1] != "ABTD_atomic_release_store_ptr":
                why.append("new element linked with a relaxed store (readers may see uninitialised fields)")
            al = idx(toks, is_call("ABTI_ktable_alloc_elem"))
            if held_at(toks, L, len(toks)):
                why.append("returns holding the table lock")
            if pub:
                n_app += 1
                inits = {t[1].split("::")[-1] for t in toks[:pub[0]] if t[0] == "st"} | \
                        {t[2].split("::")[-1] for t in toks[:pub[0]] if t[0] == "ast"}
                missing = {"f_destructor", "key_id", "value", "p_next"} - inits
                if missing:
                    why.append("element linked before %s were written" % sorted(missing))
                if safe:
                    if not held_at(toks, L, pub[0]):
                        why.append("element appended without the table lock")
                    acq = [i for i, t in enumerate(toks) if t[0] == "acq" and t[1] == L]
                    if acq:
                        rescan = [i for i, t in enumerate(toks) if t[0] == "decl" and t[1] == "p_elem" and
                                  "acquire_load_ptr(pp_elem)" in (t[2] or "") and acq[-1] < i < pub[0]]
                        tested = [i for i, t in enumerate(toks) if t[0] == "if" and t[1] == "p_elem" and acq[-1] < i < pub[0]]
                        if not rescan or not tested or toks[tested[-1]][2] is not False:
                            why.append("the chain is not re-read under the lock before appending (two concurrent first sets "
                                       "in one slot would unlink each other or duplicate the key)")
                if rv != 0:
                    why.append("error return after linking")
            elif rv == 0:
                # updated an existing element
                if not [t for t in toks if t[0] == "st" and t[1].endswith("::value")]:
                    why.append("success without storing the value")
            else:
                if [t for t in toks if t[0] == "st"]:
                    why.append("error path writes an element")
            rep.ob("R2" if safe else "R1", "ktable_set_impl(is_safe=%d) -> %s [%s]" % (safe, rtxt, show(toks)[-220:]), not why,
                   "; ".join(why), loc="%s:%d" % (F.file, F.line), site="set_impl/%d/%s/%d" % (safe, rtxt, len(toks)))
        rep.need(n_app >= 1, "ktable_set_impl(is_safe=%d): no appending path" % safe)
    # readers
    for fn in ("ABTI_ktable_get", "ABTI_ktable_set_impl"):
        G = P.fn(fn, KH)
        loads = [G.nodes[i]["fn"] for b, i in G.calls() if (G.nodes[i].get("fn") or "").startswith("ABTD_atomic_") and "_load_ptr" in G.nodes[i]["fn"]]
        rep.ob("R1", "%s traverses the table with acquire loads" % fn, bool(loads) and all("acquire" in x for x in loads), str(loads),
               loc=G.file, site="%s/acquire" % fn)
    S = P.fn("ABTI_ktable_set", KH)
    sel = seq.Sel(calls={"ABTI_ktable_create", "ABTI_ktable_set_impl", "ABTD_atomic_bool_cas_weak_ptr"}, fields=set(),
                  conds=lambda t: "abt_errno" in t or "cas" in t)
    pubs = [(S.nodes[i]["fn"], S.render(S.nodes[i]["a"][1])) for b, i in S.calls() if "store_ptr" in (S.nodes[i].get("fn") or "")]
    ok = ("ABTD_atomic_release_store_ptr", "p_ktable") in pubs and ("ABTD_atomic_release_store_ptr", "(void *)0") in pubs
    rep.ob("R1", "ABTI_ktable_set publishes the new table with a release store and resets the slot to NULL on failure", ok, str(pubs),
           loc=S.file, site="ktable_set/publish")
    cr = S.calls("ABTI_ktable_create")
    cas = S.calls("ABTD_atomic_bool_cas_weak_ptr")
    ok = len(cr) == 1 and len(cas) == 1 and cfg.dominates(S, cas[0][1], cr[0][1])
    rep.ob("R1", "the table is created only by the thread that won the NULL -> LOCKED CAS", ok, "", loc=S.file, site="ktable_set/cas")
    rep.min_instances("R2", 3)


def rule_R3(P, rep):
    Sf = P.fn("ABTI_ktable_set_impl", KH)
    Gf = P.fn("ABTI_ktable_get", KH)
    def slot(F):
        return [[F.render(a) for a in F.nodes[i]["a"]] for b, i in F.calls("ABTI_ktable_get_idx")]
    s, g = slot(Sf), slot(Gf)
    rep.ob("R3", "set and get compute the slot as ABTI_ktable_get_idx(p_key, p_ktable->size)", s == g == [["p_key", "p_ktable->size"]],
           "set %s get %s" % (s, g), loc=KH, site="slot-function")
    I = P.fn("ABTI_ktable_get_idx", KH)
    r = [terms.expand(I, I.nodes[i]["e"]) for b, i in I.all_events() if I.nodes[i].get("k") == "ret"]
    rep.ob("R3", "slot = key id masked by size-1", r == ["(p_key->id & (size - 1))"], str(r), loc=I.file, site="slot-mask")
    for F in (Sf, Gf):
        cmps = [F.render(b.tc) for b in F.blocks.values() if b.tc is not None and "key_id" in F.render(b.tc)]
        rep.ob("R3", "%s compares the element's key id with the key's id" % F.name, bool(cmps) and all(c == "p_elem->key_id == key_id" for c in cmps),
               str(cmps), loc=F.file, site="%s/keycmp" % F.name)
        kid = [F.render(i) for b, i in F.all_events() if F.nodes[i].get("k") == "decl" and any(v["n"] == "key_id" for v in F.nodes[i]["vars"])]
        rep.ob("R3", "%s takes key_id from the key" % F.name, any("p_key->id" in k for k in kid), str(kid), loc=F.file,
               site="%s/keyid" % F.name)
    # allocation covers exactly `size` slots
    C = P.fn("ABTI_ktable_create", KH)
    defs = terms.single_defs(C)
    size_store = [terms.expand(C, rh, defs=defs) for b, i, lh, rh in C.stores() if C.fieldpath(lh) == "ABTI_ktable::size"]
    ks = terms.expand(C, defs["ktable_size"], defs=defs) if "ktable_size" in defs else ""
    n = re.sub(r"[()\s]", "", ks)
    cnt = re.sub(r"[()\s]", "", size_store[0]) if size_store else "?"
    ok = bool(size_store) and ("sizeofABTD_atomic_ptr*" + cnt) in n and "offsetof" in ks or (bool(size_store) and re.search(r"\*%s[,)]?" % re.escape(cnt), n) is not None and (cnt + "-1") not in n and (cnt + "+") not in n)
    rep.ob("R3", "the table is allocated for exactly the number of slots it records (p_elems[size])", bool(ok),
           "allocation size %s ; recorded size %s" % (ks, size_store), loc=C.file, site="ktable_create/slots")
    ms = [[C.render(a) for a in C.nodes[i]["a"]] for b, i in C.calls() if (C.nodes[i].get("fn") or "").endswith("memset") or "memset" in (C.nodes[i].get("fn") or "")]
    ok = bool(ms) and all("key_table_size" in m[2] and "- 1" not in m[2] for m in ms)
    rep.ob("R3", "all recorded slots are cleared at creation", ok, str(ms), loc=C.file, site="ktable_create/memset")


def rule_R4(P, rep):
    F = P.fn("ABTI_ktable_free", "src/key.c")
    sel = seq.Sel(calls={"ABTI_mem_free_desc", "ABTU_free"}, indirect=True,
                  conds=lambda t: "f_destructor" in t or "value" in t or "is_from_mempool" in t or t in ("p_elem", "p_header"))
    n = 0
    for toks, kind, rv, rtxt in seq.sequences(F, sel, max_repeat=2, max_len=80):
        if kind != "ret":
            continue
        why = []
        for i, t in enumerate(toks):
            if t[0] == "icall":
                n += 1
                call = F.nodes[t[-1]]
                if F.render(call["fe"]) != "p_elem->f_destructor" or [F.render(a) for a in call["a"]] != ["p_elem->value"]:
                    why.append("destructor invoked as %s(%s)" % (F.render(call["fe"]), [F.render(a) for a in call["a"]]))
                pre = [u for u in toks[:i] if u[0] == "if"][-2:]
                if not (len(pre) == 2 and "f_destructor" in pre[0][1] and pre[0][2] and "value" in pre[1][1] and pre[1][2]):
                    why.append("destructor call not guarded by `f_destructor && value`")
            if t[0] == "call" and t[1] in ("ABTI_mem_free_desc", "ABTU_free"):
                g = [u for u in toks[:i] if u[0] == "if" and "is_from_mempool" in u[1]]
                if not g or (t[1] == "ABTI_mem_free_desc") != g[-1][2]:
                    why.append("%s used for a block whose recorded provenance says otherwise" % t[1])
        # destructors before any block is returned
        fr = [i for i, t in enumerate(toks) if t[0] == "call"]
        ds = [i for i, t in enumerate(toks) if t[0] == "icall"]
        if fr and ds and max(ds) > min(fr):
            why.append("a destructor runs after table memory was released")
        shape = "%d destructor call(s), %d block release(s)" % (len(ds), len(fr))
        rep.ob("R4", "ktable_free paths with %s" % shape, not why, "; ".join(why), loc="%s:%d" % (F.file, F.line),
               site="ktable_free/%s" % shape)
    rep.need(n >= 1, "ktable_free never calls a destructor")
    # each element visited once: the traversal advances with p_next of the same element
    adv = [F.render(i) for b, i, lh, rh in F.stores() if F.render(lh) == "p_elem"]
    rep.ob("R4", "element traversal advances through p_elem->p_next", any("p_elem->p_next" in a for a in adv), str(adv), loc=F.file,
           site="ktable_free/advance")
    sub = type(rep)(rep.prop, rep.tier, rep.variant)
    C03.rule_R5(P, sub)
    for o in sub.obligations:
        if o["instance"].startswith("thread_free"):
            rep.ob("R4", o["instance"], o["ok"], o["detail"], o["loc"], site="R4/" + o["instance"][:120])


def run(P, rep, tier):
    common.run_shared(P, rep, which=("X1", "X2"))
    rule_R1_R2(P, rep)
    rule_R3(P, rep)
    rule_R4(P, rep)
