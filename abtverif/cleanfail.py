"""Clean failure: when a fallible step of a routine fails, the routine returns the error without
having changed (or after having restored) the objects it was handed.

Path-sensitive typestate over one function.  State = (dirty, failed):
  dirty   the set of access paths, rooted at a parameter / global / handle-to-pointer getter of a
          parameter, that the path has written so far (plain stores, ++/--, atomic store / RMW / CAS
          wrappers);
  failed  None until the path takes the `result != ABT_SUCCESS` branch of a call to a function that
          may fail for lack of memory; from then on the snapshot of `dirty` at that branch, from
          which later stores to the same path (the undo) are removed.
At an error return with a non-empty snapshot the function leaves a pre-existing object modified by a
call that reports failure.  Objects created on the path (locals passed by address to a call, i.e.
out-parameters, and everything reached through them) are not pre-existing: they are discarded on
failure and covered by the leak rule instead.
"""
import re

from . import canon, cfg, errflow
from .cfg import Typestate, simulate

ATOMIC_WRITE = re.compile(r"^ABTD_atomic_(relaxed_store|release_store|fetch_|exchange|bool_cas|val_cas|test_and_set|"
                          r"relaxed_clear|release_clear)")
GETTER = re.compile(r"^ABTI_\w+_get_ptr$|^ABTI_global_get_global$|^ABTI_local_get_|^ABTI_xstream_get_local$")


def mem_fallible(P):
    """Functions from which an allocation entry point is reachable (call graph), i.e. whose error
    return may be an allocation failure."""
    cache = getattr(P, "_memfallible", None)
    if cache is not None:
        return cache
    alloc = set(errflow.ALLOCATORS)
    callers = P.callers()
    seen = set()
    work = []
    for key in list(callers):
        name = key.split(":")[-1]
        if name in alloc:
            work.append(key)
    names = set(alloc)
    while work:
        k = work.pop()
        for c in callers.get(k, ()):
            if c in seen:
                continue
            seen.add(c)
            F = P.functions.get(c)
            if F is None:
                continue
            if F.ret == "int":
                names.add(F.name)
                work.append(c)
    P._memfallible = names
    return names


def _fresh_locals(F):
    """Locals that receive objects created on the path: passed by address to a call."""
    out = set()
    for _b, c in F.calls():
        out.update(errflow.out_params(F, c))
    return out


def root_of(F, node, fresh, params):
    """(kind, path): kind in {'pre', 'fresh', 'local'}."""
    path = canon.rooted(F, node)
    m = re.match(r"^[&*(]*([A-Za-z_]\w*)", path)
    head = m.group(1) if m else path
    base = F.base_var(node)
    if head in params and ("->" in path or "*" in path or "[" in path):
        return "pre", path
    if GETTER.match(head):
        return "pre", path
    n = F.nodes[F.strip(node)]
    # global variable
    st = F.strip(node)
    x = st
    while x is not None and x >= 0:
        nd = F.nodes[x]
        k = nd.get("k")
        if k == "ref":
            if nd.get("dk") == "global":
                return "pre", path
            break
        if k == "mem":
            x = F.strip(nd["b"])
        elif k in ("un", "cast", "load"):
            x = F.strip(nd["e"])
        elif k == "idx":
            x = F.strip(nd["b"])
        else:
            break
    if base in fresh or head in fresh:
        return "fresh", path
    if "->" in path or "*" in path:
        # a pointer obtained from somewhere else (call result, field of a pre-existing object)
        if "(" in head or "::" in path.split("->")[0]:
            return "pre", path
    return "local", path


def write_summary(P, G):
    """Fields of pre-existing objects a (non-flattened) callee writes directly through its
    parameters: [(param index, 'suffix after the parameter', (record, field))].  One level only."""
    cache = P.__dict__.setdefault("_cf_summaries", {})
    if G.key in cache:
        return cache[G.key]
    out = []
    cache[G.key] = out
    params = [p["n"] for p in G.params]
    fresh = _fresh_locals(G)
    for nid, nd in enumerate(G.nodes):
        if not nd:
            continue
        k = nd.get("k")
        tgt = None
        if k == "bin" and nd.get("asg"):
            tgt = nd["lh"]
        elif k == "un" and nd["op"] in ("post++", "post--", "pre++", "pre--"):
            tgt = nd["e"]
        elif k == "call" and nd.get("fn") and ATOMIC_WRITE.match(nd["fn"]) and nd["a"]:
            tgt = nd["a"][0]
        if tgt is None or G.block_of(nid) is None:
            continue
        kind, path = root_of(G, tgt, fresh, set(params))
        if kind != "pre":
            continue
        key = re.sub(r"^[&*]+", "", path)
        m = re.match(r"^([A-Za-z_]\w*)(->.*)$", key)
        fo = G.field_of(tgt)
        if m and m.group(1) in params and fo:
            out.append((params.index(m.group(1)), m.group(2), fo))
    return out


class CleanFailTS(Typestate):
    track_facts = True

    def __init__(self, P, F):
        self.P, self.F = P, F
        self.init = (frozenset(), None)
        self.fallible = mem_fallible(P)
        self.fresh = _fresh_locals(F)
        self.params = set(p["n"] for p in F.params)
        self.findings = {}
        self.sites = 0
        self.via = {}       # (key, call node) -> (record, field) written by the callee

    def _write(self, st, node, nid):
        kind, path = root_of(self.F, node, self.fresh, self.params)
        if kind != "pre":
            return st
        dirty, failed = st
        key = re.sub(r"^[&*]+", "", path)
        if failed is not None:
            failed = frozenset(x for x in failed if x[0] != key)
            return (dirty, failed)
        return (dirty | {(key, nid)}, failed)

    def _write_path(self, st, argnode, suffix, fo, nid):
        kind, path = root_of(self.F, argnode, self.fresh, self.params)
        root = re.sub(r"^[&*]+", "", path)
        # the argument itself must designate a pre-existing object (a parameter, a getter result, or a
        # pointer loaded from one)
        an = self.F.nodes[self.F.strip(argnode)]
        if kind != "pre" and not (an.get("k") == "ref" and an.get("dk") == "param"):
            return st
        dirty, failed = st
        key = root + suffix
        if failed is not None:
            return (dirty, frozenset(x for x in failed if x[0] != key))
        self.via[(key, nid)] = fo
        return (dirty | {(key, nid)}, failed)

    def event(self, F, nid, st, ctx):
        nd = F.nodes[nid]
        k = nd.get("k")
        if k == "bin" and nd.get("asg"):
            return self._write(st, nd["lh"], nid)
        if k == "un" and nd["op"] in ("post++", "post--", "pre++", "pre--"):
            return self._write(st, nd["e"], nid)
        if k == "call" and nd.get("fn") and ATOMIC_WRITE.match(nd["fn"]) and nd["a"]:
            return self._write(st, nd["a"][0], nid)
        if k == "call" and nd.get("fn") and nd["fn"] not in self.fallible:
            # a helper that writes fields of the object it is given (one level)
            G = self.P.resolve_call(F, nd)
            if G is not None and G.blocks:
                for k_arg, suffix, fo in write_summary(self.P, G):
                    if k_arg < len(nd["a"]):
                        st = self._write_path(st, nd["a"][k_arg], suffix, fo, nid)
        return st

    def edge(self, F, bid, key, truth, st, ctx):
        if ctx.cond_node is None:
            return st
        dirty, failed = st
        if failed is not None:
            return st
        lab, flip = canon.cond(F, ctx.cond_node)
        val = bool(ctx.cond_val) != flip
        m = re.match(r"^([A-Za-z_]\w*)\(", lab)
        if m and m.group(1) in self.fallible and val and " " not in lab.split("(")[0]:
            # `call(...)` is the whole label: the result compared with 0 (ABT_SUCCESS); true = failed
            if self._is_whole_call(lab):
                self.sites += 1
                return (dirty, frozenset(dirty))
        return st

    @staticmethod
    def _is_whole_call(lab):
        depth = 0
        for i, ch in enumerate(lab):
            if ch == "(":
                depth += 1
            elif ch == ")":
                depth -= 1
                if depth == 0:
                    return i == len(lab) - 1
        return False

    def exit(self, F, kind, nid, st, ctx):
        dirty, failed = st
        if kind != "ret" or not failed:
            return
        rv = ctx.value(F.nodes[nid]["e"]) if nid is not None and "e" in F.nodes[nid] else None
        if rv == 0:
            return          # the failure was absorbed: the routine reports success
        for key, wnid in failed:
            self.findings.setdefault((key, wnid), nid)


def analyse(P, F):
    ts = CleanFailTS(P, F)
    simulate(F, ts, max_states=400000)
    return ts
