"""Semantic token sequences of all paths of a (small) function, plus predicates
over them.  Rules are phrased on these sequences; they are computed from the CFG
facts (resolved callees, field identities), never from source text."""
import re

from . import canon, paths, tables
from .build import AnalysisBroken


def _through_pointer_temp(F, arg):
    """A local that only holds the address of a sub-object (`p = &obj->field`) stands for that
    sub-object: return the defining `&...` node, else the argument itself."""
    n = F.nodes[F.strip(arg)]
    hops = 0
    while n.get("k") == "ref" and n.get("dk") == "var" and hops < 3:
        d = canon.reaching_def(F, n["n"], arg)
        if not isinstance(d, int):
            break
        dn = F.nodes[F.strip(d)]
        if dn.get("k") == "un" and dn["op"] == "&" and F.nodes[F.strip(dn["e"])].get("k") in ("mem", "idx"):
            return d
        if dn.get("k") == "ref" and dn.get("dk") == "var":
            arg, n = d, dn
            hops += 1
            continue
        break
    return arg


def lockpath(F, arg):
    """Variable-name independent identity of a lock argument: 'ABTI_cond::lock' for
    &p_cond->lock (also through a pointer temporary), 'var:p_lock' for a plain pointer variable."""
    fp = F.fieldpath(_through_pointer_temp(F, arg))
    return fp[1:] if fp.startswith("&") else fp


def argpaths(F, nd):
    out = []
    for a in nd["a"]:
        n = F.nodes[F.strip(a)]
        if "cv" in n and n.get("k") != "ref":
            out.append(str(n["cv"]))
        elif n.get("k") == "ref" and n.get("dk") == "enum":
            out.append(n["n"])
        else:
            fp = F.fieldpath(_through_pointer_temp(F, a))
            out.append(fp)
    return tuple(out)


class Sel:
    """Configurable token selector.
    calls:   set of callee names (or predicate) to record as ('call', fn, argpaths, nid)
    fields:  set of field names / 'Rec::field' whose stores are recorded as
             ('st', path, op, value, nid); atomic store/RMW wrappers on them as
             ('ast', wrapper, path, value, nid)
    conds:   predicate(text) -> bool selecting branch conditions recorded as
             ('if', text, truth); text is the rendered condition atom
    locks:   record lock primitives as ('acq'|'rel', lockpath, nid) / ('xfer', fn, lockpath, nid)
    indirect: record indirect calls as ('icall', slot fieldpath, argpaths, nid)
    """

    def __init__(self, calls=(), fields=(), conds=None, locks=True, indirect=False, rets=False,
                 decls=(), assigns=(), derefs=(), canon=False, reads=()):
        # canon=True: conditions (and non-constant stored values) are rendered by abtverif.canon:
        # independent of local names and of the polarity of the test; `conds` then sees that label
        self.canon = canon
        # reads: fields whose reads are recorded as ('rd', 'Rec::field', atomic wrapper or None, nid)
        self.reads = set(reads)
        self.want_loads = bool(self.reads)
        self.calls = calls
        self.fields = set(fields)
        self.conds = conds
        self.locks = locks
        self.indirect = indirect
        self.rets = rets
        self.decls = set(decls)
        self.assigns = set(assigns)   # local variables whose plain assignments are recorded like decls
        self.derefs = set(derefs)     # pointer parameters: stores through `*p` / `p[i]` become ('dst', p, value, nid)

    def _want_call(self, fn):
        if callable(self.calls):
            return self.calls(fn)
        return fn in self.calls

    def _want_field(self, F, node):
        fo = F.field_of(node)
        if not fo:
            return None
        if fo[1] in self.fields or ("%s::%s" % fo) in self.fields:
            return "%s::%s" % fo
        return None

    def _deref_of(self, F, lh):
        n = F.nodes[F.strip(lh)]
        if n.get("k") == "un" and n["op"] == "*":
            b = F.nodes[F.strip(n["e"])]
            if b.get("k") == "ref" and b["n"] in self.derefs:
                return b["n"]
        if n.get("k") == "idx":
            b = F.nodes[F.strip(n["b"])]
            if b.get("k") == "ref" and b["n"] in self.derefs:
                return b["n"]
        return None

    def select(self, F, nid, ctx):
        nd = F.nodes[nid]
        k = nd.get("k")
        out = []
        if k == "load" and self.reads:
            fo = F.field_of(nd["e"]) if F.nodes[nd["e"]].get("k") == "mem" else None
            if fo and (fo[1] in self.reads or "%s::%s" % fo in self.reads):
                return ("rd", "%s::%s" % fo, None, nid)
            return None
        if k == "call":
            fn = nd.get("fn")
            if fn and self.reads and fn.startswith("ABTD_atomic_") and "_load_" in fn and nd["a"]:
                fo = F.field_of(nd["a"][0])
                if fo and (fo[1] in self.reads or "%s::%s" % fo in self.reads):
                    return ("rd", "%s::%s" % fo, fn, nid)
            if fn and self.locks:
                if fn in tables.LOCK_ACQUIRE:
                    return ("acq", lockpath(F, nd["a"][tables.LOCK_ACQUIRE[fn]]), nid)
                if fn in tables.LOCK_RELEASE:
                    return ("rel", lockpath(F, nd["a"][tables.LOCK_RELEASE[fn]]), nid)
                if fn in tables.LOCK_RELEASE_TRANSFER:
                    return ("xfer", fn, lockpath(F, nd["a"][tables.LOCK_RELEASE_TRANSFER[fn]]),
                            argpaths(F, nd), nid)
                if fn in tables.LOCK_COND_ACQUIRE:
                    return ("try", fn, lockpath(F, nd["a"][tables.LOCK_COND_ACQUIRE[fn]]), nid)
            if fn and fn.startswith("ABTD_atomic_") and nd["a"] and self.fields:
                p = self._want_field(F, nd["a"][0])
                if p and not re.search(r"_load_", fn):
                    val = None
                    if len(nd["a"]) > 1:
                        val = ctx.value(nd["a"][-1])
                        if val is None:
                            val = self._txt(F, nd["a"][-1])
                    return ("ast", fn, p, val, nid)
            if fn and self._want_call(fn):
                return ("call", fn, argpaths(F, nd), nid)
            if not fn and self.indirect:
                return ("icall", F.fieldpath(nd["fe"]), argpaths(F, nd), nid)
        elif k == "bin" and nd.get("asg") and self.assigns and nd["op"] == "=" and \
                F.nodes[F.strip(nd["lh"])].get("k") == "ref" and F.nodes[F.strip(nd["lh"])]["n"] in self.assigns:
            return ("decl", F.nodes[F.strip(nd["lh"])]["n"], self._txt(F, nd["rh"]), nid)
        elif k == "bin" and nd.get("asg") and self.derefs and self._deref_of(F, nd["lh"]):
            v = ctx.value(nd["rh"])
            return ("dst", self._deref_of(F, nd["lh"]), v if v is not None else self._txt(F, nd["rh"]), nid)
        elif k == "bin" and nd.get("asg") and self.fields:
            p = self._want_field(F, nd["lh"])
            if p:
                v = ctx.value(nd["rh"])
                if v is None:
                    v = self._txt(F, nd["rh"])
                return ("st", p, nd["op"], v, nid)
        elif k == "un" and self.fields and nd["op"] in ("post++", "post--", "pre++", "pre--"):
            p = self._want_field(F, nd["e"])
            if p:
                return ("st", p, nd["op"][-2:], None, nid)
        elif k == "decl" and self.decls:
            for v in nd["vars"]:
                if v["n"] in self.decls:
                    out.append(("decl", v["n"], self._txt(F, v["init"]) if "init" in v else None, nid))
            return out or None
        elif k == "ret" and self.rets:
            return ("ret", ctx.value(nd["e"]) if "e" in nd else None, nid)
        return None

    def _txt(self, F, i):
        return canon.expr(F, i) if self.canon else F.render(i)

    def edge_select(self, F, bid, key, truth, ctx):
        if self.conds is not None and self.canon and ctx.cond_node is None and getattr(ctx, "switch", None):
            # `case E:` of `switch (x)` reads like the test `x == E` being true (an if-chain gives the same token)
            node, cname, cval, others = ctx.switch
            if cval is None:
                return None
            text = "%s == %s" % (canon.expr(F, node), cname if cname else cval)
            try:
                r = self.conds(text, F, node)
            except TypeError:
                r = self.conds(text)
            if isinstance(r, tuple):
                return ("if", r[0], not bool(r[1]), bid)
            if isinstance(r, str):
                return ("if", r, True, bid)
            return ("if", text, True, bid) if r else None
        if self.conds is None or ctx.cond_node is None:
            return None
        if self.canon:
            cn = F.nodes[F.strip(ctx.cond_node)]
            if cn.get("k") == "ref" and cn.get("dk") == "var" and cn.get("n", "").startswith("ret_") and \
                    any(cn["n"] == "ret_" + h or cn["n"].startswith("ret_%s__i" % h) for h in getattr(F.prog, "inlined", {})) and \
                    ctx.value(ctx.cond_node) is not None:
                # the result temporary of a flattened helper whose value the path has already decided
                # (each `return` of the helper assigned a constant or a decided ternary): the tests that
                # decided it are on the path; this branch adds nothing
                return None
            text, flip = canon.cond(F, ctx.cond_node)
            val = bool(ctx.cond_val) != flip
            try:
                r = self.conds(text, F, ctx.cond_node)
            except TypeError:
                r = self.conds(text)
            if isinstance(r, tuple):     # (label, flip): the rule's own label with its own polarity
                return ("if", r[0], val != bool(r[1]), bid)
            if isinstance(r, str):
                return ("if", r, val, bid)
            return ("if", text, val, bid) if r else None
        text = F.render(ctx.cond_node)
        try:
            r = self.conds(text, F, ctx.cond_node)
        except TypeError:
            r = self.conds(text)
        if isinstance(r, str):
            return ("if", r, bool(ctx.cond_val), bid)
        if r:
            return ("if", text, bool(ctx.cond_val), bid)
        return None


def sequences(F, sel, max_len=80, max_repeat=2, entry_consts=None, start=None):
    """[(tokens, kind, rv, rtxt)] for all paths; kind in {'ret','noret'}."""
    ps = paths.enumerate_paths(F, sel.select, sel.edge_select if sel.conds else None,
                               max_len=max_len, max_repeat=max_repeat, entry_consts=entry_consts, start=start)
    return ps


# ---- predicates over a token sequence ----------------------------------------

def idx(seq, pred):
    return [i for i, t in enumerate(seq) if pred(t)]


def is_call(fn):
    if isinstance(fn, (set, frozenset, list, tuple)):
        return lambda t: t[0] == "call" and t[1] in fn
    return lambda t: t[0] == "call" and t[1] == fn


def is_acq(lock):
    return lambda t: t[0] == "acq" and t[1] == lock


def is_rel(lock):
    return lambda t: t[0] in ("rel",) and t[1] == lock


def is_xfer(lock):
    return lambda t: t[0] == "xfer" and t[2] == lock


def held_at(seq, lock, i, entry_held=False):
    """Is `lock` held just before token i, following acq/rel/xfer tokens?"""
    held = entry_held
    for t in seq[:i]:
        if t[0] == "acq" and t[1] == lock:
            held = True
        elif t[0] == "rel" and t[1] == lock:
            held = False
        elif t[0] == "xfer" and t[2] == lock:
            held = False
    return held


def has_if(seq, text, truth):
    return any(t[0] == "if" and t[1] == text and t[2] == truth for t in seq)


def count_if(seq, text, truth):
    return sum(1 for t in seq if t[0] == "if" and t[1] == text and t[2] == truth)


def show(seq):
    out = []
    for t in seq:
        if t[0] in ("acq", "rel"):
            out.append("%s(%s)" % (t[0], t[1]))
        elif t[0] == "xfer":
            out.append("%s[releases %s]" % (t[1], t[2]))
        elif t[0] == "try":
            out.append("try(%s)" % t[2])
        elif t[0] == "call":
            out.append("%s(%s)" % (t[1], ",".join(t[2])))
        elif t[0] == "icall":
            out.append("(*%s)(%s)" % (t[1], ",".join(t[2])))
        elif t[0] == "st":
            out.append("%s %s %s" % (t[1], t[2], t[3]))
        elif t[0] == "ast":
            out.append("%s(%s, %s)" % (t[1], t[2], t[3]))
        elif t[0] == "if":
            out.append("[%s%s]" % ("" if t[2] else "!", t[1]))
        elif t[0] == "decl":
            out.append("%s := %s" % (t[1], t[2]))
        elif t[0] == "dst":
            out.append("*%s = %s" % (t[1], t[2]))
        elif t[0] == "ret":
            out.append("return %s" % t[1])
        elif t[0] == "rd":
            out.append("read %s%s" % (t[1], " (%s)" % t[2] if t[2] else ""))
        else:
            out.append(str(t))
    return " ; ".join(out)


def strip_ids(seq):
    """Token sequence without node ids (stable signature)."""
    return tuple(tuple(x for x in t[:-1]) if isinstance(t[-1], int) and t[0] != "if" else t for t in seq)


def atomic_cmp(F, node, field, consts=None):
    """Structural label for a condition comparing an atomic load of `field`
    ('Rec::name') with a constant: returns (order, op, value) or None.  Used so
    that rules do not depend on variable names."""
    nd = F.nodes[F.strip(node)]
    if nd.get("k") != "bin" or nd["op"] not in ("==", "!="):
        return None
    for a, b in ((nd["lh"], nd["rh"]), (nd["rh"], nd["lh"])):
        an = F.nodes[F.strip(a)]
        bn = F.nodes[F.strip(b)]
        if an.get("k") == "call" and (an.get("fn") or "").startswith("ABTD_atomic_") and "_load_" in an["fn"] and an["a"]:
            fo = F.field_of(an["a"][0])
            if fo and "%s::%s" % fo == field and "cv" in bn:
                order = "acquire" if "acquire" in an["fn"] else "relaxed"
                return (order, nd["op"], bn["cv"])
    return None


def macros_in(F, node):
    """Names of the macros whose expansion produced any part of expression `node`."""
    out = set()
    for d in F.descendants(node):
        for m in F.nodes[d].get("m", ()):
            out.add(m)
    return out
