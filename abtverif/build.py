"""Compile database + fact extraction for /repo's current working tree.

Nothing here executes argobots code.  `make -n` only prints the compile lines
(-o keeps make from regenerating the build system), the extractor parses each
unit with the real flags, and the result is cached under /verif/build keyed by
a hash of every source/header/flag that went in.
"""
import hashlib
import json
import os
import re
import shlex
import shutil
import subprocess
import sys
import time
from concurrent.futures import ThreadPoolExecutor

VERIF = os.path.dirname(os.path.dirname(os.path.abspath(__file__)))
REPO = os.environ.get("ABT_REPO", "/repo")
BUILD = os.path.join(VERIF, "build")
TOOL = os.path.join(BUILD, "abtfacts")
GUARD = "PMODELS_ARGOBOTS_VERIF"


class AnalysisBroken(Exception):
    """Raised when the analysis itself cannot run (exit code 2)."""


def _run(cmd, **kw):
    return subprocess.run(cmd, stdout=subprocess.PIPE, stderr=subprocess.PIPE,
                          universal_newlines=True, **kw)


def resource_dir():
    r = _run(["clang-14", "-print-resource-dir"])
    return r.stdout.strip()


def ensure_tool():
    src = os.path.join(VERIF, "tools", "abtfacts.cc")
    if os.path.exists(TOOL) and os.path.getmtime(TOOL) >= os.path.getmtime(src):
        return
    os.makedirs(BUILD, exist_ok=True)
    cxxflags = _run(["llvm-config-14", "--cxxflags"]).stdout.split()
    cmd = (["clang++"] + cxxflags + ["-fno-rtti", "-O1", src, "-o", TOOL + ".tmp",
           "/usr/lib/llvm-14/lib/libclang-cpp.so.14",
           "/usr/lib/llvm-14/lib/libLLVM-14.so"])
    r = _run(cmd)
    if r.returncode != 0:
        raise AnalysisBroken("cannot build abtfacts: " + r.stderr[-2000:])
    os.replace(TOOL + ".tmp", TOOL)


def ensure_configured(repo=REPO):
    cfg = os.path.join(repo, "src", "include", "abt_config.h")
    if os.path.exists(cfg) and os.path.exists(os.path.join(repo, "src", "Makefile")):
        return
    if os.path.exists(os.path.join(repo, "config.status")):
        r = _run(["./config.status"], cwd=repo)
    else:
        r = _run(["./configure"], cwd=repo)
    if r.returncode != 0 or not os.path.exists(cfg):
        raise AnalysisBroken("cannot configure %s: %s" % (repo, r.stderr[-1000:]))


def compile_db(repo=REPO):
    """[(unit path relative to repo, [flags])] from `make -n` (prints only)."""
    ensure_configured(repo)
    src = os.path.join(repo, "src")
    # `make -n -B` would *execute* the rules that remake included makefiles (automake's
    # .deps/*.Plo are rewritten to "# dummy", which silently breaks header dependency
    # tracking of /repo's own build).  `-W <source>` (what-if) prints the same compile
    # lines without touching anything.
    whatif = []
    for root, _dirs, files in os.walk(src):
        for fn in files:
            if fn.endswith((".c", ".S")):
                whatif += ["-W", os.path.relpath(os.path.join(root, fn), src)]
    cmd = ["make", "-n"] + whatif + ["libabt.la"]
    r = _run(cmd, cwd=src)
    units = []
    for line in r.stdout.splitlines():
        m = re.search(r"--mode=compile\s+(\S+)\s+(.*)", line)
        if not m:
            continue
        rest = m.group(2)
        rest = re.sub(r"`test -f '([^']+)' \|\| echo '\./'`\S+", r"\1", rest)
        toks = shlex.split(rest)
        flags, srcfile = [], None
        i = 0
        while i < len(toks):
            t = toks[i]
            if t in ("-MT", "-MF", "-o"):
                i += 2
                continue
            if t in ("-MD", "-MP", "-c"):
                i += 1
                continue
            if t.endswith(".c") or t.endswith(".S"):
                srcfile = t
            else:
                flags.append(t)
            i += 1
        if srcfile:
            units.append((os.path.join("src", srcfile), flags))
    if len(units) < 40:
        raise AnalysisBroken("compile database has only %d units: %s" %
                             (len(units), r.stderr[-500:]))
    return units


def _hash_tree(repo, units, extra):
    h = hashlib.sha256()
    h.update(json.dumps(extra, sort_keys=True).encode())
    with open(os.path.join(VERIF, "tools", "abtfacts.cc"), "rb") as f:
        h.update(f.read())
    paths = []
    for root, _dirs, files in os.walk(os.path.join(repo, "src")):
        for fn in files:
            if fn.endswith((".c", ".h", ".S")):
                paths.append(os.path.join(root, fn))
    paths.sort()
    for p in paths:
        h.update(p.encode())
        with open(p, "rb") as f:
            h.update(hashlib.sha256(f.read()).digest())
    for u, fl in units:
        h.update(u.encode())
        h.update(" ".join(fl).encode())
    return h.hexdigest()


# ---------------------------------------------------------------------------
# configuration variants (thorough tier): shadow include directory

VARIANTS = {
    "default": {},
    "active_wait": {"define": ["ABT_CONFIG_ACTIVE_WAIT_POLICY"]},
    "simple_mutex": {"define": ["ABT_CONFIG_USE_SIMPLE_MUTEX"]},
    "no_ext_thread": {"define": ["ABT_CONFIG_DISABLE_EXT_THREAD"]},
    "lazy_stack": {"undef": ["ABT_CONFIG_DISABLE_LAZY_STACK_ALLOC"]},
    "no_pthread_barrier": {"undef": ["HAVE_PTHREAD_BARRIER_INIT"]},
    "no_linux_futex": {"undef": ["ABT_CONFIG_USE_LINUX_FUTEX"]},
    "no_mem_pool": {"undef": ["ABT_CONFIG_USE_MEM_POOL"]},
    "no_error_check": {"define": ["ABT_CONFIG_DISABLE_ERROR_CHECK"]},
    "tool_interface": {"undef": ["ABT_CONFIG_DISABLE_TOOL_INTERFACE"]},
}


def _shadow_include(repo, name, spec, dest):
    inc = os.path.join(repo, "src", "include")
    if os.path.isdir(dest):
        shutil.rmtree(dest)
    os.makedirs(dest)
    for fn in os.listdir(inc):
        p = os.path.join(inc, fn)
        if fn == "abt_config.h":
            continue
        os.symlink(p, os.path.join(dest, fn))
    text = open(os.path.join(inc, "abt_config.h")).read()
    for u in spec.get("undef", []):
        text, n = re.subn(r"(?m)^#define\s+%s\b.*$" % re.escape(u),
                          "/* #undef %s (variant %s) */" % (u, name), text)
    for d in spec.get("define", []):
        if not re.search(r"(?m)^#define\s+%s\b" % re.escape(d), text):
            text = re.sub(r"(?m)^/\* #undef %s \*/$" % re.escape(d),
                          "#define %s 1" % d, text)
            if not re.search(r"(?m)^#define\s+%s\b" % re.escape(d), text):
                text = text.replace("#endif /* ABT_CONFIG_H_INCLUDED */",
                                    "#define %s 1\n#endif /* ABT_CONFIG_H_INCLUDED */" % d)
                if not re.search(r"(?m)^#define\s+%s\b" % re.escape(d), text):
                    text += "\n#define %s 1\n" % d
    with open(os.path.join(dest, "abt_config.h"), "w") as f:
        f.write(text)


def unit_flags(repo, flags, variant="default", shadow=None):
    out = ["clang", "-resource-dir=" + resource_dir()]
    srcdir = os.path.join(repo, "src")
    for t in flags[1:] if flags and not flags[0].startswith("-") else flags:
        if t.startswith("-I"):
            p = os.path.normpath(os.path.join(srcdir, t[2:]))
            if shadow and p == os.path.join(repo, "src", "include"):
                p = shadow
            t = "-I" + p
        out.append(t)
    out += ["-std=gnu11", "-UNDEBUG", "-D" + GUARD + "=1", "-Wno-everything"]
    return out


def extract(repo=REPO, variant="default", verbose=False):
    """Return the directory holding one facts JSON per unit for `variant`."""
    ensure_tool()
    units = compile_db(repo)
    spec = VARIANTS[variant]
    key = _hash_tree(repo, units, {"variant": variant, "spec": spec, "repo": repo})
    tag = hashlib.sha256(repo.encode()).hexdigest()[:8]
    outdir = os.path.join(BUILD, "facts", tag, variant)
    stamp = os.path.join(outdir, "STAMP")
    if os.path.exists(stamp) and open(stamp).read().strip() == key:
        return outdir, units, False
    # several checks may be started at the same time on the same tree: only one of them extracts a
    # (tree, variant) pair, the others wait for it and then find the stamp
    import fcntl
    os.makedirs(os.path.join(BUILD, "facts", tag), exist_ok=True)
    with open(os.path.join(BUILD, "facts", tag, variant + ".lock"), "w") as lockf:
        fcntl.flock(lockf, fcntl.LOCK_EX)
        return _extract_locked(repo, variant, verbose, units, spec, key, outdir, stamp)


def _extract_locked(repo, variant, verbose, units, spec, key, outdir, stamp):
    if os.path.exists(stamp) and open(stamp).read().strip() == key:
        return outdir, units, False
    if os.path.isdir(outdir):
        shutil.rmtree(outdir)
    os.makedirs(os.path.join(outdir, "hdr"))
    shadow = None
    if spec:
        shadow = os.path.join(outdir, "include")
        _shadow_include(repo, variant, spec, shadow)
    t0 = time.time()
    srcdir = os.path.join(repo, "src")

    def one(u):
        path, flags = u
        if not path.endswith(".c"):
            return None
        out = os.path.join(outdir, path.replace("/", "!") + ".json")
        cmd = [TOOL, "-o", out, "-hdr", os.path.join(outdir, "hdr"), "-root", repo,
               os.path.join(repo, path), "--"] + unit_flags(repo, flags, variant, shadow)
        r = _run(cmd, cwd=srcdir)
        if r.returncode != 0 or not os.path.exists(out):
            return (path, r.stderr[-1500:])
        return None

    with ThreadPoolExecutor(max_workers=os.cpu_count() or 4) as ex:
        errs = [e for e in ex.map(one, units) if e]
    if errs:
        raise AnalysisBroken("units failed to parse (variant %s): %s" %
                             (variant, "; ".join("%s: %s" % e for e in errs)[:3000]))
    # preprocess the assembly unit with the same flags
    for path, flags in units:
        if path.endswith(".S"):
            out = os.path.join(outdir, "asm.s")
            cmd = ["clang", "-E", "-P"] + [f for f in unit_flags(repo, flags, variant, shadow)[2:]
                                           if not f.startswith("-std=")] + \
                  [os.path.join(repo, path), "-o", out]
            r = _run(cmd, cwd=srcdir)
            if r.returncode != 0:
                raise AnalysisBroken("cannot preprocess %s: %s" % (path, r.stderr[-800:]))
            with open(os.path.join(outdir, "asm.path"), "w") as f:
                f.write(path)
    with open(stamp, "w") as f:
        f.write(key)
    if verbose:
        print("extracted %d units (%s) in %.1fs" % (len(units), variant, time.time() - t0),
              file=sys.stderr)
    return outdir, units, True


if __name__ == "__main__":
    v = sys.argv[1] if len(sys.argv) > 1 else "default"
    d, u, fresh = extract(variant=v, verbose=True)
    print(d, len(u), "fresh" if fresh else "cached")
