"""Flattening of helper functions the rules have no name for.

The rules name the functions they reason about (anchors, primitives, wrappers).  A function
that is NOT in the frozen vocabulary of the pinned tree (abtverif/vocabulary.txt) is by
construction unknown to every rule: typically a helper a refactoring extracted.  Treating a
call to it as an opaque call would hide the stores, lock operations and checks that moved
into it, so such a function is spliced into each of its callers before any rule runs:

  * the callee's expression nodes and CFG blocks are copied into the caller,
  * a parameter that the callee never assigns and whose argument is a stable expression
    (local variable, address computation over locals, constant) is replaced by the argument
    expression itself, with `*&x` and `(&x)->f` folded to `x` and `x.f`; any other parameter
    becomes a local initialised with the argument at the call,
  * callee locals keep their names unless they collide with a name of the caller,
  * `return e` becomes an assignment to a result temporary followed by a jump to the
    continuation block; the call expression becomes a read of that temporary.

Functions whose address is taken, that are recursive, or variadic are left alone.  A helper
that has been spliced into every caller is dropped from the program (it has no other use),
so who-may-write rules see its stores as stores of its callers.
"""
import copy
import os

from .facts import Block

VOCAB = os.path.join(os.path.dirname(os.path.abspath(__file__)), "vocabulary.txt")
MAX_COST = 6000       # blocks(callee) * call sites beyond which a helper stays an opaque call

_SCALAR = ("b", "e", "lh", "rh", "c", "th", "el", "fe", "i")


def load_vocabulary():
    if not os.path.exists(VOCAB):
        return None
    return set(l.strip() for l in open(VOCAB) if l.strip() and not l.startswith("#"))


def _remap(nd, f):
    """Copy of node dict `nd` with every node reference mapped through f."""
    k = nd.get("k")
    out = dict(nd)
    if k == "ilist":
        out["e"] = [f(x) for x in nd["e"]]
        return out
    for key in _SCALAR:
        v = out.get(key)
        if isinstance(v, int) and not isinstance(v, bool) and key in nd:
            if key == "c" and k != "cond":
                continue
            if key == "i" and k != "idx":
                continue
            if key == "b" and k not in ("mem", "idx"):
                continue
            out[key] = f(v)
    if "a" in nd and isinstance(nd["a"], list):
        out["a"] = [f(x) for x in nd["a"]]
    if "ch" in nd and isinstance(nd["ch"], list):
        out["ch"] = [f(x) for x in nd["ch"]]
    if k == "decl":
        vs = []
        for v in nd["vars"]:
            v = dict(v)
            if "init" in v:
                v["init"] = f(v["init"])
            vs.append(v)
        out["vars"] = vs
    return out


def _address_taken(P):
    """Names of functions referenced other than as the direct callee of a call."""
    taken = set()
    for F in P.functions.values():
        pm = F.parent_map()
        for i, nd in enumerate(F.nodes):
            if nd and nd.get("k") == "ref" and nd.get("dk") == "func" and i in pm:
                taken.add(nd["n"])
    for g in P.globals.values():
        for nd in g.get("nodes") or []:
            if nd and nd.get("k") == "ref" and nd.get("dk") == "func":
                taken.add(nd["n"])
    return taken


def _names_in(F):
    names = set(p["n"] for p in F.params)
    for nd in F.nodes:
        if not nd:
            continue
        if nd.get("k") == "decl":
            names.update(v["n"] for v in nd["vars"])
        elif nd.get("k") == "ref" and nd.get("dk") in ("var", "param"):
            names.add(nd["n"])
    return names


def _locals_of(G):
    out = set()
    for nd in G.nodes:
        if nd and nd.get("k") == "decl":
            out.update(v["n"] for v in nd["vars"])
    return out


def _assigned_params(G):
    ps = set(p["n"] for p in G.params)
    out = set()
    for i, nd in enumerate(G.nodes):
        if not nd:
            continue
        k = nd.get("k")
        tgt = None
        if k == "bin" and nd.get("asg"):
            tgt = nd["lh"]
        elif k == "un" and nd["op"] in ("&", "post++", "post--", "pre++", "pre--"):
            tgt = nd["e"]
        if tgt is not None and tgt >= 0:
            t = G.nodes[tgt]
            if t and t.get("k") == "ref" and t.get("n") in ps:
                out.add(t["n"])
    return out


def _addr_taken_locals(F):
    out = set()
    for nd in F.nodes:
        if nd and nd.get("k") == "un" and nd["op"] == "&":
            t = F.nodes[nd["e"]]
            if t and t.get("k") == "ref":
                out.add(t["n"])
    return out


def _stable(F, i, addr_locals, top=True):
    """Is expression i of the caller unaffected by anything the callee can do, and free of
    side effects?  (locals whose address never escapes, address arithmetic over them, constants)"""
    nd = F.nodes[i]
    k = nd.get("k")
    if k in ("int", "sizeof", "str", "float", "offsetof", "zero"):
        return True
    if k == "ref":
        if nd.get("dk") in ("enum", "func"):
            return True
        return nd.get("dk") in ("var", "param")
    if k == "load":
        t = F.nodes[nd["e"]]
        return t.get("k") == "ref" and t.get("dk") in ("var", "param") and t["n"] not in addr_locals
    if k == "cast":
        return _stable(F, nd["e"], addr_locals, False)
    if k == "un" and nd["op"] == "&":
        return _lvalue_stable(F, nd["e"], addr_locals)
    if k == "un" and nd["op"] in ("-", "~", "!", "+"):
        return _stable(F, nd["e"], addr_locals, False)
    if k == "bin" and not nd.get("asg") and nd["op"] in ("+", "-", "*", "|", "&", "<<", ">>"):
        return _stable(F, nd["lh"], addr_locals, False) and _stable(F, nd["rh"], addr_locals, False)
    return False


def _lvalue_stable(F, i, addr_locals):
    nd = F.nodes[i]
    k = nd.get("k")
    if k == "ref":
        return nd.get("dk") in ("var", "param", "global")
    if k == "mem":
        if nd["arrow"]:
            return _stable(F, nd["b"], addr_locals, False)
        return _lvalue_stable(F, nd["b"], addr_locals)
    if k == "idx":
        return _stable(F, nd["b"], addr_locals, False) and _stable(F, nd["i"], addr_locals, False) \
            if F.nodes[nd["b"]].get("k") != "ref" else _stable(F, nd["i"], addr_locals, False)
    if k == "un" and nd["op"] == "*":
        return _stable(F, nd["e"], addr_locals, False)
    return False


def _skip_casts_to_addr(F, i):
    """If node i is `&X` (no explicit cast in between), return the id of X."""
    nd = F.nodes[i]
    if nd and nd.get("k") == "un" and nd["op"] == "&":
        return nd["e"]
    return None


def inline_call(F, bid, call_id, G, counter):
    """Splice G at call node call_id (an element of block bid of F)."""
    B = F.blocks[bid]
    pos = B.elems.index(call_id)
    call = F.nodes[call_id]
    K = counter
    taken = _names_in(F)
    off = len(F.nodes)
    f = lambda x: x + off if isinstance(x, int) and x >= 0 else x
    new_nodes = [(_remap(nd, f) if nd else None) for nd in G.nodes]
    F.nodes.extend(new_nodes)

    def fresh(name):
        if name not in taken:
            taken.add(name)
            return name
        n = "%s__i%d" % (name, K)
        j = 0
        while n in taken:
            j += 1
            n = "%s__i%d_%d" % (name, K, j)
        taken.add(n)
        return n

    assigned = _assigned_params(G)
    addr_locals = _addr_taken_locals(F)
    pre_elems = []          # temporaries initialised at the call
    subst = {}              # param -> caller node id to substitute
    rename = {}             # callee name -> new name
    args = list(call.get("a", []))
    for k, p in enumerate(G.params):
        if k >= len(args):
            continue
        a = args[k]
        if p["n"] not in assigned and _stable(F, a, addr_locals):
            subst[p["n"]] = a
        else:
            nn = fresh(p["n"])
            rename[p["n"]] = nn
            F.nodes.append({"l": call.get("l"), "k": "decl", "vars": [{"n": nn, "t": p["t"], "init": a}], "inl": K})
            pre_elems.append(len(F.nodes) - 1)
    for ln in sorted(_locals_of(G)):
        if ln in rename:
            continue
        rename[ln] = fresh(ln)
    dead = set()
    lo, hi = off, off + len(G.nodes)
    # rename locals and non-substituted params
    for i in range(lo, hi):
        nd = F.nodes[i]
        if not nd:
            continue
        if nd.get("k") == "decl":
            for v in nd["vars"]:
                v["n"] = rename.get(v["n"], v["n"])
        elif nd.get("k") == "ref" and nd.get("dk") in ("var", "param") and nd["n"] in rename:
            nd["n"] = rename[nd["n"]]
            nd["dk"] = "var"
    # substitute `load(ref p)` by the argument expression
    for i in range(lo, hi):
        nd = F.nodes[i]
        if nd and nd.get("k") == "load":
            t = F.nodes[nd["e"]]
            if t and t.get("k") == "ref" and t.get("dk") == "param" and t["n"] in subst:
                dead.add(nd["e"])
                a = subst[t["n"]]
                rep = dict(F.nodes[a])
                rep["inl_arg"] = a
                F.nodes[i] = rep
    for i in dead:
        F.nodes[i] = {"l": F.nodes[i].get("l"), "k": "other", "cls": "InlinedParam", "ch": []}
    # fold *(&x) -> x and (&x)->f -> x.f
    changed = True
    while changed:
        changed = False
        for i in range(lo, hi):
            nd = F.nodes[i]
            if not nd:
                continue
            if nd.get("k") == "mem" and nd.get("arrow"):
                x = _skip_casts_to_addr(F, nd["b"])
                if x is not None:
                    nd["b"] = x
                    nd["arrow"] = 0
                    changed = True
            elif nd.get("k") == "un" and nd["op"] == "*":
                x = _skip_casts_to_addr(F, nd["e"])
                if x is not None:
                    rep = dict(F.nodes[x])
                    F.nodes[i] = rep
                    changed = True
    # result temporary
    void = G.ret.strip() == "void"
    rname = None
    if not void:
        rname = fresh("ret_%s" % G.name)
    # copy blocks
    boff = max(F.blocks) + 1
    bmap = {gb: gb + boff for gb in G.blocks}
    cont_id = max(bmap.values()) + 1
    # continuation block takes over the tail of B
    cont = Block({"id": cont_id, "e": [], "s": []})
    cont.elems = [call_id] + B.elems[pos + 1:]
    cont.succs = list(B.succs)
    cont.usuccs = list(B.usuccs)
    for attr in ("tk", "tc", "ts", "tl", "tm", "noret", "goto"):
        setattr(cont, attr, getattr(B, attr))
    B.elems = B.elems[:pos] + pre_elems
    B.succs = [bmap[G.entry]]
    B.usuccs = []
    B.tk = B.tc = B.ts = B.tl = None
    B.tm = []
    B.noret = False
    B.goto = None
    F.blocks[cont_id] = cont
    for gb, gB in G.blocks.items():
        if gb == G.exit:
            continue
        nb = Block({"id": bmap[gb], "e": [], "s": []})
        nb.elems = [e + off for e in gB.elems if (e + off) not in dead]
        nb.succs = [(None if s is None else (cont_id if s == G.exit else bmap[s])) for s in gB.succs]
        nb.usuccs = [(cont_id if s == G.exit else bmap[s]) for s in gB.usuccs]
        nb.tk, nb.tl, nb.tm = gB.tk, gB.tl, list(gB.tm)
        nb.tc = f(gB.tc) if gB.tc is not None else None
        nb.ts = f(gB.ts) if gB.ts is not None else None
        nb.case, nb.casename, nb.default = gB.case, gB.casename, gB.default
        nb.label, nb.noret, nb.goto = gB.label, gB.noret, gB.goto
        F.blocks[nb.id] = nb
    # returns
    for i in range(lo, hi):
        nd = F.nodes[i]
        if nd and nd.get("k") == "ret":
            if void or "e" not in nd:
                F.nodes[i] = {"l": nd.get("l"), "k": "other", "cls": "InlinedReturn", "ch": []}
            else:
                F.nodes.append({"l": nd.get("l"), "k": "ref", "n": rname, "dk": "var", "t": G.ret})
                F.nodes[i] = {"l": nd.get("l"), "k": "bin", "op": "=", "lh": len(F.nodes) - 1, "rh": nd["e"],
                              "asg": 1, "t": G.ret, "inl_ret": G.name}
    # the call expression now reads the result
    if void:
        F.nodes[call_id] = {"l": call.get("l"), "k": "other", "cls": "InlinedCall", "ch": [], "inl_fn": G.name}
    else:
        F.nodes[call_id] = {"l": call.get("l"), "k": "load", "e": len(F.nodes), "inl_fn": G.name}
        F.nodes.append({"l": call.get("l"), "k": "ref", "n": rname, "dk": "var", "t": G.ret})
    return cont_id


def _recompute(F):
    for b in F.blocks.values():
        b.preds = []
    for b in F.blocks.values():
        for s in b.succs:
            if s is not None:
                F.blocks[s].preds.append(b.id)
    F._parent = None
    F._render = {}
    for attr in ("_dom", "_pdom", "_reach"):
        if hasattr(F, attr):
            delattr(F, attr)


def flatten(P, vocab=None):
    """Inline every function whose name is outside the vocabulary into its callers.
    Returns {helper name: number of call sites spliced}.  Helpers are identified by their defining file and name
    (two files may each extract a static helper of the same name)."""
    vocab = load_vocabulary() if vocab is None else vocab
    if vocab is None:
        return {}
    new = {}
    for F in P.functions.values():
        if F.name not in vocab and F.blocks:
            new[F.key] = F
    if not new:
        return {}
    taken = _address_taken(P)
    cand = {k: F for k, F in new.items() if F.name not in taken and
            not any(nd and (nd.get("k") == "vaarg" or (nd.get("k") == "call" and "va_start" in (nd.get("fn") or "")))
                    for nd in F.nodes)}

    def target(F, nd):
        if nd.get("k") != "call" or not nd.get("fn") or nd["fn"] in vocab:
            return None
        G = P.resolve_call(F, nd)
        return G.key if G is not None and G.key in cand else None

    def callees(F):
        return set(t for b in F.blocks.values() for i in b.elems for t in [target(F, F.nodes[i])] if t)
    graph = {k: callees(F) for k, F in cand.items()}

    def reaches(a, b, seen=None):
        seen = seen or set()
        for c in graph.get(a, ()):
            if c == b:
                return True
            if c not in seen:
                seen.add(c)
                if reaches(c, b, seen):
                    return True
        return False
    for k in list(cand):
        if reaches(k, k):
            del cand[k]
    graph = {k: set(c for c in cs if c in cand) for k, cs in graph.items() if k in cand}
    sites = {k: 0 for k in cand}
    for F in P.functions.values():
        for b in F.blocks.values():
            for i in b.elems:
                t = target(F, F.nodes[i])
                if t in sites:
                    sites[t] += 1
    for k in list(cand):
        if len(cand[k].blocks) * max(1, sites[k]) > MAX_COST:
            del cand[k]
    order = []
    done = set()

    def visit(k):
        if k in done:
            return
        done.add(k)
        for c in sorted(graph.get(k, ())):
            if c in cand:
                visit(c)
        order.append(k)
    for k in sorted(cand):
        visit(k)
    spliced = {cand[k].name: 0 for k in cand}

    def flatten_fn(F):
        k = 0
        progress = True
        touched = False
        while progress:
            progress = False
            for bid in sorted(F.blocks):
                B = F.blocks[bid]
                for i in B.elems:
                    t = target(F, F.nodes[i])
                    if t is not None and t in cand and t != F.key:
                        k += 1
                        inline_call(F, bid, i, cand[t], k)
                        spliced[cand[t].name] += 1
                        progress = touched = True
                        break
                if progress:
                    break
        if touched:
            _recompute(F)
        return touched

    for k in order:
        flatten_fn(cand[k])
    for F in list(P.functions.values()):
        if F.key in cand:
            continue
        flatten_fn(F)
    for k, F in cand.items():
        del P.functions[F.key]
        P.by_name[F.name] = [x for x in P.by_name[F.name] if x is not F]
        if not P.by_name[F.name]:
            del P.by_name[F.name]
    P._callers = None
    P.inlined = spliced
    return spliced


# ---------------------------------------------------------------------------
# flattened view of one function: file-local static helpers spliced in (on a copy)

def clone_function(F):
    import copy as _copy
    G = _copy.copy(F)
    G.nodes = [(_copy.deepcopy(nd) if nd is not None else None) for nd in F.nodes]
    G.blocks = {}
    for bid, B in F.blocks.items():
        nb = Block({"id": B.id, "e": [], "s": []})
        for attr in Block.__slots__:
            v = getattr(B, attr)
            setattr(nb, attr, list(v) if isinstance(v, list) else v)
        G.blocks[bid] = nb
    G._parent = None
    G._render = {}
    for attr in ("_dom", "_pdom0", "_pdom1", "_reach", "_posmap", "_rdef", "_rdefs"):
        G.__dict__.pop(attr, None)
    return G


def flat_copy(P, F, max_depth=3):
    """Copy of F in which every call to a static function of the same file is replaced by the callee's body
    (transitively, bounded).  Rules that reason about what a routine does -- rather than about which helper it
    delegates to -- ask for this view, so that moving code into (or reusing) a file-local helper changes nothing."""
    cache = P.__dict__.setdefault("_flat", {})
    if F.key in cache:
        return cache[F.key]

    def inlinable(G):
        return G is not None and G.blocks and G.static and G.file == F.file and G.name != F.name and \
            not any(nd and nd.get("k") == "vaarg" for nd in G.nodes)
    if not any(inlinable(P.resolve_call(F, F.nodes[i])) for _b, i in F.calls() if F.nodes[i].get("fn")):
        cache[F.key] = F
        return F
    C = clone_function(F)
    k = 0
    budget = 40
    depth_of = {}           # call node id -> nesting depth of the splice that introduced it
    progress = True
    while progress and budget > 0:
        progress = False
        for bid in sorted(C.blocks):
            for i in C.blocks[bid].elems:
                nd = C.nodes[i]
                if nd.get("k") != "call" or not nd.get("fn"):
                    continue
                G = P.resolve_call(F, nd)
                d = depth_of.get(i, 0)
                if not inlinable(G) or d >= max_depth:
                    continue
                k += 1
                budget -= 1
                before = len(C.nodes)
                inline_call(C, bid, i, G, 100 + k)
                for j in range(before, len(C.nodes)):
                    if C.nodes[j] and C.nodes[j].get("k") == "call":
                        depth_of[j] = d + 1
                progress = True
                break
            if progress:
                break
    _recompute(C)
    if not os.environ.get("VERIF_NO_NORMALIZE"):
        from . import normalize
        normalize.deref_temps(C)
    cache[F.key] = C
    return C
