"""Exhaustive path enumeration for small functions (bounded, fails loudly)."""
from .build import AnalysisBroken
from . import canon
from .cfg import Typestate, simulate


class PathTS(Typestate):
    """State = tuple of tokens chosen by `select`.  Loops: a token sequence is cut
    once the same token has been seen `max_repeat` times (the paths are then
    marked 'cut'), so enumeration always terminates."""

    def __init__(self, select, edge_select=None, max_len=60, max_repeat=2):
        self.init = ()
        self.select = select
        self.edge_select = edge_select
        self.max_len = max_len
        self.max_repeat = max_repeat
        self.paths = set()
        self.cut = 0
        self.want_loads = bool(getattr(getattr(select, "__self__", None), "want_loads", False))
        self.canon = bool(getattr(getattr(select, "__self__", None), "canon", False))

    def _push(self, st, tok):
        if tok is None:
            return st
        if len(st) >= self.max_len:
            raise AnalysisBroken("path explosion")
        if st.count(tok) >= self.max_repeat:
            self.cut += 1
            return None
        return st + (tok,)

    def event(self, F, nid, st, ctx):
        tok = self.select(F, nid, ctx)
        if isinstance(tok, list):
            for t in tok:
                st = self._push(st, t)
                if st is None:
                    return None
            return st
        return self._push(st, tok)

    def edge(self, F, bid, key, truth, st, ctx):
        if self.edge_select is None:
            return st
        return self._push(st, self.edge_select(F, bid, key, truth, ctx))

    def exit(self, F, kind, nid, st, ctx):
        rv = None
        rnode = None
        if nid is not None and "e" in F.nodes[nid]:
            rnode = F.nodes[nid]["e"]
            rv = ctx.value(rnode)
        if rnode is None:
            rtxt = None
        elif self.canon:
            rtxt = canon.expr(F, rnode, env=ctx.aliases())
        else:
            rtxt = F.render(rnode)
        self.paths.add((st, kind, rv, rtxt))


def enumerate_paths(F, select, edge_select=None, max_len=60, max_repeat=2, entry_consts=None, start=None):
    ts = PathTS(select, edge_select, max_len, max_repeat)
    simulate(F, ts, entry_consts=entry_consts, start=start)
    return sorted(ts.paths, key=lambda p: repr(p))


# ---- common token selectors -------------------------------------------------

def call_token(F, nid, names=None):
    nd = F.nodes[nid]
    if nd.get("k") == "call" and nd.get("fn") and (names is None or nd["fn"] in names):
        return ("call", nd["fn"], tuple(F.render(a) for a in nd["a"]), nid)
    return None
