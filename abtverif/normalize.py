"""Pointer temporaries.

    ABT_pool *p_slot = &p_sched->pools[i];
    ABTI_pool_release(ABTI_pool_get_ptr(*p_slot));
    *p_slot = ABT_POOL_NULL;

is the same program as the one that names `p_sched->pools[i]` twice.  Rules identify
storage by record/field, so `*p_slot` is rewritten (in the loaded facts, never in the
source) to the lvalue whose address the temporary holds when
  * the temporary has exactly one definition in the function, it reaches the dereference and is `&<lvalue>`
    with <lvalue> a member or element access (or a plain local variable), and
  * no variable that occurs in <lvalue> is assigned on any path from that definition to
    the dereference.
The same situation arises when the inliner turns a helper's pointer parameter into a
local initialised with the caller's `&obj->field` argument."""
from . import canon


def _assigned_between(F, d_pos, u_pos, names):
    """Is one of `names` assigned on a path from position d_pos to position u_pos that
    does not pass through d_pos again?"""
    db, dk = d_pos
    ub, uk = u_pos

    def hits(b, lo, hi):
        el = F.blocks[b].elems
        for j in range(lo, len(el) if hi is None else hi):
            for v, _r in canon._assigned_var(F, F.nodes[el[j]]):
                if v in names:
                    return True
        return False
    if db == ub and dk < uk:
        if hits(db, dk + 1, uk):
            return True
        # leaving and re-entering the block would pass the definition again
        return False
    def reach(starts, nxt):
        seen = set()
        work = [b for b in starts if b is not None]
        while work:
            b = work.pop()
            if b in seen or b == db:
                continue
            seen.add(b)
            work.extend(x for x in nxt(b) if x is not None)
        return seen
    fwd = reach(F.blocks[db].succs, lambda b: F.blocks[b].succs)
    if ub not in fwd:
        return True         # the definition does not reach the use this way: give up
    bwd = reach([ub], lambda b: F.blocks[b].preds)
    if hits(db, dk + 1, None) or hits(ub, 0, uk):
        return True
    # the use block lies on a cycle that avoids the definition: all of it may run before the use
    if ub in reach(F.blocks[ub].succs, lambda b: F.blocks[b].succs) and hits(ub, uk, None):
        return True
    return any(hits(b, 0, None) for b in (fwd & bwd) - {ub})


def deref_temps(F):
    n = 0
    if not F.blocks:
        return 0
    pm = None
    for u in range(len(F.nodes)):
        nd = F.nodes[u]
        if not nd or nd.get("k") != "un" or nd.get("op") != "*":
            continue
        e = F.strip(nd["e"])
        en = F.nodes[e] if e is not None and e >= 0 else None
        if not en or en.get("k") != "ref" or en.get("dk") != "var":
            continue
        if len(F.var_defs(en["n"])) != 1:
            continue        # a re-seated cursor (trailing link pointer of a list walk) is not a mere name
        d = canon.reaching_def(F, en["n"], u)
        if not isinstance(d, int):
            continue
        dn = F.nodes[F.strip(d)]
        if dn.get("k") != "un" or dn.get("op") != "&":
            continue
        t = F.strip(dn["e"], casts=False)
        tn = F.nodes[t]
        if tn.get("k") == "ref" and tn.get("dk") == "var":
            # `pp = &local; ... *pp ...` (an out-parameter of a flattened helper): the same lvalue whatever is
            # stored in it meanwhile -- the address depends on nothing
            new = dict(tn)
            new["via_temp"] = en["n"]
            F.nodes[u] = new
            n += 1
            continue
        if tn.get("k") not in ("mem", "idx"):
            continue
        if pm is None:
            pm = canon._posmap(F)
        par = F.parent_map()

        def position(x):
            hops = 0
            while x not in pm and x in par and hops < 50:
                x = par[x]
                hops += 1
            return pm.get(x)
        dp, up = position(d), position(u)
        if dp is None or up is None:
            continue
        names = F.vars_in(t)
        if _assigned_between(F, dp, up, names):
            continue
        new = dict(tn)
        for key in ("l", "line", "c"):
            if key in nd:
                new[key] = nd[key]
        new["via_temp"] = en["n"]
        F.nodes[u] = new
        n += 1
    if n:
        F._parent = None
        for a in ("_rdef", "_rdefs"):
            F.__dict__.pop(a, None)
    return n


def run(P):
    total = 0
    for F in P.functions.values():
        total += deref_temps(F)
    P.deref_temps = total
    return total
