"""Reaching-definition term reconstruction in straight-line code (global value
numbering style, no path conditions, no solver): a local variable with exactly
one definition in the function is replaced by the expansion of that definition."""
import re


def single_defs(F):
    """{var: rhs node} for locals that are defined exactly once (decl init or one assignment)."""
    defs = {}
    count = {}
    for bid, i in F.all_events():
        nd = F.nodes[i]
        k = nd.get("k")
        if k == "decl":
            for v in nd["vars"]:
                count[v["n"]] = count.get(v["n"], 0) + (1 if "init" in v else 0)
                if "init" in v:
                    defs[v["n"]] = v["init"]
        elif k == "bin" and nd.get("asg"):
            ln = F.nodes[F.strip(nd["lh"])]
            if ln.get("k") == "ref" and ln.get("dk") == "var":
                count[ln["n"]] = count.get(ln["n"], 0) + 1
                if nd["op"] == "=":
                    defs[ln["n"]] = nd["rh"]
                else:
                    count[ln["n"]] += 1
        elif k == "un" and nd["op"] in ("post++", "post--", "pre++", "pre--"):
            en = F.nodes[F.strip(nd["e"])]
            if en.get("k") == "ref":
                count[en["n"]] = count.get(en["n"], 0) + 2
        elif k == "call":
            for a in nd["a"]:
                an = F.nodes[F.strip(a)]
                if an.get("k") == "un" and an["op"] == "&":
                    inner = F.nodes[F.strip(an["e"])]
                    if inner.get("k") == "ref":
                        count[inner["n"]] = count.get(inner["n"], 0) + 2   # out-parameter: not expandable
    return {v: d for v, d in defs.items() if count.get(v, 0) == 1}


def expand(F, i, depth=4, defs=None, keep_casts=False):
    """C-like text of expression i with single-definition locals substituted."""
    defs = single_defs(F) if defs is None else defs

    def ex(j, d):
        j = F.strip(j, casts=not keep_casts)
        nd = F.nodes[j]
        k = nd.get("k")
        if k == "ref":
            if nd.get("dk") == "var" and nd["n"] in defs and d > 0:
                return "(" + ex(defs[nd["n"]], d - 1) + ")"
            return nd["n"]
        if k == "int":
            return str(nd.get("cv"))
        if "cv" in nd and k not in ("ref",):
            return str(nd["cv"])
        if k == "mem":
            return "%s%s%s" % (ex(nd["b"], d), "->" if nd["arrow"] else ".", nd["f"])
        if k == "un":
            op = nd["op"]
            if op.startswith("post"):
                return ex(nd["e"], d) + op[4:]
            if op.startswith("pre"):
                return op[3:] + ex(nd["e"], d)
            return op + ex(nd["e"], d)
        if k == "bin":
            return "(%s %s %s)" % (ex(nd["lh"], d), nd["op"], ex(nd["rh"], d))
        if k == "call":
            fn = nd.get("fn") or ("(*%s)" % ex(nd["fe"], d))
            return "%s(%s)" % (fn, ", ".join(ex(a, d) for a in nd["a"]))
        if k == "cast":
            return ex(nd["e"], d)
        if k == "load":
            return ex(nd["e"], d)
        if k == "idx":
            return "%s[%s]" % (ex(nd["b"], d), ex(nd["i"], d))
        if k == "cond":
            return "(%s ? %s : %s)" % (ex(nd["c"], d), ex(nd["th"], d), ex(nd["el"], d))
        if k == "sizeof":
            return "sizeof(%s)" % nd.get("t", "")
        return F.render(j)
    t = ex(i, depth)
    # normalise redundant parentheses around atoms
    prev = None
    while prev != t:
        prev = t
        t = re.sub(r"\(([A-Za-z_][A-Za-z0-9_>.\-]*)\)", r"\1", t)
    return t
