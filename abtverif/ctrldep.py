"""Control dependence (Ferrante-Ottenstein-Warren) over the extracted CFG: the branch
conditions that decide whether a block executes."""
from . import canon, cfg


def direct(F, bid, include_noret=False):
    """[(branch block, successor index)] such that taking that edge forces `bid` to execute
    while the other edge of the branch can avoid it."""
    pdom = cfg.postdominators(F, include_noret)
    out = []
    for a, A in F.blocks.items():
        if sum(1 for s in A.succs if s is not None) < 2:
            continue
        for k, s in enumerate(A.succs):
            if s is None:
                continue
            if bid in pdom.get(s, ()) and not (bid in pdom.get(a, ()) and bid != a):
                out.append((a, k))
    return out


def closure(F, bid, include_noret=False):
    """Transitive control dependences of block `bid`."""
    seen = set()
    out = []
    work = [bid]
    while work:
        b = work.pop()
        for a, k in direct(F, b, include_noret):
            if (a, k) not in seen:
                seen.add((a, k))
                out.append((a, k))
                work.append(a)
    return out


def conditions(F, nid, include_noret=False):
    """Canonical (label, truth) of every condition node `nid`'s execution depends on."""
    bid = F.block_of(nid)
    out = []
    for a, k in closure(F, bid, include_noret):
        A = F.blocks[a]
        if A.tc is None or A.tk == "SwitchStmt":
            out.append(("<%s@B%d>" % (A.tk, a), k == 0, a))
            continue
        aj, at = cfg.cond_atom(F, A.tc, True)
        lab, flip = canon.cond(F, aj)
        truth = (k == 0)
        val = (truth if at else (not truth)) != flip
        out.append((lab, val, a))
        # a short-circuit condition evaluated as data (e.g. inside __builtin_expect): its other operands govern too;
        # their polarity on this edge is not tracked (None)
        for leaf in _operands(F, A.tc):
            if F.strip(leaf) != F.strip(aj):
                l2, _f2 = canon.cond(F, leaf)
                out.append((l2, None, a))
    return out


def _operands(F, i):
    """Leaf conditions of a (possibly negated / __builtin_expect-wrapped) &&/|| tree."""
    i = F.strip(i)
    nd = F.nodes[i]
    k = nd.get("k")
    if k == "un" and nd["op"] == "!":
        return _operands(F, nd["e"])
    if k == "call" and nd.get("fn") in ("__builtin_expect", "ABTU_likely", "ABTU_unlikely") and nd.get("a"):
        return _operands(F, nd["a"][0])
    if k == "bin" and nd["op"] in ("&&", "||"):
        return _operands(F, nd["lh"]) + _operands(F, nd["rh"])
    return [i]


# ---------------------------------------------------------------------------
# "runs once for every element": a call site inside a loop over an array

LOOPS = ("ForStmt", "WhileStmt", "DoStmt")


def _reaches_any(F, start, targets, avoid=()):
    seen = set()
    st = [start]
    while st:
        b = st.pop()
        if b in seen or b in avoid:
            continue
        seen.add(b)
        if b in targets:
            return True
        st.extend(s for s in F.blocks[b].succs if s is not None)
    return False


def per_element(F, nid, sites=None, elem=None):
    """Is call `nid` executed for every element the enclosing loop visits?  Returns
    (problems, loop head or None).  Walking up the control dependences of the call, every governing
    condition must be the loop itself, a NULL test of the element (`elem`, default: the call's first
    argument), an assertion, or a
    guard whose other edge never reaches such a call again (error exits); and no edge leaves the loop
    towards the code after the loop except from the loop condition (`break` skips the remaining
    elements; a `return` out of the loop is an error exit and is judged by the rules on error paths)."""
    sites = sites or [nid]
    bid = F.block_of(nid)
    target_blocks = set(F.block_of(s) for s in sites)
    if elem is None and F.nodes[nid].get("a"):
        elem = F.nodes[nid]["a"][0]
    arg = canon.expr(F, elem) if elem is not None else None
    heads = [a for a, k in closure(F, bid) if F.blocks[a].tk in LOOPS]
    head = heads[0] if heads else None

    def in_loop(x):
        return head is not None and _reaches_any(F, head, {x}) and _reaches_any(F, x, {head})
    bad = []
    seen = set()
    work = [bid]
    while work:
        b = work.pop()
        for a, k in direct(F, b, include_noret=False):
            if (a, k) in seen:
                continue
            seen.add((a, k))
            A = F.blocks[a]
            inside = in_loop(a)
            others = [s for j, s in enumerate(A.succs) if j != k and s is not None]
            guard = bool(others) and (not any(_reaches_any(F, o, target_blocks) for o in others) or
                                      all(F.blocks[o].noret for o in others))
            if guard:
                if inside:
                    work.append(a)
                continue
            if A.tk in LOOPS:
                if a == head:
                    work.append(a)
                continue
            if A.tc is None:
                bad.append("depends on <%s>" % A.tk)
                continue
            aj, at = cfg.cond_atom(F, A.tc, True)
            lab, flip = canon.cond(F, aj)
            if lab == arg and inside:
                work.append(a)
                continue
            bad.append("depends on [%s]" % lab)
    if head is not None:
        H = F.blocks[head]
        body = set(b for b in F.blocks if in_loop(b))
        after = [s for s in H.succs if s is not None and s not in body]
        for u in sorted(body):
            if u == head:
                continue
            for v in F.blocks[u].succs:
                if v is None or v in body:
                    continue
                # leaves the loop: towards the code after the loop (break) or straight to a return?
                if v in after or any(_reaches_any(F, v, {x}) for x in after if x != F.exit):
                    if F.blocks[u].noret:
                        continue
                    bad.append("an edge from block %d leaves the loop early (break): remaining elements are skipped" % u)
    return sorted(set(bad)), head
