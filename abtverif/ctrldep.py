"""Control dependence (Ferrante-Ottenstein-Warren) over the extracted CFG: the branch
conditions that decide whether a block executes."""
from . import canon, cfg


def direct(F, bid, include_noret=False):
    """[(branch block, successor index)] such that taking that edge forces `bid` to execute
    while the other edge of the branch can avoid it."""
    pdom = cfg.postdominators(F, include_noret)
    out = []
    for a, A in F.blocks.items():
        if sum(1 for s in A.succs if s is not None) < 2:
            continue
        for k, s in enumerate(A.succs):
            if s is None:
                continue
            if bid in pdom.get(s, ()) and not (bid in pdom.get(a, ()) and bid != a):
                out.append((a, k))
    return out


def closure(F, bid, include_noret=False):
    """Transitive control dependences of block `bid`."""
    seen = set()
    out = []
    work = [bid]
    while work:
        b = work.pop()
        for a, k in direct(F, b, include_noret):
            if (a, k) not in seen:
                seen.add((a, k))
                out.append((a, k))
                work.append(a)
    return out


def conditions(F, nid, include_noret=False):
    """Canonical (label, truth) of every condition node `nid`'s execution depends on."""
    bid = F.block_of(nid)
    out = []
    for a, k in closure(F, bid, include_noret):
        A = F.blocks[a]
        if A.tc is None or A.tk == "SwitchStmt":
            out.append(("<%s@B%d>" % (A.tk, a), k == 0, a))
            continue
        aj, at = cfg.cond_atom(F, A.tc, True)
        lab, flip = canon.cond(F, aj)
        truth = (k == 0)
        val = (truth if at else (not truth)) != flip
        out.append((lab, val, a))
    return out
