"""CFG analyses: reachability, dominators, post-dominators, path queries and a
path-sensitive typestate engine (property simulation with constant propagation
and branch correlation -- no solver, no execution)."""
from collections import deque


# --------------------------------------------------------------------------
# basic graph helpers (positions are (block id, index in block.elems))

def reachable_blocks(F, start=None, avoid=()):
    start = F.entry if start is None else start
    seen = set()
    st = [start]
    while st:
        b = st.pop()
        if b in seen or b in avoid:
            continue
        seen.add(b)
        for s in F.blocks[b].succs:
            if s is not None:
                st.append(s)
    return seen


def _dom(F, root, succ_of, nodes):
    """Iterative dominator sets (small graphs)."""
    nodes = list(nodes)
    dom = {n: set(nodes) for n in nodes}
    dom[root] = {root}
    preds = {n: [] for n in nodes}
    for n in nodes:
        for s in succ_of(n):
            if s in preds:
                preds[s].append(n)
    changed = True
    while changed:
        changed = False
        for n in nodes:
            if n == root:
                continue
            ps = [dom[p] for p in preds[n]]
            new = set.intersection(*ps) if ps else set()
            new = new | {n}
            if new != dom[n]:
                dom[n] = new
                changed = True
    return dom


def dominators(F):
    if getattr(F, "_dom", None) is None:
        R = reachable_blocks(F)
        F._dom = _dom(F, F.entry, lambda n: [s for s in F.blocks[n].succs if s is not None and s in R], R)
    return F._dom


def postdominators(F, include_noret=True):
    """Post-dominator sets w.r.t. the exit block.  Blocks ending in a noreturn call
    reach the exit block in clang's CFG; with include_noret=False those edges are
    dropped (so an assertion failure path does not count as an exit)."""
    attr = "_pdom%d" % int(include_noret)
    if getattr(F, attr, None) is None:
        R = reachable_blocks(F)
        def preds(n):
            out = []
            for p in F.blocks[n].preds:
                if p not in R:
                    continue
                if not include_noret and F.blocks[p].noret:
                    continue
                out.append(p)
            return out
        setattr(F, attr, _dom(F, F.exit, preds, R))
    return getattr(F, attr)


def pos_of(F, nid):
    bid = F.block_of(nid)
    if bid is None:
        return None
    return (bid, F.blocks[bid].elems.index(nid))


def dominates(F, a, b):
    """Every path from entry to node b passes node a first."""
    pa, pb = pos_of(F, a), pos_of(F, b)
    if pa is None or pb is None:
        return False
    if pa[0] == pb[0]:
        return pa[1] <= pb[1]
    return pa[0] in dominators(F).get(pb[0], ())


def postdominates(F, a, b, include_noret=False):
    """Every path from node b to a (returning) exit passes node a."""
    pa, pb = pos_of(F, a), pos_of(F, b)
    if pa is None or pb is None:
        return False
    if pa[0] == pb[0]:
        return pa[1] >= pb[1]
    return pa[0] in postdominators(F, include_noret).get(pb[0], ())


def can_reach(F, a, b, avoid_nodes=()):
    """Is there a CFG path from just after node a to node b that does not execute
    any node in avoid_nodes?"""
    pa, pb = pos_of(F, a), pos_of(F, b)
    if pa is None or pb is None:
        return False
    avoid = {}
    for x in avoid_nodes:
        p = pos_of(F, x)
        if p:
            avoid.setdefault(p[0], []).append(p[1])
    # walk
    def blocked(bid, lo, hi):
        return any(lo <= k < hi for k in avoid.get(bid, ()))
    bid, idx = pa
    n = len(F.blocks[bid].elems)
    if pb[0] == bid and pb[1] > idx:
        if not blocked(bid, idx + 1, pb[1]):
            return True
    if blocked(bid, idx + 1, n):
        return False
    seen = set()
    st = [s for s in F.blocks[bid].succs if s is not None]
    while st:
        x = st.pop()
        if x in seen:
            continue
        seen.add(x)
        nx = len(F.blocks[x].elems)
        if x == pb[0]:
            if not blocked(x, 0, pb[1]):
                return True
        if blocked(x, 0, nx):
            continue
        st.extend(s for s in F.blocks[x].succs if s is not None)
    return False


def reach_exit_avoiding(F, a, avoid_nodes=(), include_noret=False):
    """Is there a path from just after node a to a function exit that executes none
    of avoid_nodes?  Returns the list of block ids of such a path or None."""
    pa = pos_of(F, a) if a is not None else (F.entry, -1)
    avoid = {}
    for x in avoid_nodes:
        p = pos_of(F, x)
        if p:
            avoid.setdefault(p[0], []).append(p[1])
    def blocked(bid, lo):
        return any(k >= lo for k in avoid.get(bid, ()))
    bid, idx = pa
    if blocked(bid, idx + 1):
        return None
    prev = {bid: None}
    dq = deque([bid])
    while dq:
        x = dq.popleft()
        if x != bid and blocked(x, 0):
            continue
        if x == F.exit:
            path = []
            while x is not None:
                path.append(x)
                x = prev[x]
            return path[::-1]
        if F.blocks[x].noret and not include_noret:
            continue
        for s in F.blocks[x].succs:
            if s is not None and s not in prev:
                prev[s] = x
                dq.append(s)
    return None


# --------------------------------------------------------------------------
# condition normalisation

def cond_atom(F, i, truth=True):
    """Reduce a branch condition to (node id, truth): strips !, !!, __builtin_expect,
    takes the last-evaluated operand of && / ||, and turns != into == (flipped)."""
    while True:
        i = F.strip(i)
        nd = F.nodes[i]
        k = nd.get("k")
        if k == "un" and nd["op"] == "!":
            i = nd["e"]
            truth = not truth
            continue
        if k == "call" and nd.get("fn") == "__builtin_expect":
            i = nd["a"][0]
            continue
        if k == "bin" and nd["op"] in ("&&", "||"):
            i = nd["rh"]
            continue
        break
    return i, truth


def cond_key(F, i, truth=True):
    """(key string, truth, node) with `a != b` canonicalised to `a == b` (flipped),
    and `x == 0` / `x != 0` for pointers/ints canonicalised to `x`."""
    i, truth = cond_atom(F, i, truth)
    nd = F.nodes[i]
    if nd.get("k") == "bin" and nd["op"] in ("==", "!="):
        t = truth if nd["op"] == "==" else (not truth)
        lh, rh = F.strip(nd["lh"]), F.strip(nd["rh"])
        # comparison with literal zero/NULL -> truthiness of the other side
        for a, b in ((lh, rh), (rh, lh)):
            nb = F.nodes[b]
            if nb.get("cv") == 0 and nb.get("k") in ("int", "cast") and F.nodes[a].get("cv") is None:
                return F.render(a), (not t), i
        return "%s == %s" % (F.render(lh), F.render(rh)), t, i
    return F.render(i), truth, i


# --------------------------------------------------------------------------
# typestate engine

class Ctx:
    """What a rule's transfer function can ask about the current path."""
    __slots__ = ("F", "consts", "facts", "bid", "cond_node", "cond_val", "switch")

    def __init__(self, F, consts, facts, bid, cond_node=None, cond_val=None, switch=None):
        self.F, self.consts, self.facts, self.bid = F, consts, facts, bid
        self.cond_node, self.cond_val = cond_node, cond_val
        # on an edge out of a switch: (switch operand node, enumerator name or None, case value or None = default arm,
        # [case values of the other arms])
        self.switch = switch

    def value(self, i):
        """Constant integer value of node i on this path, or None."""
        F = self.F
        i = F.strip(i)
        nd = F.nodes[i]
        if "cv" in nd:
            return nd["cv"]
        if nd.get("k") == "ref" and nd["n"] in self.consts:
            return self.consts[nd["n"]]
        if nd.get("k") == "cond":
            choice = self.consts.get("?%d" % F.strip(nd["c"], casts=False, loads=False))
            if choice is None:
                choice = self.consts.get("?%d" % nd["c"])
            if choice is not None:
                return self.value(nd["th"] if choice else nd["el"])
        return None

    def fact(self, key):
        return self.facts.get(key)

    def aliases(self):
        """{local: variable it is a plain copy of on this path}"""
        return {k[1:]: v for k, v in self.consts.items() if isinstance(k, str) and k.startswith("=")}


def _eval_cmp(op, a, b):
    return {"==": a == b, "!=": a != b, "<": a < b, "<=": a <= b, ">": a > b, ">=": a >= b}.get(op)


def known_logic_value(F, i, consts):
    """Value of a condition that contains a short-circuit operator whose outcome was
    already decided by the edge taken out of its left operand (clang's CFG routes
    `!(a && b)` through a join block without duplicating the branch)."""
    neg = False
    while True:
        i = F.strip(i)
        nd = F.nodes[i]
        k = nd.get("k")
        if k == "un" and nd["op"] == "!":
            neg = not neg
            i = nd["e"]
        elif k == "call" and nd.get("fn") == "__builtin_expect":
            i = nd["a"][0]
        elif k == "bin" and nd["op"] in ("&&", "||"):
            v = consts.get("?v%d" % i)
            if v is not None:
                return bool(v) != neg
            i = nd["rh"]
        else:
            return None


def eval_cond(F, i, consts, facts):
    """Decide a branch condition from propagated constants / recorded facts.
    Returns True/False/None."""
    kv = known_logic_value(F, i, consts)
    if kv is not None:
        return kv
    key, t, j = cond_key(F, i, True)
    nd = F.nodes[j]
    if "cv" in nd:
        v = bool(nd["cv"])
        return v if t else (not v)
    def val(x):
        x = F.strip(x)
        n = F.nodes[x]
        if "cv" in n:
            return n["cv"]
        if n.get("k") == "ref":
            return consts.get(n["n"])
        return None
    if nd.get("k") == "bin" and nd["op"] in ("==", "!=", "<", "<=", ">", ">="):
        a, b = val(nd["lh"]), val(nd["rh"])
        if a is not None and b is not None:
            # key canonicalisation may have flipped truth for != ; evaluate the raw node
            raw = _eval_cmp(nd["op"], a, b)
            j2, t2 = cond_atom(F, i, True)
            return raw if t2 else (not raw)
    if nd.get("k") in ("ref", "load"):
        v = val(j)
        if v is not None:
            j2, t2 = cond_atom(F, i, True)
            return bool(v) if t2 else (not bool(v))
    if key in facts:
        f = facts[key]
        return f if t else (not f)
    return None


class Typestate:
    """Base class for rules run by `simulate`.  States must be hashable."""
    init = None
    track_facts = True
    enter = None     # optional hook: enter(F, block id, state, ctx) when a block is reached

    def event(self, F, nid, st, ctx):
        """Return the next state (or an iterable of states via a set)."""
        return st

    def edge(self, F, bid, key, truth, st, ctx):
        return st

    def exit(self, F, kind, nid, st, ctx):
        """kind: 'ret' (nid = return node or None for falling off) or 'noret'."""
        return None


def _def_fact_key(F, atom):
    """(fact key, polarity) of the defining expression of the local tested by `atom`, when that
    definition is the only one reaching the test and is free of side effects."""
    from . import canon
    an = F.nodes[F.strip(atom)]
    if an.get("k") != "ref" or an.get("dk") != "var":
        return None
    d = canon.reaching_def(F, an["n"], atom)
    if not isinstance(d, int):
        return None
    for j in F.descendants(d):
        nd = F.nodes[j]
        if nd.get("k") in ("asm", "atomic") or (nd.get("k") == "bin" and nd.get("asg")) or \
                (nd.get("k") == "un" and nd["op"] in ("post++", "post--", "pre++", "pre--")):
            return None
        if nd.get("k") == "call" and not _pure_callee(nd.get("fn")):
            return None
    if F.nodes[F.strip(d)].get("k") in ("int", "ref"):
        return None
    key, t, _j = cond_key(F, d, True)
    return key, t


def _pure_for_fact(F, i):
    return not F.has_call(i)


def simulate(F, ts, init=None, max_states=200000, entry_facts=None, entry_consts=None, start=None):
    """Run typestate `ts` over all feasible paths of F (loops handled by state
    merging: a (block, state) pair is explored once)."""
    init = ts.init if init is None else init
    start = (F.entry if start is None else start, init, frozenset((entry_consts or {}).items()), frozenset((entry_facts or {}).items()))
    seen = {start}
    work = deque([start])
    steps = 0
    want_loads = bool(getattr(ts, "want_loads", False))
    while work:
        bid, st, fc, ff = work.popleft()
        steps += 1
        if steps > max_states:
            raise RuntimeError("state explosion in %s" % F.key)
        consts = dict(fc)
        facts = dict(ff)
        B = F.blocks[bid]
        ctx = Ctx(F, consts, facts, bid)
        states = {st}
        if ts.enter is not None:
            ts.enter(F, bid, st, ctx)
        for nid in B.elems:
            nd = F.nodes[nid]
            k = nd.get("k")
            interesting = k in ("call", "ret", "asm", "atomic", "decl") or \
                (k == "bin" and nd.get("asg")) or (k == "un" and nd["op"] in ("post++", "post--", "pre++", "pre--")) or \
                (k == "load" and want_loads)
            if not interesting:
                continue
            new = set()
            for s in states:
                r = ts.event(F, nid, s, ctx)
                if isinstance(r, (set, list)):
                    new.update(r)
                elif r is not None:
                    new.add(r)
            states = new
            _update_env(F, nid, consts, facts)
            if k == "ret":
                for s in states:
                    ts.exit(F, "ret", nid, s, ctx)
                states = set()
                break
        if not states:
            continue
        if B.noret:
            for s in states:
                ts.exit(F, "noret", None, s, ctx)
            continue
        if bid == F.exit:
            for s in states:
                ts.exit(F, "ret", None, s, ctx)
            continue
        succs = B.succs
        edges = []
        if B.tc is not None and B.tk != "SwitchStmt" and len(succs) == 2:
            v = eval_cond(F, B.tc, consts, facts)
            key, t, j = cond_key(F, B.tc, True)
            aj, at = cond_atom(F, B.tc, True)
            pure = _pure_for_fact(F, j)
            decided_by_logic = known_logic_value(F, B.tc, consts) is not None
            for truth, s in ((True, succs[0]), (False, succs[1])):
                if s is None:
                    continue
                if v is not None and v != truth:
                    continue
                # constant implied by this edge: `var == C` holding, or `var` being 0
                implied = None
                an = F.nodes[aj]
                aval = truth if at else (not truth)   # value of the atom on this edge
                if an.get("k") == "bin" and an["op"] in ("==", "!="):
                    holds = aval if an["op"] == "==" else (not aval)
                    if holds:
                        for x, y in ((an["lh"], an["rh"]), (an["rh"], an["lh"])):
                            xn, yn = F.nodes[F.strip(x)], F.nodes[F.strip(y)]
                            if xn.get("k") == "ref" and xn.get("dk") in ("var", "param") and "cv" in yn \
                                    and "cv" not in xn:
                                implied = (xn["n"], yn["cv"])
                if decided_by_logic:
                    # the operand shown by cond_atom was not evaluated on this path
                    edges.append((s, None, True, None, None, None))
                else:
                    edges.append((s, key if pure else None, truth if t else (not truth), implied, aj, aval))
        elif B.tk == "SwitchStmt" and B.tc is not None:
            key = F.render(F.strip(B.tc))
            cvals = [F.blocks[s].case for s in succs if s is not None and F.blocks[s].case is not None]
            known = None
            n0 = F.nodes[F.strip(B.tc)]
            if "cv" in n0:
                known = n0["cv"]
            elif n0.get("k") == "ref" and n0["n"] in consts:
                known = consts[n0["n"]]
            for s in succs:
                if s is None:
                    continue
                cv = F.blocks[s].case
                if known is not None:
                    if cv is not None and cv != known:
                        continue
                    if cv is None and known in cvals:
                        continue
                # taking `case C:` of `switch (var)` establishes var == C on this path
                imp = (n0["n"], cv) if (cv is not None and n0.get("k") == "ref" and n0.get("dk") in ("var", "param")
                                        and "cv" not in n0) else None
                edges.append((s, ("%s == %s" % (key, cv)) if cv is not None else None, True, imp, None,
                              ("switch", B.tc, F.blocks[s].casename, cv, tuple(cvals))))
        else:
            for s in succs:
                if s is not None:
                    edges.append((s, None, True, None, None, None))
        for s, key, truth, implied, aj, aval in edges:
            nf = facts
            nc = consts
            if key is not None and ts.track_facts:
                nf = dict(facts)
                nf[key] = truth
                # the tested local still holds the value of a side-effect-free expression: the same fact
                # holds for that expression (`p = get_ptr(h); if (!p) ...; if (!get_ptr(h)) ...`)
                if aj is not None:
                    dk = _def_fact_key(F, aj)
                    if dk is not None:
                        nf[dk[0]] = truth if dk[1] else (not truth)
            if implied is not None:
                nc = dict(consts)
                nc[implied[0]] = implied[1]
            if B.tk in ("ConditionalOperator", "BinaryConditionalOperator") and aj is not None:
                nc = dict(nc)
                nc["?%d" % B.tc] = 1 if (s == succs[0]) else 0
            if B.tk in ("&&", "||") and B.ts is not None and len(succs) == 2:
                nc = dict(nc)
                took_true = (s == succs[0])
                if B.tk == "&&" and not took_true:
                    nc["?v%d" % B.ts] = 0
                elif B.tk == "||" and took_true:
                    nc["?v%d" % B.ts] = 1
                else:
                    nc.pop("?v%d" % B.ts, None)
            for st2 in states:
                if isinstance(aval, tuple) and aval and aval[0] == "switch":
                    ectx = Ctx(F, nc, nf, bid, None, None, switch=aval[1:])
                else:
                    ectx = Ctx(F, nc, nf, bid, aj, aval)
                r = ts.edge(F, bid, key, truth, st2, ectx)
                rs = r if isinstance(r, (set, list)) else ([r] if r is not None else [])
                for st3 in rs:
                    item = (s, st3, frozenset(nc.items()), frozenset(nf.items()))
                    if item not in seen:
                        seen.add(item)
                        work.append(item)
    return len(seen)


def _const_value(F, i, consts):
    """Constant value of expression i under the path's constants (incl. decided ternaries)."""
    return Ctx(F, consts, {}, None).value(i)


def _update_env(F, nid, consts, facts):
    """Constant propagation + fact invalidation for one event."""
    nd = F.nodes[nid]
    k = nd.get("k")

    def kill_var(v):
        consts.pop(v, None)
        consts.pop("=" + v, None)
        for a in [a for a, src in consts.items() if a.startswith("=") and src == v]:
            del consts[a]
        for key in [key for key in facts if _mentions(key, v)]:
            del facts[key]

    def alias(dst, src):
        # dst is a copy of variable src on this path (src resolved to its own root)
        if dst != src:
            consts["=" + dst] = consts.get("=" + src, src)

    def kill_text(t):
        for key in [key for key in facts if t in key]:
            del facts[key]

    def copy_facts(dst, src):
        import re
        pat = re.compile(r"(?<![A-Za-z0-9_>.])%s(?![A-Za-z0-9_])" % re.escape(src))
        for key in list(facts):
            if _mentions(key, src):
                facts[pat.sub(dst, key)] = facts[key]

    if k == "decl":
        for v in nd["vars"]:
            kill_var(v["n"])
            if "init" in v:
                iv = F.nodes[F.strip(v["init"])]
                cvv = _const_value(F, v["init"], consts) if iv.get("k") == "cond" else None
                if "cv" in iv:
                    consts[v["n"]] = iv["cv"]
                elif cvv is not None:
                    consts[v["n"]] = cvv
                elif iv.get("k") == "ref" and iv["n"] in consts:
                    consts[v["n"]] = consts[iv["n"]]
                elif iv.get("k") == "ref" and iv.get("dk") in ("var", "param"):
                    copy_facts(v["n"], iv["n"])
                    alias(v["n"], iv["n"])
    elif k == "bin" and nd.get("asg"):
        lh = F.strip(nd["lh"])
        ln = F.nodes[lh]
        if ln.get("k") == "ref":
            v = ln["n"]
            old = consts.get(v)
            kill_var(v)
            rn = F.nodes[F.strip(nd["rh"])]
            if nd["op"] == "=":
                cvv = _const_value(F, nd["rh"], consts) if rn.get("k") == "cond" else None
                if "cv" in rn:
                    consts[v] = rn["cv"]
                elif cvv is not None:
                    consts[v] = cvv
                elif rn.get("k") == "ref" and rn["n"] in consts:
                    consts[v] = consts[rn["n"]]
                elif rn.get("k") == "ref" and rn.get("dk") in ("var", "param") and rn["n"] != v:
                    copy_facts(v, rn["n"])
                    alias(v, rn["n"])
            # compound updates are not propagated (loop counters would never converge)
        else:
            kill_text(F.render(lh))
    elif k == "un":
        e = F.strip(nd["e"])
        en = F.nodes[e]
        if en.get("k") == "ref":
            v = en["n"]
            kill_var(v)      # ++/-- : value no longer tracked (widening for loop counters)
        else:
            kill_text(F.render(e))
    elif k == "call":
        # a call may change any memory: forget facts about memory (member/array/deref
        # expressions) unless the callee is a known side-effect-free helper
        if not _pure_callee(nd.get("fn")):
            for key in [key for key in facts if ("->" in key or "." in key or "[" in key or "*" in key)]:
                del facts[key]
        # &v passed to a call: v may change
        for a in nd["a"]:
            an = F.nodes[F.strip(a)]
            if an.get("k") == "un" and an["op"] == "&":
                inner = F.nodes[F.strip(an["e"])]
                if inner.get("k") == "ref":
                    kill_var(inner["n"])
                else:
                    kill_text(F.render(F.strip(an["e"])))


_PURE_PREFIXES = ("__builtin_expect", "ABTU_likely", "ABTU_unlikely", "ABTD_atomic_relaxed_load", "ABTD_atomic_acquire_load",
                  "ABTI_local_get_", "ABTI_global_get_global", "ABTI_self_get_thread_id")


def _pure_callee(fn):
    if not fn:
        return False
    if fn.startswith(_PURE_PREFIXES):
        return True
    # handle <-> pointer conversions: ABTI_xxx_get_ptr / ABTI_xxx_get_handle
    if fn.startswith("ABTI_") and (fn.endswith("_get_ptr") or fn.endswith("_get_handle")):
        return True
    return False


def _mentions(key, v):
    import re
    return re.search(r"(?<![A-Za-z0-9_])%s(?![A-Za-z0-9_])" % re.escape(v), key) is not None
