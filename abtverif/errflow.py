"""Error-discipline analyses: use-before-check of out-parameters and resources
leaked on error returns (path-sensitive typestate, no execution)."""
from . import cfg
from .cfg import Typestate, simulate


def result_var(F, nid):
    """Variable that receives the result of call node nid (decl init or assignment)."""
    pm = F.parent_map()
    p = pm.get(nid)
    while p is not None and F.nodes[p].get("k") in ("cast", "load"):
        p = pm.get(p)
    if p is None:
        return None
    pn = F.nodes[p]
    if pn.get("k") == "bin" and pn.get("asg") and pn["op"] == "=" and F.strip(pn["rh"]) == nid:
        ln = F.nodes[F.strip(pn["lh"])]
        if ln.get("k") == "ref":
            return ln["n"]
    if pn.get("k") == "decl":
        for v in pn["vars"]:
            if "init" in v and F.strip(v["init"]) == nid:
                return v["n"]
    return None


def out_params(F, nid):
    """Local variables passed by address to call nid: {var: arg index}."""
    out = {}
    for k, a in enumerate(F.nodes[nid]["a"]):
        an = F.nodes[F.strip(a)]
        if an.get("k") == "un" and an["op"] == "&":
            inner = F.nodes[F.strip(an["e"])]
            if inner.get("k") == "ref" and inner.get("dk") == "var":
                out[inner["n"]] = k
    return out


def is_fallible(P, F, nd):
    fn = nd.get("fn")
    if not fn:
        return False
    G = P.resolve_call(F, nd)
    if G is not None:
        return G.wur and G.ret == "int"
    pr = P.protos.get(fn)
    return bool(pr and pr.get("wur") and pr.get("ret") == "int")


def use_before_check(P, F):
    """[(call node, var, use node)]: an out-parameter of a fallible call is read on a
    path on which the call's result has not been tested yet."""
    findings = []
    pm = F.parent_map()
    for bid, c in F.calls():
        nd = F.nodes[c]
        if not is_fallible(P, F, nd):
            continue
        r = result_var(F, c)
        outs = out_params(F, c)
        if not outs:
            continue
        if r is None:
            # result consumed directly by a condition / return: look for the enclosing condition
            tests = []
            p = pm.get(c)
            while p is not None:
                tests.append(p)
                p = pm.get(p)
        else:
            tests = []
            names = {r}
            changed = True
            while changed:
                changed = False
                for b2, j in F.all_events():
                    jn = F.nodes[j]
                    if jn.get("k") == "decl":
                        for v in jn["vars"]:
                            if "init" in v and F.vars_in(v["init"]) & names and v["n"] not in names and \
                                    F.nodes[F.strip(v["init"])].get("k") == "ref":
                                names.add(v["n"])
                                changed = True
            for b2, B in F.blocks.items():
                if B.tc is not None and F.vars_in(B.tc) & names:
                    tests.append(B.tc)
                    # every sub-expression of the condition is an element as well
                    tests.extend(F.descendants(B.tc))
            for b2, j in F.all_events():
                jn = F.nodes[j]
                if jn.get("k") == "decl" and any("init" in v and F.vars_in(v["init"]) & names for v in jn["vars"]):
                    tests.append(j)
                if jn.get("k") == "ret" and "e" in jn and F.vars_in(jn["e"]) & names:
                    tests.append(j)
        for v in outs:
            for i, un in enumerate(F.nodes):
                if not un or un.get("k") != "ref" or un.get("n") != v:
                    continue
                par = pm.get(i)
                if par is None:
                    continue
                pk = F.nodes[par]
                # only reads: skip address-of and plain re-assignment of v
                if pk.get("k") == "un" and pk["op"] == "&":
                    continue
                if pk.get("k") == "bin" and pk.get("asg") and F.strip(pk["lh"]) == i:
                    continue
                if pk.get("k") != "load" and not (pk.get("k") == "mem"):
                    continue
                # locate the element node that evaluates this read
                e = par
                while e is not None and F.block_of(e) is None:
                    e = pm.get(e)
                if e is None:
                    continue
                if cfg.can_reach(F, c, e, avoid_nodes=tests):
                    findings.append((c, v, e))
    return findings


# ---------------------------------------------------------------- leaks

ALLOCATORS = {
    # callee: index of the out-parameter that receives the resource
    "ABTU_malloc": 1, "ABTU_calloc": 2, "ABTU_memalign": 2,
    "ABTI_mem_alloc_desc": 1, "ABTI_mem_alloc_nythread": 1,
    "ABTI_ktable_create": 2,
    "ABTU_hashtable_create": 2,
    # object constructors (the new object is owned by the caller until it is handed out or freed)
    # (work units are not listed: a created unit is pushed to its pool by the constructor and belongs to
    # the scheduler from then on)
    "ABTI_sched_create_basic": 4, "sched_create": 5, "pool_create": 8, "xstream_create": 5,
}
RELEASERS = {"ABTU_free", "ABTI_mem_free_desc", "ABTI_mem_free_thread", "ABTI_ktable_free", "ABTU_hashtable_free",
             "ABTI_mem_free_nythread_mempool_impl"}


def _direct_vars(F, i):
    """Variables whose *value* flows out through expression i: the expression is the variable itself
    (through casts), pointer arithmetic on it, or a conditional/compound of such."""
    i = F.strip(i)
    nd = F.nodes[i]
    k = nd.get("k")
    if k == "ref":
        return {nd["n"]} if nd.get("dk") in ("var", "param") else set()
    if k == "bin" and nd["op"] in ("+", "-"):
        return _direct_vars(F, nd["lh"]) | _direct_vars(F, nd["rh"])
    if k == "cond":
        return _direct_vars(F, nd["th"]) | _direct_vars(F, nd["el"])
    if k == "un" and nd["op"] == "&":
        # &v: the address of the variable escapes (it may be filled or read by the callee)
        inner = F.nodes[F.strip(nd["e"])]
        if inner.get("k") == "ref":
            return {inner["n"]}
    if k == "ilist":
        out = set()
        for e in nd["e"]:
            out |= _direct_vars(F, e)
        return out
    return set()


# resources without a handle variable: acquired by a successful call, released by the paired call
# (acquire: (release functions, "zero" if success is a zero result else "nonzero"))
STAGE_PAIRS = {
    "ABTI_mem_init": ({"ABTI_mem_finalize"}, "zero"),
    "ABTI_mem_init_local": ({"ABTI_mem_finalize_local"}, "zero"),
    "ABTI_xstream_create_primary": ({"ABTI_xstream_free"}, "zero"),
    "ABTI_ythread_create_root": ({"ABTI_ythread_free_root"}, "zero"),
    "ABTI_ythread_create_main_sched": ({"ABTI_thread_free"}, "zero"),
    "ABTI_pool_create_basic": ({"ABTI_pool_free"}, "zero"),
    "xstream_set_new_rank": ({"xstream_return_rank"}, "nonzero"),
    "pthread_mutex_init": ({"pthread_mutex_destroy"}, "zero"),
    "pthread_cond_init": ({"pthread_cond_destroy"}, "zero"),
    "pthread_barrier_init": ({"pthread_barrier_destroy"}, "zero"),
    "ABTD_xstream_barrier_init": ({"ABTD_xstream_barrier_destroy"}, "zero"),
}


class LeakTS(Typestate):
    """State: frozenset of (var, call node, assumed_success) for resources held by locals."""

    def __init__(self, P):
        self.P = P
        self.init = frozenset()
        self.leaks = []

    def event(self, F, nid, st, ctx):
        nd = F.nodes[nid]
        k = nd.get("k")
        if k == "call":
            fn = nd.get("fn")
            if fn in ALLOCATORS and len(nd["a"]) > ALLOCATORS[fn]:
                an = F.nodes[F.strip(nd["a"][ALLOCATORS[fn]])]
                if an.get("k") == "un" and an["op"] == "&":
                    inner = F.nodes[F.strip(an["e"])]
                    if inner.get("k") == "ref" and inner.get("dk") == "var":
                        v = inner["n"]
                        r0 = result_var(F, nid)
                        r = frozenset([r0]) if r0 else frozenset()
                        st2 = frozenset(x for x in st if x[0] != v)
                        return {st2 | {(v, nid, r, True)}, st2 | {(v, nid, r, False)}}
                return st
            if fn in STAGE_PAIRS:
                r0 = result_var(F, nid)
                r = frozenset([r0]) if r0 else frozenset()
                name = "@" + fn
                ops = out_params(F, nid)
                if ops:
                    # the object is handed out through a local variable: follow that variable instead
                    # (it may be stored into a container, which transfers ownership)
                    name = sorted(ops)[0]
                pol = STAGE_PAIRS[fn][1]
                st2 = frozenset(x for x in st if x[0] != name)
                # `success` records the assumed *zero-ness* consistency: True = acquired
                return {st2 | {(name, nid, r, True if pol == "zero" else "nz-acquired")},
                        st2 | {(name, nid, r, False if pol == "zero" else "nz-failed")}}
            for acq, (rels, pol) in STAGE_PAIRS.items():
                if fn in rels:
                    st = frozenset(x for x in st if x[0] != "@" + acq)
            # a call that receives the resource pointer itself (not a field of it): released or transferred
            used = set()
            for a in nd["a"]:
                used |= _direct_vars(F, a)
            if used:
                return frozenset(x for x in st if x[0] not in used)
            return st
        if k == "bin" and nd.get("asg"):
            used = _direct_vars(F, nd["rh"])
            ln = F.nodes[F.strip(nd["lh"])]
            out = st
            if used:
                # value copied somewhere else (alias / stored into an object): transferred
                out = frozenset(x for x in out if x[0] not in used)
            if ln.get("k") == "ref":
                # the variable itself is overwritten: stop tracking it; result copies are followed
                rn = F.nodes[F.strip(nd["rh"])]
                def upd(r):
                    r = r - {ln["n"]}
                    if rn.get("k") == "ref" and rn["n"] in r and nd["op"] == "=":
                        r = r | {ln["n"]}
                    return r
                rhs = F.strip(nd["rh"])
                out = frozenset((v, c, (r if rhs == c else upd(r)), s) for v, c, r, s in out if v != ln["n"])
            return out
        if k == "decl":
            out = st
            for v in nd["vars"]:
                if "init" in v:
                    used = _direct_vars(F, v["init"])
                    out = frozenset(x for x in out if x[0] not in used)
                    iv = F.nodes[F.strip(v["init"])]
                    if iv.get("k") == "ref":
                        out = frozenset((a, c, (r | {v["n"]}) if iv["n"] in r else r, s) for a, c, r, s in out)
            return out
        if k == "ret":
            if "e" in nd:
                used = _direct_vars(F, nd["e"])
                st = frozenset(x for x in st if x[0] not in used)
            return st
        return st

    def edge(self, F, bid, key, truth, st, ctx):
        if ctx.cond_node is None or not st:
            return st
        from .locks import _result_zero
        out = set()
        for (v, c, r, success) in st:
            assumed_zero = success if isinstance(success, bool) else (success == "nz-failed")
            for name in (list(r) or [None]):
                rz = _result_zero(F, ctx.cond_node, ctx.cond_val, c, name)
                if rz is not None and rz != assumed_zero:
                    return None
        # `if (p != other_storage)`: a freshly allocated block cannot equal other storage, so the
        # equal branch is infeasible while p is owned (idiom: heap buffer vs. on-stack buffer)
        cn0 = F.nodes[ctx.cond_node]
        if cn0.get("k") == "bin" and cn0["op"] in ("==", "!="):
            eq = ctx.cond_val if cn0["op"] == "==" else (not ctx.cond_val)
            sides = [F.nodes[F.strip(cn0["lh"])], F.nodes[F.strip(cn0["rh"])]]
            for a, b in ((sides[0], sides[1]), (sides[1], sides[0])):
                if a.get("k") == "ref" and b.get("cv") is None and eq and any(x[0] == a["n"] and x[3] is True for x in st):
                    return None
        # a NULL test of the resource variable itself: `if (!p)` true => nothing to release
        cn = F.nodes[ctx.cond_node]
        if cn.get("k") == "ref" and ctx.cond_val is False:
            st = frozenset(x for x in st if x[0] != cn["n"])
        return st

    def exit(self, F, kind, nid, st, ctx):
        if kind != "ret" or nid is None:
            return
        nd = F.nodes[nid]
        if "e" not in nd:
            return
        rv = ctx.value(nd["e"])
        e = F.nodes[F.strip(nd["e"])]
        is_err = False
        if rv is not None:
            is_err = rv != 0
        elif e.get("k") == "ref":
            f = ctx.facts.get(e["n"])
            is_err = f is True or ctx.facts.get("%s == 0" % e["n"]) is False
        if not is_err:
            return
        for (v, c, r, success) in st:
            if success is True or success == "nz-acquired":
                self.leaks.append((c, v, nid))


def leaks_on_error(P, F):
    if not any(nd and nd.get("k") == "call" and (nd.get("fn") in ALLOCATORS or nd.get("fn") in STAGE_PAIRS) for nd in F.nodes):
        return []
    ts = LeakTS(P)
    try:
        simulate(F, ts, max_states=400000)
    except RuntimeError:
        return None
    return sorted(set(ts.leaks))
